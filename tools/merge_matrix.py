#!/usr/bin/env python3
"""merge_matrix.py <out.json> <tag>=<source> ... : build seeded/MATRIX.json from several measurements, later sources
overriding earlier ones. A source is a MATRIX json file or a log of tools/seeded_matrix.sh ("<name>: <result> <detail>"
lines). Every row records the harness commit it was measured at ("measured_at": the tag)."""
import json, re, sys, os
out = sys.argv[1]
m = {}
for arg in sys.argv[2:]:
    tag, src = arg.split("=", 1)
    if not os.path.exists(src):
        continue
    if src.endswith(".json"):
        for k, v in json.load(open(src)).items():
            m[k] = {"result": v["result"], "detail": v.get("detail", ""), "measured_at": v.get("measured_at", tag)}
    else:
        for l in open(src, errors="replace"):
            mm = re.match(r"^(C\d\d-\d+): (detected|missed|harness_error) ?(.*)$", l.rstrip("\n"))
            if mm:
                m[mm.group(1)] = {"result": mm.group(2), "detail": mm.group(3), "measured_at": tag}
root = os.path.dirname(os.path.dirname(os.path.abspath(__file__)))
have = {d for d in os.listdir(os.path.join(root, "seeded")) if re.match(r"^C\d\d-\d+$", d)}
m = {k: v for k, v in m.items() if k in have}
json.dump(m, open(out, "w"), indent=1, sort_keys=True)
missing = sorted(have - set(m))
print(f"{len(m)} rows; not measured: {missing}")
