#!/bin/bash
# multi_seed.sh [seed ...]: quick tier of every claimed check under other base seeds (default 2 3 4 5) on the
# tree as it is. Any line that is not "OK" is a false alarm to investigate (or a defect). Evidence files are put back.
cd "$(dirname "$0")/.."
seeds="$@"; [ -z "$seeds" ] && seeds="2 3 4 5"
mkdir -p target/evidence.keep; cp evidence/*.json target/evidence.keep/
bad=0
for p in C01 C04 C05 C06 C09 C10 C11 C12 C13 C14 C16 C17 C18 C20; do
  for s in $seeds; do
    out=$(VERIF_SEED=$s ./check $p --tier quick 2>&1 | tail -2 | cut -c1-300)
    case "$out" in *"OK property=$p"*) echo "$p seed=$s ok";; *) echo "$p seed=$s: $out"; bad=1;; esac
  done
done
cp target/evidence.keep/*.json evidence/
exit $bad
