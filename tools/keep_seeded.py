#!/usr/bin/env python3
"""keep_seeded.py <worktree> <k> <PROP> [name]: copy a verified seeded change into /verif/seeded/<name or PROP-k>/"""
import json, os, shutil, sys
wt, k, prop = sys.argv[1], sys.argv[2], sys.argv[3]
src = os.path.join(wt, "OUT", k)
dst = os.path.join("/verif/seeded", sys.argv[4] if len(sys.argv) > 4 else f"{prop}-{k}")
os.makedirs(dst, exist_ok=True)
meta = json.load(open(os.path.join(src, "meta.json")))
ver = None
for l in open(os.path.join(wt, "OUT", "verify.jsonl")):
    try:
        j = json.loads(l)
        if str(j.get("k")) == str(k):
            ver = j
    except Exception:
        pass
for f in os.listdir(src):
    if f.startswith("verify_") or f == "meta.json":
        continue
    shutil.copy(os.path.join(src, f), os.path.join(dst, f))
out = {
    "property": prop,
    "summary": meta.get("summary"),
    "needs_to_manifest": meta.get("needs_to_manifest"),
    "demo_path": meta.get("demo_path"),
    "demo_cmd": meta.get("demo_cmd"),
    "author": "independent sub-agent given only the property text and a scratch worktree",
    "confirmed_by_me": {
        "how": "tools/verify_mutant.sh in the scratch worktree: demo on clean tree, demo with patch, `cargo test -p <crate> --offline --lib --tests` with patch",
        "demo_passes_without_patch": ver and ver["demo_passes_clean"],
        "demo_fails_with_patch": ver and ver["demo_fails_patched"],
        "existing_tests_pass_with_patch": ver and ver["existing_tests_pass_patched"],
    },
    "agent_notes": {k2: v for k2, v in meta.items() if k2 not in ("summary", "needs_to_manifest", "demo_path", "demo_cmd", "property")},
}
json.dump(out, open(os.path.join(dst, "meta.json"), "w"), indent=1)
print("kept", dst)
