#!/usr/bin/env python3
"""Render seeded/MATRIX.json + seeded/*/meta.json as a markdown table (stdout)."""
import json, os, re
root = os.path.dirname(os.path.dirname(os.path.abspath(__file__)))
mat = json.load(open(os.path.join(root, "seeded", "MATRIX.json")))
print("| seeded change | what it breaks (needs) | quick check result |")
print("|---|---|---|")
def key(n):
    a, b = n.rsplit("-", 1)
    return (a, int(b))
for name in sorted(mat, key=key):
    meta = json.load(open(os.path.join(root, "seeded", name, "meta.json")))
    summ = (meta.get("summary") or "").replace("|", "/").replace("\n", " ")
    summ = summ[:170] + ("…" if len(summ) > 170 else "")
    needs = (meta.get("needs_to_manifest") or "").replace("|", "/").replace("\n", " ")
    needs = needs[:110] + ("…" if len(needs) > 110 else "")
    r = mat[name]
    det = r.get("detail", "")
    m = re.search(r"check=(\S+) secs=(\d+) violation class=(\S+) run_index=(\d+)", det)
    rep = re.search(r"replay_reproduced=(\d/\d)", det)
    if r["result"] == "detected" and m:
        res = f"**detected** by {m.group(1)}: `{m.group(3)}` at run {m.group(4)} ({m.group(2)} s)" + (f", replay reproduced {rep.group(1)}" if rep else "")
    elif meta.get("expected") == "missed":
        res = "**missed** (expected, see the text above): " + (meta.get("note") or "")[:160].replace("|", "/") + "…"
    else:
        res = f"**{r['result']}** {det[:80]}"
    mark = {"9be0dcc": " †a", "b5542ff": " †b"}.get(r.get("measured_at", "final"), "")
    print(f"| {name} | {summ} *(needs: {needs})* | {res}{mark} |")
