#!/usr/bin/env python3
"""Render seeded/MATRIX.json + seeded/*/meta.json as a markdown table (stdout)."""
import json, os, re
root = os.path.dirname(os.path.dirname(os.path.abspath(__file__)))
mat = json.load(open(os.path.join(root, "seeded", "MATRIX.json")))
print("| seeded change | what it breaks (needs) | quick check result |")
print("|---|---|---|")
for name in sorted(mat):
    meta = json.load(open(os.path.join(root, "seeded", name, "meta.json")))
    summ = (meta.get("summary") or "").replace("|", "/").replace("\n", " ")
    summ = summ[:170] + ("…" if len(summ) > 170 else "")
    needs = (meta.get("needs_to_manifest") or "").replace("|", "/").replace("\n", " ")
    needs = needs[:110] + ("…" if len(needs) > 110 else "")
    r = mat[name]
    det = r.get("detail", "")
    m = re.search(r"check=(\S+) secs=(\d+) violation class=(\S+) run_index=(\d+)", det)
    if r["result"] == "detected" and m:
        res = f"**detected** by {m.group(1)}: `{m.group(3)}` at run {m.group(4)} ({m.group(2)} s)"
    else:
        res = f"**{r['result']}** {det[:80]}"
    print(f"| {name} | {summ} *(needs: {needs})* | {res} |")
