#!/bin/bash
# triage_round.sh <PROP> <first-new-index> : verify the 4 candidates in /tmp/wt-<PROP>, keep the confirmed ones as
# seeded/<PROP>-<n>, run the quick check with each applied to /repo. Sequential; /repo must be clean.
prop="$1"; base="$2"; wt=/tmp/wt-$prop
cd /verif
: > $wt/OUT/verify.jsonl
for k in 1 2 3 4; do
  [ -d $wt/OUT/$k ] || continue
  tools/verify_mutant.sh $wt $k | tee -a $wt/OUT/verify.jsonl
done
n=$base
for k in 1 2 3 4; do
  [ -d $wt/OUT/$k ] || continue
  ok=$(python3 - "$wt/OUT/verify.jsonl" $k <<'PY'
import json,sys
r=None
for l in open(sys.argv[1]):
    try:
        j=json.loads(l)
        if str(j.get('k'))==sys.argv[2]: r=j
    except Exception: pass
print('yes' if r and r.get('demo_passes_clean') and r.get('demo_fails_patched') and r.get('existing_tests_pass_patched') else 'no')
PY
)
  if [ "$ok" != yes ]; then echo "== $prop k=$k NOT confirmed, skipped"; continue; fi
  name=$prop-$n; n=$((n+1))
  python3 tools/keep_seeded.py $wt $k $prop $name >/dev/null
  echo "== $name (k=$k)"
  tools/try_seeded.sh /verif/seeded/$name/patch.diff $prop 2>&1 | cut -c1-400
done
