#!/bin/bash
# negative_controls.sh [dir ...]: apply each legal (property-preserving) variant under controls/ to the
# repository, run the quick tier of the checks it lists and undo it. Every check must exit 0:
# a check that fires on one of these demands more than its property.
cd "$(dirname "$0")/.."
ROOT="$(pwd)"; REPO="${VERIF_REPO:-/repo}"
dirs="$@"; [ -z "$dirs" ] && dirs=$(ls -d controls/*/ | sort)
bad=0
for d in $dirs; do
  d=${d%/}; name=$(basename $d)
  checks=$(python3 -c "import json;print(' '.join(json.load(open('$d/meta.json'))['checks']))")
  git -C "$REPO" diff --quiet || { echo "refusing: repo dirty"; exit 2; }
  git -C "$REPO" apply "$ROOT/$d/patch.diff" || { echo "$name: patch does not apply"; bad=1; continue; }
  for c in $checks; do
    ./check $c --tier quick > /tmp/nc.out 2>&1; rc=$?
    if [ $rc -eq 0 ]; then echo "$name $c: silent (ok)"; else echo "$name $c: ALARM rc=$rc $(grep -E '^violation|HARNESS' /tmp/nc.out | head -1 | cut -c1-250)"; bad=1; fi
  done
  git -C "$REPO" checkout -- .
done
exit $bad
