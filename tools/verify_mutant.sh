#!/bin/bash
# verify_mutant.sh <worktree> <k> : confirm, in the scratch worktree, that
#  (a) the demo passes on the clean tree, (b) fails with the patch, (c) the crate's existing tests pass with the patch.
# Prints a one-line JSON verdict.
wt="$1"; k="$2"
cd "$wt" || exit 2
export CARGO_NET_OFFLINE=true
git checkout -q -- . ; git clean -qfd -e OUT
meta="OUT/$k/meta.json"
demo_path=$(python3 -c "import json;print(json.load(open('$meta'))['demo_path'])")
demo_cmd=$(python3 -c "import json;print(json.load(open('$meta'))['demo_cmd'])")
tests_cmd=$(python3 -c "import json;print(json.load(open('$meta')).get('existing_tests_cmd',''))")
demo_file=$(ls OUT/$k/ | grep -v -E '^(patch.diff|meta.json)$' | head -1)
mkdir -p "$(dirname "$demo_path")"
cp "OUT/$k/$demo_file" "$demo_path"
( eval "$demo_cmd" ) > OUT/$k/verify_clean.log 2>&1; clean_rc=$?
git apply OUT/$k/patch.diff || { echo "{\"k\":$k,\"error\":\"patch does not apply\"}"; exit 1; }
( eval "$demo_cmd" ) > OUT/$k/verify_patched.log 2>&1; patched_rc=$?
crates=$(git diff --name-only | cut -d/ -f1 | sort -u | tr '\n' ' ')
tests_rc=0
for c in $crates; do
  ( cargo test -p $c --offline --lib --tests ) > OUT/$k/verify_tests_$c.log 2>&1 || tests_rc=1
done
# the demo file is a new test in tests/: exclude it from "existing tests" judgement by checking only non-demo failures
demo_name=$(basename "$demo_path" .rs)
if [ $tests_rc -ne 0 ]; then
  # tolerate failure only if the sole failing target is the demo itself
  if ! grep -h "^error: test failed" OUT/$k/verify_tests_*.log | grep -v -- "--test $demo_name" | grep -q .; then tests_rc=0; fi
fi
git checkout -q -- . ; git clean -qfd -e OUT
echo "{\"k\":$k,\"demo_passes_clean\":$([ $clean_rc -eq 0 ] && echo true || echo false),\"demo_fails_patched\":$([ $patched_rc -ne 0 ] && echo true || echo false),\"existing_tests_pass_patched\":$([ $tests_rc -eq 0 ] && echo true || echo false),\"crates\":\"$crates\"}"
