#!/bin/bash
# seeded_matrix.sh [dir ...]: run the quick check of each seeded change's property with the change applied to
# /repo (undone straight afterwards); writes seeded/MATRIX.json. /repo must be clean.
cd "$(dirname "$0")/.."
export ROOT="$(pwd)"
REPO="${VERIF_REPO:-/repo}"
dirs="$@"; [ -z "$dirs" ] && dirs=$(ls -d seeded/*/ | sort)
python3 - <<'PY' > /dev/null
import json,os
import os
p=os.path.join(os.environ.get('ROOT','/verif'),'seeded/MATRIX.json')
if not os.path.exists(p): json.dump({}, open(p,'w'))
PY
for d in $dirs; do
  d=${d%/}; name=$(basename $d); prop=$(python3 -c "import json;print(json.load(open('$d/meta.json'))['property'])")
  checks=$(python3 -c "import json;m=json.load(open('$d/meta.json'));print(' '.join(m.get('checks_to_run',[m['property']])))")
  git -C "$REPO" diff --quiet || { echo "refusing: /repo dirty"; exit 2; }
  git -C "$REPO" apply "$ROOT/$d/patch.diff" || { echo "$name: patch does not apply"; continue; }
  res="missed"; detail=""
  for c in $checks; do
    s=$(date +%s); ./check $c --tier quick > "$ROOT/target/matrix.out" 2>&1; rc=$?; e=$(date +%s)
    line=$(grep -E "^violation" "$ROOT/target/matrix.out" | head -1 | cut -c1-300)
    if [ $rc -eq 1 ]; then
      res="detected"; detail="check=$c secs=$((e-s)) $line"
      # the replay file must reproduce the violation (same class) in fresh processes, twice
      rp=$(grep -E "^VIOLATION" "$ROOT/target/matrix.out" | head -1 | sed -E 's/.*replay=//')
      cls=$(echo "$line" | sed -E 's/.*class=([a-z_]+).*/\1/')
      ok=0
      for i in 1 2; do
        ./target/debug/verif-sim replay "$rp" > "$ROOT/target/matrix.replay" 2>&1; rrc=$?
        if [ $rrc -eq 1 ] && grep -q "class=$cls" "$ROOT/target/matrix.replay"; then ok=$((ok+1)); else mkdir -p "$ROOT/target/replay_failures"; { echo "rc=$rrc cls=$cls file=$rp"; head -40 "$ROOT/target/matrix.replay"; } > "$ROOT/target/replay_failures/$name.$i.txt"; fi
      done
      detail="$detail replay_reproduced=$ok/2"
      break
    fi
    if [ $rc -eq 2 ]; then res="harness_error"; detail="check=$c $(grep HARNESS "$ROOT/target/matrix.out" | head -1)"; break; fi
  done
  git -C "$REPO" checkout -- .
  echo "$name: $res $detail"
  python3 - "$name" "$res" "$detail" <<'PY'
import json,sys
import os
p=os.path.join(os.environ.get('ROOT','/verif'),'seeded/MATRIX.json')
m=json.load(open(p)); m[sys.argv[1]]={"result":sys.argv[2],"detail":sys.argv[3]}
json.dump(m, open(p,'w'), indent=1, sort_keys=True)
PY
done
