#!/bin/bash
# run_thorough_all.sh [props...] : run the thorough tier of every (or the given) property, one after the
# other, from the directory this script lives in (used with `vp run` on a snapshot); prints one line each.
cd "$(dirname "$0")/.."
./setup.sh >/dev/null 2>&1
props="$@"; [ -z "$props" ] && props="C01 C04 C05 C06 C09 C10 C11 C12 C13 C14 C16 C17 C18 C20"
for p in $props; do
  s=$(date +%s); ./check $p --tier thorough > thorough_$p.out 2>&1; rc=$?; e=$(date +%s)
  echo "$p rc=$rc secs=$((e-s)) $(tail -1 thorough_$p.out | cut -c1-220)"
done
