#!/usr/bin/env python3
"""round_prompt.py <PROP> <worktree> [n]: print the prompt for a fresh sub-agent that is to seed n (default 4)
changes breaking <PROP>. The agent gets the property text, its scratch worktree and the one-paragraph summaries
of the changes earlier agents wrote (so that it writes different ones) - nothing about /verif's checks."""
import json, os, sys
root = os.path.dirname(os.path.dirname(os.path.abspath(__file__)))
prop, wt = sys.argv[1], sys.argv[2]
n = int(sys.argv[3]) if len(sys.argv) > 3 else 4
p = None
for l in open(os.path.join(root, "properties.jsonl")):
    j = json.loads(l)
    if j["id"] == prop:
        p = j
earlier = []
sd = os.path.join(root, "seeded")
for d in sorted(os.listdir(sd)):
    mp = os.path.join(sd, d, "meta.json")
    if d.startswith(prop + "-") and os.path.exists(mp):
        m = json.load(open(mp))
        s = (m.get("summary") or "").replace("\n", " ")
        earlier.append("- " + s[:330] + ("…" if len(s) > 330 else ""))
a = p.get("anchors") or {}
anchors = {"files": a.get("files", []), "mechanism": [f"{m.get('name')} ({m.get('where')})" for m in a.get("mechanism", [])]}
print(f"""You are helping to evaluate a verification effort for the Rust project awslabs/metrique (crates for unit-of-work
metrics). You have your own scratch git worktree of the repository at {wt} (a detached checkout; work ONLY there, never in
/repo, never look at /verif or any other directory under /tmp). The sandbox has no network: always pass --offline to cargo
(CARGO_NET_OFFLINE=true). Run shell commands one at a time (never two shells in parallel).

The property under study (this text is all you are given about it):

  {p['id']}: {p.get('title','')}
  {p.get('statement','')}

Code it is anchored in: {json.dumps(anchors)[:2500]}

Your job: write {n} DIFFERENT, independent changes to the library source (not to tests) each of which
  (a) BREAKS the property above for some input / schedule / fault / history,
  (b) still compiles, and the existing test suite of every crate it touches still passes
      (`cargo test -p <crate> --offline --lib --tests`), and
  (c) looks like something a well-meaning developer could commit: an optimisation, a refactoring, a robustness tweak,
      a misread API contract - not sabotage, no dead giveaways in comments.
Each change must need something SPECIFIC to manifest: a particular thread interleaving, a fault or error at a particular
point, a multi-step sequence of operations, an unusual input / configuration / size, a rarely used API variant, or two
cooperating sites that each look fine alone. Ordinary use must NOT expose it at once. Prefer subtle over blunt; read the
code of the anchored files and their callers first and look for the places where the property is actually enforced.

Earlier agents already wrote the changes summarised below. Yours must be different from ALL of them - different mechanism,
preferably different functions / files / API variants / error paths / configuration, not a variation of one of these:
{chr(10).join(earlier) if earlier else '(none)'}

For each change k = 1..{n} produce, in {wt}/OUT/<k>/ :
  * patch.diff   - `git diff` of the library change alone against the worktree's HEAD (must apply with `git apply` on a clean
                   checkout; do not include the demonstration in it)
  * one demonstration file: a new integration test (e.g. <crate>/tests/c_demo_<k>.rs) or small program that PASSES on the
                   clean tree and FAILS with the change applied. It must be deterministic (use barriers / channels / gates /
                   injected clocks or writers to force the needed interleaving or fault, not sleeps and luck; if a sleep is
                   unavoidable make the margin generous). Use only the public API plus what existing tests of that crate use.
  * meta.json    - {{"property": "{prop}", "summary": "<one paragraph: what was changed, where, and why it breaks the property>",
                   "needs_to_manifest": "<what specific interleaving / fault / sequence / input is needed>",
                   "demo_path": "<path of the demonstration relative to the worktree root, where it has to be placed>",
                   "demo_cmd": "<shell command, run from the worktree root, that runs ONLY the demonstration; exit 0 = pass>",
                   "existing_tests_cmd": "<command you ran for (b)>", "existing_tests_pass": true}}
Procedure per change: make the edit, write the demo, confirm it fails; save the diff; `git checkout -- .` (keep OUT/ and the
demo aside), confirm the demo passes on the clean tree; re-apply and run the touched crates' existing tests. Leave the worktree
clean (only OUT/ untracked) when you finish. Do not commit anything.

If, while reading, you notice something in the UNCHANGED code that already violates the property (a genuine defect), say so
in your final report with the exact sequence that shows it - that is valuable - but still deliver the {n} changes.

Final report (short): for each k one line with the file/function touched and what is needed to manifest; plus anything you
could not complete.""")
