#!/bin/bash
# try_seeded.sh <patch.diff> <PROP> [tier] : apply a seeded change to /repo, run the property's check, undo.
patch="$1"; prop="$2"; tier="${3:-quick}"
cd /verif
git -C /repo diff --quiet || { echo "refusing: /repo has uncommitted changes"; exit 2; }
git -C /repo apply "$(realpath "$patch")" || { echo "patch does not apply"; exit 2; }
start=$(date +%s)
cp evidence/$prop.json /tmp/try_seeded.evidence 2>/dev/null
./check "$prop" --tier "$tier" > /tmp/try_seeded.out 2>&1; rc=$?
end=$(date +%s)
# (the evidence file describes the unchanged tree: put it back)
cp /tmp/try_seeded.evidence evidence/$prop.json 2>/dev/null
git -C /repo checkout -- .
grep -E "^(violation|VIOLATION|OK|KNOWN|HARNESS)" /tmp/try_seeded.out | head -5
echo "exit=$rc secs=$((end-start))"
