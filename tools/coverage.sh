#!/bin/bash
# coverage.sh [runs-per-property] : diagnostic only (not a check). Builds the harness with
# -C instrument-coverage on the nightly toolchain (it ships llvm-cov/llvm-profdata) into a scratch
# target dir, runs N indices of every claimed property, and prints per-file line coverage of the
# repository sources plus the uncovered regions of the anchored files into /tmp/verif-cov/report/.
set -eu
cd "$(dirname "$0")/.."
N="${1:-3000}"
S=/tmp/verif-cov
rm -rf $S/prof; mkdir -p $S/prof $S/report
BIN=$(ls -d ~/.rustup/toolchains/nightly-x86_64-unknown-linux-gnu/lib/rustlib/*/bin | head -1)
python3 tools/gen_shadow.py /repo "$(pwd)/shadow"
CARGO_NET_OFFLINE=true RUSTFLAGS="--cfg metrique_verif --cfg getrandom_backend=\"custom\" -C instrument-coverage" cargo +nightly build --offline -p verif-harness --target-dir $S/target 2>&1 | tail -2
for p in C01 C04 C05 C06 C09 C10 C11 C12 C13 C14 C16 C17 C18 C20; do
  start=0
  while [ $start -lt $N ]; do
    LLVM_PROFILE_FILE="$S/prof/$p-$start-%p.profraw" VERIF_WATCHDOG_S=300 $S/target/debug/verif-sim worker --prop $p --tier thorough --seed 1 --start $start --count 256 --chunk 256 --out $S/prof/w-$p-$start.json >/dev/null 2>&1 || true
    start=$((start+256))
  done
done
$BIN/llvm-profdata merge -sparse $S/prof/*.profraw -o $S/all.profdata
$BIN/llvm-cov report $S/target/debug/verif-sim -instr-profile=$S/all.profdata --ignore-filename-regex='(\.cargo|rustc|/verif/)' > $S/report/summary.txt 2>/dev/null
$BIN/llvm-cov show $S/target/debug/verif-sim -instr-profile=$S/all.profdata --ignore-filename-regex='(\.cargo|rustc|/verif/)' --show-line-counts-or-regions -format=text > $S/report/show.txt 2>/dev/null
echo "report in $S/report"
