// FlushImmediately (and its boxed / Any forms) reported a rejected entry, a failed write or a failed flush with
// tracing::error! / warn! *while holding the sink's mutex*. A tracing subscriber that reacts to such an event by
// appending a metric entry to the same sink (an "errors seen" metric) re-enters append() on the same thread and
// blocks on that mutex for ever: after the first validation or I/O error the sink never accepts another entry.
// Place in metrique-writer/tests/ and run with  cargo test -p metrique-writer --offline --test demo_real_threads
use metrique_writer::sink::FlushImmediately;
use metrique_writer::{Entry, EntryIoStream, EntrySink, EntryWriter, IoStreamError};
use std::sync::atomic::{AtomicUsize, Ordering};
use std::sync::{mpsc, Arc, OnceLock};
use std::time::Duration;

struct E(u64);
impl Entry for E {
    fn write<'a>(&'a self, w: &mut impl EntryWriter<'a>) {
        w.value("n", &self.0);
    }
}

#[derive(Clone, Default)]
struct Flaky {
    calls: Arc<AtomicUsize>,
}
impl EntryIoStream for Flaky {
    fn next(&mut self, _e: &impl Entry) -> Result<(), IoStreamError> {
        // the very first entry hits a full disk
        if self.calls.fetch_add(1, Ordering::SeqCst) == 0 {
            return Err(IoStreamError::Io(std::io::Error::other("disk full")));
        }
        Ok(())
    }
    fn flush(&mut self) -> std::io::Result<()> {
        Ok(())
    }
}

static SINK: OnceLock<FlushImmediately<E, Flaky>> = OnceLock::new();

struct ErrorsSeen;
impl tracing::Subscriber for ErrorsSeen {
    fn enabled(&self, m: &tracing::Metadata<'_>) -> bool {
        m.is_event() && *m.level() <= tracing::Level::WARN
    }
    fn new_span(&self, _: &tracing::span::Attributes<'_>) -> tracing::span::Id {
        tracing::span::Id::from_u64(1)
    }
    fn record(&self, _: &tracing::span::Id, _: &tracing::span::Record<'_>) {}
    fn record_follows_from(&self, _: &tracing::span::Id, _: &tracing::span::Id) {}
    fn event(&self, _: &tracing::Event<'_>) {
        // one metric entry per warning / error, through the application's sink
        if let Some(s) = SINK.get() {
            s.append(E(1_000_000));
        }
    }
    fn enter(&self, _: &tracing::span::Id) {}
    fn exit(&self, _: &tracing::span::Id) {}
}

#[test]
fn an_error_report_may_come_back_to_the_sink() {
    let (tx, rx) = mpsc::channel();
    std::thread::spawn(move || {
        let stream = Flaky::default();
        let calls = stream.calls.clone();
        let _ = SINK.set(FlushImmediately::new(stream));
        let _g = tracing::subscriber::set_default(ErrorsSeen);
        SINK.get().unwrap().append(E(1)); // fails; reported; the report becomes an entry
        SINK.get().unwrap().append(E(2));
        tx.send(calls.load(Ordering::SeqCst)).unwrap();
    });
    match rx.recv_timeout(Duration::from_secs(10)) {
        Ok(n) => assert_eq!(n, 3, "the failed entry, the entry made from its report, and the next one"),
        Err(_) => panic!("append never returned: the error was reported while the sink's lock was held and the subscriber's own append waits for that lock"),
    }
}
