use std::sync::{Arc, Mutex};
use std::time::Duration;
use metrique_writer::{Entry, EntryIoStream, IoStreamError};
use metrique_writer::sink::BackgroundQueueBuilder;
use metrique_metricsrs::MetricReporter;

#[derive(Clone, Default)]
struct Count(Arc<Mutex<(u32, u32, bool)>>); // (entries, flushes, dropped)
struct S(Count);
impl EntryIoStream for S {
    fn next(&mut self, _e: &impl Entry) -> Result<(), IoStreamError> { self.0.0.lock().unwrap().0 += 1; Ok(()) }
    fn flush(&mut self) -> std::io::Result<()> { self.0.0.lock().unwrap().1 += 1; Ok(()) }
}
impl Drop for S { fn drop(&mut self) { self.0.0.lock().unwrap().2 = true; } }

#[tokio::test]
async fn handle_is_kept_until_shutdown() {
    let c = Count::default();
    let pair = BackgroundQueueBuilder::new().flush_interval(Duration::from_millis(20)).build_boxed(S(c.clone()));
    let (reporter, recorder) = MetricReporter::builder()
        .metrics_publish_interval(Duration::from_millis(50))
        .metrics_rs_version::<dyn metrics_024::Recorder>()
        .metrics_sink(pair)
        .build_without_installing();
    tokio::time::sleep(Duration::from_millis(30)).await;
    let dropped_right_after_build = c.0.lock().unwrap().2;
    metrics_024::with_local_recorder(&recorder, || metrics_024::counter!("c").increment(5));
    tokio::time::sleep(Duration::from_millis(200)).await;
    reporter.shutdown().await;
    let (entries, _f, dropped) = *c.0.lock().unwrap();
    println!("stream dropped right after build: {dropped_right_after_build}; entries written: {entries}; dropped at end: {dropped}");
    assert!(!dropped_right_after_build, "the queue was shut down as soon as the reporter was built");
    assert!(entries >= 1, "no readout ever reached the stream");
}
