// shutdown_timeout(Duration::MAX) - "wait as long as it takes" - is accepted by the builder (it only checks for
// zero). At shutdown the writer computed `Instant::now() + shutdown_timeout`, which overflows and panics before the
// final drain: what was still queued is never written, the stream is never flushed, and the join handle's drop
// panics in `join().unwrap()`. Place in metrique-writer/tests/ and run with
//   cargo test -p metrique-writer --offline --test demo_real_threads
use metrique_writer::sink::BackgroundQueueBuilder;
use metrique_writer::{Entry, EntryIoStream, EntrySink, EntryWriter, IoStreamError};
use std::sync::atomic::{AtomicBool, AtomicUsize, Ordering};
use std::sync::Arc;
use std::time::Duration;

struct E(u64);
impl Entry for E {
    fn write<'a>(&'a self, w: &mut impl EntryWriter<'a>) {
        w.value("n", &self.0);
    }
}

#[derive(Clone, Default)]
struct Rec {
    written: Arc<AtomicUsize>,
    flushed_after_last: Arc<AtomicBool>,
    gate: Arc<AtomicBool>,
}
impl EntryIoStream for Rec {
    fn next(&mut self, _e: &impl Entry) -> Result<(), IoStreamError> {
        // the first write waits until the test has dropped the join handle, so the rest is left to the final drain
        while !self.gate.load(Ordering::SeqCst) {
            std::thread::sleep(Duration::from_millis(1));
        }
        self.written.fetch_add(1, Ordering::SeqCst);
        self.flushed_after_last.store(false, Ordering::SeqCst);
        Ok(())
    }
    fn flush(&mut self) -> std::io::Result<()> {
        self.flushed_after_last.store(true, Ordering::SeqCst);
        Ok(())
    }
}

#[test]
fn huge_shutdown_timeout_still_drains() {
    let rec = Rec::default();
    let (q, handle) = BackgroundQueueBuilder::new()
        .shutdown_timeout(Duration::MAX)
        .build::<E>(rec.clone());
    for i in 0..100 {
        q.append(E(i));
    }
    let gate = rec.gate.clone();
    let opener = std::thread::spawn(move || {
        std::thread::sleep(Duration::from_millis(200));
        gate.store(true, Ordering::SeqCst);
    });
    let dropped = std::panic::catch_unwind(std::panic::AssertUnwindSafe(move || drop(handle)));
    opener.join().unwrap();
    assert!(dropped.is_ok(), "dropping the join handle panicked (the writer thread had panicked)");
    assert_eq!(rec.written.load(Ordering::SeqCst), 100, "entries appended before the drop were not all written");
    assert!(rec.flushed_after_last.load(Ordering::SeqCst), "the stream was not flushed after the last entry");
}
