// An entry that holds one of its own force-flush guards in an ignored field: when another force-flush guard is
// dropped after the owner, the emission runs under the guard cell's lock and the field's guard tries to take it again.
use metrique::unit_of_work::metrics;
use metrique::ForceFlushGuard;
use metrique_writer::test_util::test_entry_sink;
use std::sync::mpsc;
use std::time::Duration;

#[metrics]
#[derive(Default)]
struct Work {
    n: u64,
    #[metrics(ignore)]
    own_guard: Option<ForceFlushGuard>,
}

#[test]
fn entry_holding_its_own_force_flush_guard_is_emitted() {
    let (tx, rx) = mpsc::channel();
    std::thread::spawn(move || {
        let sink = test_entry_sink();
        let mut w = Work::default().append_on_drop(sink.sink);
        let keep = w.flush_guard(); // delays emission past the owner
        w.own_guard = Some(w.force_flush_guard());
        let trigger = w.force_flush_guard();
        w.n = 7;
        drop(w); // nothing yet: a flush guard is alive
        drop(trigger); // force flush: emission happens here
        drop(keep);
        let n = sink.inspector.entries().len();
        tx.send(n).unwrap();
    });
    match rx.recv_timeout(Duration::from_secs(10)) {
        Ok(n) => assert_eq!(n, 1),
        Err(_) => panic!("the force flush never returned (self-deadlock on the guard cell)"),
    }
}
