// Dropping the attach handle of a global sink took the sink out of the global *and dropped it* - which joins the
// writer thread of a BackgroundQueue after its final drain - while still holding the global's write lock. Anything
// on the writer thread that uses the same global (here: an output stream that reports the entries it wrote as a
// metric; equally an entry's destructor or a tracing layer that turns the writer's log events into metrics) then
// blocks on the read lock for ever: the drop never returns, the backlog is never written, the thread never exits.
// Place in metrique-writer/tests/ and run with  cargo test -p metrique-writer --offline --test demo_real_threads
use metrique_writer::sink::{global_entry_sink, BackgroundQueueBuilder};
use metrique_writer::{AttachGlobalEntrySink, Entry, EntryIoStream, EntryWriter, GlobalEntrySink, IoStreamError};
use std::sync::atomic::{AtomicUsize, Ordering};
use std::sync::{mpsc, Arc};
use std::time::Duration;

global_entry_sink! { DemoSink }

struct E(u64);
impl Entry for E {
    fn write<'a>(&'a self, w: &mut impl EntryWriter<'a>) {
        w.value("n", &self.0);
    }
}

#[derive(Clone, Default)]
struct SelfReporting {
    written: Arc<AtomicUsize>,
}
impl EntryIoStream for SelfReporting {
    fn next(&mut self, _e: &impl Entry) -> Result<(), IoStreamError> {
        std::thread::sleep(Duration::from_millis(20)); // a slow device: the backlog is still there at shutdown
        if self.written.fetch_add(1, Ordering::SeqCst) < 3 {
            // "entries written so far", reported through the application's global sink
            let _ = DemoSink::try_append(E(1_000));
        }
        Ok(())
    }
    fn flush(&mut self) -> std::io::Result<()> {
        Ok(())
    }
}

#[test]
fn detach_returns_although_the_writer_uses_the_global() {
    let (tx, rx) = mpsc::channel();
    std::thread::spawn(move || {
        let stream = SelfReporting::default();
        let written = stream.written.clone();
        let handle = DemoSink::attach(BackgroundQueueBuilder::new().build_boxed(stream));
        for i in 0..5 {
            DemoSink::append(E(i));
        }
        drop(handle);
        tx.send(written.load(Ordering::SeqCst)).unwrap();
    });
    match rx.recv_timeout(Duration::from_secs(10)) {
        Ok(n) => assert!(n >= 5, "only {n} entries were written before the detach returned"),
        Err(_) => panic!("dropping the attach handle never returned (the writer thread waits for the global's lock, which the drop holds while joining it)"),
    }
}
