//! Small deterministic PRNGs (no external dependency so that the stream can never change
//! under us): splitmix64 for seed derivation, xoshiro256** for the run stream.

#[inline]
pub fn splitmix64(state: &mut u64) -> u64 {
    *state = state.wrapping_add(0x9E37_79B9_7F4A_7C15);
    let mut z = *state;
    z = (z ^ (z >> 30)).wrapping_mul(0xBF58_476D_1CE4_E5B9);
    z = (z ^ (z >> 27)).wrapping_mul(0x94D0_49BB_1331_11EB);
    z ^ (z >> 31)
}

/// Derive an independent seed from (base, index, stream tag).
pub fn derive(base: u64, index: u64, tag: u64) -> u64 {
    let mut s = base ^ index.wrapping_mul(0xD6E8_FEB8_6659_FD93) ^ tag.wrapping_mul(0xA076_1D64_78BD_642F);
    let a = splitmix64(&mut s);
    let b = splitmix64(&mut s);
    a ^ b.rotate_left(17)
}

#[derive(Clone, Debug)]
pub struct Rng {
    s: [u64; 4],
}

impl Rng {
    pub fn new(seed: u64) -> Self {
        let mut sm = seed;
        let s = [
            splitmix64(&mut sm),
            splitmix64(&mut sm),
            splitmix64(&mut sm),
            splitmix64(&mut sm),
        ];
        Rng { s }
    }

    #[inline]
    pub fn next_u64(&mut self) -> u64 {
        let result = self.s[1].wrapping_mul(5).rotate_left(7).wrapping_mul(9);
        let t = self.s[1] << 17;
        self.s[2] ^= self.s[0];
        self.s[3] ^= self.s[1];
        self.s[1] ^= self.s[2];
        self.s[0] ^= self.s[3];
        self.s[2] ^= t;
        self.s[3] = self.s[3].rotate_left(45);
        result
    }

    /// uniform in [0, n) (n > 0)
    #[inline]
    pub fn below(&mut self, n: u64) -> u64 {
        debug_assert!(n > 0);
        // multiply-shift; bias is irrelevant for our purposes
        ((self.next_u64() as u128 * n as u128) >> 64) as u64
    }

    /// uniform in [lo, hi] inclusive
    #[inline]
    pub fn range(&mut self, lo: u64, hi: u64) -> u64 {
        debug_assert!(lo <= hi);
        if hi == u64::MAX && lo == 0 {
            return self.next_u64();
        }
        lo + self.below(hi - lo + 1)
    }

    #[inline]
    pub fn usize_below(&mut self, n: usize) -> usize {
        self.below(n as u64) as usize
    }

    /// uniform in [0,1)
    #[inline]
    pub fn f64(&mut self) -> f64 {
        (self.next_u64() >> 11) as f64 * (1.0 / (1u64 << 53) as f64)
    }

    #[inline]
    pub fn chance(&mut self, p: f64) -> bool {
        self.f64() < p
    }

    pub fn pick<'a, T>(&mut self, xs: &'a [T]) -> &'a T {
        &xs[self.usize_below(xs.len())]
    }

    pub fn shuffle<T>(&mut self, xs: &mut [T]) {
        for i in (1..xs.len()).rev() {
            let j = self.usize_below(i + 1);
            xs.swap(i, j);
        }
    }
}

/// FNV-1a style mixing used for trace hashes / signatures (stable across processes).
#[inline]
pub fn mix(h: u64, v: u64) -> u64 {
    let mut x = h ^ v.wrapping_mul(0x9E37_79B9_7F4A_7C15);
    x = (x ^ (x >> 32)).wrapping_mul(0xD6E8_FEB8_6659_FD93);
    x ^ (x >> 29)
}

pub fn hash_str(s: &str) -> u64 {
    let mut h: u64 = 0xcbf2_9ce4_8422_2325;
    for b in s.as_bytes() {
        h ^= *b as u64;
        h = h.wrapping_mul(0x0000_0100_0000_01B3);
    }
    h
}
