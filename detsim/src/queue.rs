//! `crossbeam_queue::ArrayQueue` shim: the real queue, with a scheduling point before every
//! operation. The lock-free internals execute atomically (trusted dependency).

use crate::sched;

pub struct ArrayQueue<T> {
    inner: crossbeam_queue::ArrayQueue<T>,
}

impl<T> ArrayQueue<T> {
    pub fn new(cap: usize) -> Self {
        ArrayQueue { inner: crossbeam_queue::ArrayQueue::new(cap) }
    }

    #[track_caller]
    pub fn push(&self, value: T) -> Result<(), T> {
        sched::sched_point(sched::site());
        self.inner.push(value)
    }

    #[track_caller]
    pub fn force_push(&self, value: T) -> Option<T> {
        sched::sched_point(sched::site());
        self.inner.force_push(value)
    }

    #[track_caller]
    pub fn pop(&self) -> Option<T> {
        sched::sched_point(sched::site());
        self.inner.pop()
    }

    pub fn capacity(&self) -> usize {
        self.inner.capacity()
    }

    #[track_caller]
    pub fn len(&self) -> usize {
        sched::sched_point(sched::site());
        self.inner.len()
    }

    #[track_caller]
    pub fn is_empty(&self) -> bool {
        sched::sched_point(sched::site());
        self.inner.is_empty()
    }

    #[track_caller]
    pub fn is_full(&self) -> bool {
        sched::sched_point(sched::site());
        self.inner.is_full()
    }
}
