//! detsim — deterministic simulation for thread-based Rust code.
//!
//! One simulated thread runs at a time (real OS threads, baton passing); every shim call is a
//! choice point decided by a seeded PRNG or a recorded decision list; blocking and time are
//! simulated (discrete-event clock). See /verif/DESIGN.md §3.

pub mod future;
pub mod hash;
pub mod queue;
pub mod rng;
pub mod sched;
pub mod sync;
pub mod thread;
pub mod time;

pub use sched::{
    abort_run, thread_status, advance_clock, block_on as block_on_key, blocked_count, last_block_clock_ns, choices, clock_ns, current_tid,
    find_thread, fresh_key, global_steps, run_active, in_sim, live_threads, next_seq, pin_to_cpu, run, run_clock_ns,
    sched_point, foreign_block_monitor_available, set_foreign_block_patience_ms, site, site_name, sleep_ns, steps, stop_faults, thread_finished, unblock,
    work_rng, Decision, Failure, Outcome, SchedConfig, Stall, Strategy, Tid, TraceEv, Wake,
};

/// A named scheduling point for harness code.
#[track_caller]
pub fn yield_point() {
    sched::sched_point(sched::site());
}
