//! `Instant` shim: inside a simulation `now()` is BASE + simulated nanoseconds (and a
//! scheduling point); outside it is the real monotonic clock.

use std::ops::{Add, AddAssign, Sub, SubAssign};
use std::sync::OnceLock;
use std::time::Duration;

use crate::sched;

fn base() -> std::time::Instant {
    static BASE: OnceLock<std::time::Instant> = OnceLock::new();
    *BASE.get_or_init(std::time::Instant::now)
}

static ALWAYS_SIM: std::sync::atomic::AtomicBool = std::sync::atomic::AtomicBool::new(false);

/// Harness processes call this at start: from then on `Instant::now()` on a thread that is not
/// inside a simulation reads the (frozen) simulated clock instead of the real one, so that
/// process-global statics initialised outside a run (the rate limiter's epoch) live on the
/// simulated time axis.
pub fn set_always_simulated(on: bool) {
    ALWAYS_SIM.store(on, std::sync::atomic::Ordering::SeqCst);
}

#[derive(Clone, Copy, PartialEq, Eq, PartialOrd, Ord, Hash, Debug)]
pub struct Instant(std::time::Instant);

impl Instant {
    #[track_caller]
    pub fn now() -> Instant {
        if sched::in_sim() {
            let s = sched::site();
            let cost = sched::now_cost();
            if cost > 0 {
                sched::advance_clock(cost);
            }
            sched::sched_point(s);
            Instant(base() + Duration::from_nanos(sched::clock_ns()))
        } else if ALWAYS_SIM.load(std::sync::atomic::Ordering::SeqCst) {
            Instant(base() + Duration::from_nanos(sched::clock_ns()))
        } else {
            Instant(std::time::Instant::now())
        }
    }

    /// The instant that corresponds to simulated time zero.
    pub fn sim_epoch() -> Instant {
        Instant(base())
    }

    /// Read the simulated clock without a scheduling point or cost (harness use).
    pub fn peek() -> Instant {
        if sched::in_sim() {
            Instant(base() + Duration::from_nanos(sched::clock_ns()))
        } else {
            Instant(std::time::Instant::now())
        }
    }

    pub fn from_sim_ns(ns: u64) -> Instant {
        Instant(base() + Duration::from_nanos(ns))
    }

    /// absolute simulated ns of this instant (saturating at 0)
    pub fn sim_ns(&self) -> u64 {
        self.0.saturating_duration_since(base()).as_nanos().min(u64::MAX as u128) as u64
    }

    pub fn std(&self) -> std::time::Instant {
        self.0
    }

    pub fn duration_since(&self, earlier: Instant) -> Duration {
        self.0.saturating_duration_since(earlier.0)
    }

    pub fn checked_duration_since(&self, earlier: Instant) -> Option<Duration> {
        self.0.checked_duration_since(earlier.0)
    }

    pub fn saturating_duration_since(&self, earlier: Instant) -> Duration {
        self.0.saturating_duration_since(earlier.0)
    }

    #[track_caller]
    pub fn elapsed(&self) -> Duration {
        Instant::now().duration_since(*self)
    }

    pub fn checked_add(&self, d: Duration) -> Option<Instant> {
        self.0.checked_add(d).map(Instant)
    }

    pub fn checked_sub(&self, d: Duration) -> Option<Instant> {
        self.0.checked_sub(d).map(Instant)
    }
}

impl Add<Duration> for Instant {
    type Output = Instant;
    #[track_caller]
    fn add(self, rhs: Duration) -> Instant {
        // exactly as std: an instant that cannot be represented is a panic (at the caller's location), not a
        // saturated value - code that adds an unchecked, configurable duration to `now()` fails here as it does
        // on the real clock
        match self.0.checked_add(rhs) {
            Some(i) => Instant(i),
            None => panic!("overflow when adding duration to instant"),
        }
    }
}
impl AddAssign<Duration> for Instant {
    #[track_caller]
    fn add_assign(&mut self, rhs: Duration) {
        *self = *self + rhs;
    }
}
impl Sub<Duration> for Instant {
    type Output = Instant;
    fn sub(self, rhs: Duration) -> Instant {
        Instant(self.0 - rhs)
    }
}
impl SubAssign<Duration> for Instant {
    fn sub_assign(&mut self, rhs: Duration) {
        *self = *self - rhs;
    }
}
impl Sub<Instant> for Instant {
    type Output = Duration;
    fn sub(self, rhs: Instant) -> Duration {
        self.duration_since(rhs)
    }
}

// ------------------------------------------------------------------------------------------
// wall clock (for code that falls back to `SystemTime::now()`)
// ------------------------------------------------------------------------------------------

/// ns since the Unix epoch that `wall_now()` reports; 0 = not set (then: a fixed date plus the simulated clock)
static WALL_OVERRIDE_NS: std::sync::atomic::AtomicU64 = std::sync::atomic::AtomicU64::new(0);

/// Set (or, with `None`, unset) the wall clock that `wall_now()` reports.
pub fn set_wall_override_ns(ns: Option<u64>) {
    WALL_OVERRIDE_NS.store(ns.unwrap_or(0), std::sync::atomic::Ordering::SeqCst);
}

/// The wall clock as the simulation defines it: the override if one is set, else 2023-11-14T22:13:20Z plus the
/// simulated monotonic clock; outside any simulation (and without `set_always_simulated`) the real clock.
pub fn wall_now() -> std::time::SystemTime {
    let o = WALL_OVERRIDE_NS.load(std::sync::atomic::Ordering::SeqCst);
    if o != 0 {
        return std::time::UNIX_EPOCH + Duration::from_nanos(o);
    }
    if sched::in_sim() || ALWAYS_SIM.load(std::sync::atomic::Ordering::SeqCst) {
        std::time::UNIX_EPOCH + Duration::from_secs(1_700_000_000) + Duration::from_nanos(sched::clock_ns())
    } else {
        std::time::SystemTime::now()
    }
}
