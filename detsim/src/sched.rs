//! The scheduler: real OS threads, exactly one of which holds the baton at any time.
//!
//! Every call into a shim is a *choice point*: the scheduler decides (from the run's PRNG, or
//! from a recorded decision list) which runnable thread continues. Blocking operations park the
//! thread inside the simulator; when nothing is runnable the simulated clock jumps to the
//! earliest deadline, or the run is a deadlock.

use std::cell::RefCell;
use std::collections::HashMap;
use std::panic::Location;
use std::sync::atomic::{AtomicU64, Ordering};
use std::sync::{Arc, Condvar, Mutex as StdMutex, MutexGuard};

use crate::rng::{hash_str, mix, Rng};

pub type Tid = usize;

#[derive(Clone, Debug, PartialEq)]
pub enum Strategy {
    /// continue the current thread with probability 1-p, else uniform among the others
    Random { p_switch: f64 },
    /// like Random, but thread `slow_tid` is picked `factor` times less often and is switched
    /// away from eagerly (the "slow node")
    Weighted { p_switch: f64, slow_tid: Tid, factor: u32 },
    /// PCT: random priorities, `depth` priority change points within the first `est_len` choices
    Pct { depth: u32, est_len: u64 },
    /// like Random, but a per-run random subset of the code sites (one in `density`, selected by
    /// `key`) deschedules the thread that reaches it for `hold` choice points, as long as anyone
    /// else can run: "a thread is preempted for long exactly at this instruction"
    SitePark { p_switch: f64, key: u64, density: u32, hold: u64, p_park: f64 },
}

#[derive(Clone, Debug, PartialEq)]
pub struct Stall {
    pub victim: Tid,
    pub from_choice: u64,
    pub len: u64,
    /// simulated time that passes while the victim is descheduled
    pub clock_ns: u64,
}

#[derive(Clone, Debug, PartialEq)]
pub enum Decision {
    Switch { at: u64, tid: Tid },
    Jump { at: u64, ns: u64 },
}

#[derive(Clone, Debug)]
pub struct SchedConfig {
    pub seed: u64,
    pub strategy: Strategy,
    /// simulated cost of one `Instant::now()` call
    pub now_cost_ns: u64,
    /// probability per choice point of an injected forward clock jump
    pub jump_prob: f64,
    pub jump_max_ns: u64,
    /// no jumps / stalls are injected at or after this choice index ("faults stop")
    pub faults_until_choice: u64,
    pub stall: Option<Stall>,
    pub max_steps: u64,
    pub max_threads: usize,
    /// max simulated duration of a run
    pub max_clock_ns: u64,
    /// if set, decisions are replayed instead of drawn
    pub replay: Option<Vec<Decision>>,
    pub trace: bool,
}

impl Default for SchedConfig {
    fn default() -> Self {
        SchedConfig {
            seed: 1,
            strategy: Strategy::Random { p_switch: 0.2 },
            now_cost_ns: 1_000,
            jump_prob: 0.0,
            jump_max_ns: 0,
            faults_until_choice: u64::MAX,
            stall: None,
            max_steps: 50_000,
            max_threads: 64,
            max_clock_ns: 10_000_000_000_000_000, // 1e7 s
            replay: None,
            trace: false,
        }
    }
}

#[derive(Clone, Debug, PartialEq)]
pub enum Failure {
    Deadlock { live: Vec<(Tid, String, String)> },
    StepLimit { live: Vec<(Tid, String, String)> },
    ThreadLimit,
    ClockLimit,
    /// the scenario ended the run on purpose while threads were still alive
    Aborted { live: Vec<(Tid, String, String)> },
}

impl Failure {
    pub fn class(&self) -> &'static str {
        match self {
            Failure::Deadlock { .. } => "deadlock",
            Failure::StepLimit { .. } => "step_limit",
            Failure::ThreadLimit => "thread_limit",
            Failure::ClockLimit => "clock_limit",
            Failure::Aborted { .. } => "aborted",
        }
    }
}

#[derive(Clone, Debug)]
pub struct TraceEv {
    pub choice: u64,
    pub tid: Tid,
    pub chosen: Tid,
    pub site: u64,
    pub clock_ns: u64,
}

#[derive(Clone, Debug, Default)]
pub struct Outcome {
    pub steps: u64,
    pub choices: u64,
    pub switches: u64,
    /// simulated nanoseconds covered by this run
    pub clock_ns: u64,
    pub threads: usize,
    /// hash over every choice (index, running thread, site, chosen thread, clock)
    pub hash: u64,
    /// schedule signature: hash over (site, from, to) of context switches only
    pub sig: u64,
    pub decisions: Vec<Decision>,
    pub failure: Option<Failure>,
    /// threads are stuck inside the simulator; the process must not run another simulation
    pub wedged: bool,
    pub main_panic: Option<String>,
    pub jumps: u64,
    pub jump_ns: u64,
    pub timeouts: u64,
    pub blocks: u64,
    pub stall_steps: u64,
    /// SitePark strategy: how often a thread was descheduled at a selected site
    pub site_parks: u64,
    /// how often a thread was found asleep in something the simulator does not own (and the run went on without it)
    pub foreign_blocks: u64,
    /// >= 2 threads existed and at least one context switch happened at a non-blocking point
    pub preemptions: u64,
    pub trace: Vec<TraceEv>,
}

#[derive(Clone, Copy, Debug, PartialEq)]
pub enum Wake {
    Notified,
    TimedOut,
}

#[derive(Debug)]
enum Status {
    Runnable,
    Blocked { key: u64, deadline: Option<u64> },
    /// asleep in something the simulator does not own (a lock it has no shim for, held by a descheduled
    /// simulated thread or re-entered by this very thread): found by the monitor, the baton was taken away
    Foreign,
    Finished,
}

struct ThreadInfo {
    status: Status,
    cv: Arc<Condvar>,
    name: String,
    blocked_count: u64,
    /// simulated clock (absolute ns) when this thread last entered the blocked state
    last_block_clock: u64,
    timed_out: bool,
    priority: i64,
    consecutive: u64,
    last_site: u64,
    /// kernel thread id (for the monitor: is the baton holder asleep?)
    os_tid: i32,
}

struct State {
    threads: Vec<ThreadInfo>,
    current: Tid,
    clock: u64,
    clock_start: u64,
    steps: u64,
    choices: u64,
    switches: u64,
    preemptions: u64,
    seq: u64,
    fresh: u64,
    rng: Rng,
    work_rng: Rng,
    cfg: SchedConfig,
    replay_switch: Option<HashMap<u64, Tid>>,
    replay_jump: HashMap<u64, u64>,
    pct_points: Vec<u64>,
    pct_low: i64,
    decisions: Vec<Decision>,
    hash: u64,
    sig: u64,
    failure: Option<Failure>,
    finished_all: bool,
    main_panic: Option<String>,
    jumps: u64,
    jump_ns: u64,
    timeouts: u64,
    blocks: u64,
    stall_steps: u64,
    stall_done: bool,
    jump_checked: u64,
    trace: Vec<TraceEv>,
    /// SitePark: (thread, not scheduled before this choice index)
    parked: Vec<(Tid, u64)>,
    site_parks: u64,
    /// how often the monitor found the baton holder asleep outside the simulator and moved on without it
    foreign_blocks: u64,
}

pub(crate) struct Sim {
    st: StdMutex<State>,
    done: Condvar,
}

thread_local! {
    static CTX: RefCell<Option<(Arc<Sim>, Tid)>> = const { RefCell::new(None) };
}

/// process-global simulated clock high-water mark (ns); runs start on whole seconds after it
static GLOBAL_CLOCK: AtomicU64 = AtomicU64::new(0);
/// scheduling steps executed by this process, all runs (a liveness signal for the watchdog)
static GLOBAL_STEPS: AtomicU64 = AtomicU64::new(0);

static RUN_ACTIVE: std::sync::atomic::AtomicBool = std::sync::atomic::AtomicBool::new(false);

/// Is a simulation running in this process right now?
pub fn run_active() -> bool {
    RUN_ACTIVE.load(Ordering::Relaxed)
}

/// Number of scheduling steps this process has executed so far (monotone across runs).
pub fn global_steps() -> u64 {
    GLOBAL_STEPS.load(Ordering::Relaxed)
}
/// hash seed of the current run (for `hash::SeededState`)
pub(crate) static RUN_HASH_SEED: AtomicU64 = AtomicU64::new(0x5EED);

static SITES: StdMutex<Option<HashMap<u64, String>>> = StdMutex::new(None);

#[inline]
#[track_caller]
pub fn site() -> u64 {
    let loc = Location::caller();
    site_of(loc)
}

pub fn site_of(loc: &'static Location<'static>) -> u64 {
    // Hash only the tail of the path (crate-relative part), so that the id is stable however
    // the repository root is spelled.
    let f = loc.file();
    let tail = match f.rfind("/src/") {
        Some(i) => {
            // keep the crate directory name too
            let start = f[..i].rfind('/').map(|j| j + 1).unwrap_or(0);
            &f[start..]
        }
        None => f,
    };
    let id = mix(hash_str(tail), loc.line() as u64);
    if TRACE_SITES.load(Ordering::Relaxed) != 0 {
        let mut g = SITES.lock().unwrap_or_else(|e| e.into_inner());
        g.get_or_insert_with(HashMap::new)
            .entry(id)
            .or_insert_with(|| format!("{}:{}", tail, loc.line()));
    }
    id
}

static TRACE_SITES: AtomicU64 = AtomicU64::new(0);

/// Start remembering site-id -> "file:line" (used by replay / debugging output).
pub fn enable_site_names() {
    TRACE_SITES.store(1, Ordering::Relaxed);
}

pub fn site_name(id: u64) -> String {
    let g = SITES.lock().unwrap_or_else(|e| e.into_inner());
    g.as_ref()
        .and_then(|m| m.get(&id).cloned())
        .unwrap_or_else(|| format!("site#{id:016x}"))
}

// (`try_with`: a thread-local destructor that runs after this one has been destroyed is outside any simulation)
fn ctx() -> Option<(Arc<Sim>, Tid)> {
    CTX.try_with(|c| c.borrow().clone()).ok().flatten()
}

#[inline]
pub fn in_sim() -> bool {
    CTX.try_with(|c| c.borrow().is_some()).unwrap_or(false)
}

pub fn current_tid() -> Option<Tid> {
    CTX.try_with(|c| c.borrow().as_ref().map(|(_, t)| *t)).ok().flatten()
}

impl Sim {
    fn lock(&self) -> MutexGuard<'_, State> {
        self.st.lock().unwrap_or_else(|e| e.into_inner())
    }

    /// Called by the running thread before a choice: every thread that was found asleep outside the simulator is
    /// either still asleep there, or - if the running thread has just released what it was waiting for - on its way to
    /// `enter`; wait (in real time) until each of them is one or the other, so that the set of runnable threads at
    /// this choice does not depend on how fast the woken thread gets to its next scheduling point.
    fn settle_foreign<'a>(&'a self, mut st: MutexGuard<'a, State>) -> MutexGuard<'a, State> {
        loop {
            let pending: Vec<i32> = st.threads.iter().filter(|t| matches!(t.status, Status::Foreign)).map(|t| t.os_tid).collect();
            if pending.is_empty() {
                return st;
            }
            // (read /proc without the state lock: a woken thread that waits for this lock is asleep too)
            drop(st);
            let all_asleep = pending.iter().all(|t| os_thread_asleep(*t));
            if !all_asleep {
                std::thread::sleep(std::time::Duration::from_micros(200));
            }
            st = self.lock();
            if all_asleep {
                let now: Vec<i32> = st.threads.iter().filter(|t| matches!(t.status, Status::Foreign)).map(|t| t.os_tid).collect();
                if now == pending {
                    return st;
                }
            }
        }
    }

    /// Lock the state as simulated thread `me`, which believes it is running. If the monitor took the baton away while
    /// `me` was asleep outside the simulator, `me` becomes runnable again and waits here until it is scheduled.
    fn enter(&self, me: Tid) -> MutexGuard<'_, State> {
        let mut st = self.lock();
        if matches!(st.threads[me].status, Status::Foreign) {
            st.threads[me].status = Status::Runnable;
            let cv = st.threads[me].cv.clone();
            while st.current != me && st.failure.is_none() {
                // (whoever runs picks us at one of its choice points; see `settle_foreign`)
                st = cv.wait(st).unwrap_or_else(|e| e.into_inner());
            }
            if st.failure.is_some() {
                drop(st);
                park_forever();
            }
        }
        st
    }
}

fn live_list(st: &State) -> Vec<(Tid, String, String)> {
    st.threads
        .iter()
        .enumerate()
        .filter(|(_, t)| !matches!(t.status, Status::Finished))
        .map(|(i, t)| {
            (
                i,
                t.name.clone(),
                format!("{:?} at {}", t.status, site_name(t.last_site)),
            )
        })
        .collect()
}

impl State {
    fn wake_expired(&mut self) {
        let clock = self.clock;
        for t in self.threads.iter_mut() {
            if let Status::Blocked { deadline: Some(d), .. } = t.status {
                if d <= clock {
                    t.status = Status::Runnable;
                    t.timed_out = true;
                    self.timeouts += 1;
                }
            }
        }
    }

    fn runnable(&self) -> Vec<Tid> {
        self.threads
            .iter()
            .enumerate()
            .filter(|(_, t)| matches!(t.status, Status::Runnable))
            .map(|(i, _)| i)
            .collect()
    }

    fn faults_on(&self, idx: u64) -> bool {
        idx < self.cfg.faults_until_choice
    }

    /// One choice point. `cur` is the running thread if it can continue.
    fn choose(&mut self, cur: Option<Tid>, running: Tid, site: u64) -> Option<Tid> {
        let idx = self.choices;
        // clock jumps first (they may expire deadlines)
        let first_visit = self.jump_checked != idx + 1;
        self.jump_checked = idx + 1;
        if !first_visit {
            // second visit of the same choice index (nobody was runnable, the clock advanced)
        } else if self.replay_switch.is_some() {
            if let Some(ns) = self.replay_jump.remove(&idx) {
                self.clock = self.clock.saturating_add(ns);
                self.jumps += 1;
                self.jump_ns += ns;
                self.decisions.push(Decision::Jump { at: idx, ns });
            }
        } else if self.faults_on(idx) {
            if self.cfg.jump_prob > 0.0 && self.rng.chance(self.cfg.jump_prob) {
                // log-uniform between 1 ms and jump_max
                let max = self.cfg.jump_max_ns.max(1_000_000) as f64;
                let lo = 1_000_000f64.ln();
                let hi = max.ln();
                let ns = (lo + (hi - lo) * self.rng.f64()).exp() as u64;
                self.clock = self.clock.saturating_add(ns);
                self.jumps += 1;
                self.jump_ns += ns;
                self.decisions.push(Decision::Jump { at: idx, ns });
            }
            if let Some(stall) = &self.cfg.stall {
                if !self.stall_done && idx >= stall.from_choice + stall.len {
                    let ns = stall.clock_ns;
                    self.stall_done = true;
                    if ns > 0 {
                        self.clock = self.clock.saturating_add(ns);
                        self.jumps += 1;
                        self.jump_ns += ns;
                        self.decisions.push(Decision::Jump { at: idx, ns });
                    }
                }
            }
        }
        self.wake_expired();
        let runnable = self.runnable();
        if runnable.is_empty() {
            return None;
        }
        self.choices += 1;
        let default = match cur {
            Some(c) => c,
            None => runnable[0],
        };
        let chosen = if let Some(rep) = &self.replay_switch {
            match rep.get(&idx) {
                Some(t) if runnable.contains(t) => *t,
                _ => default,
            }
        } else {
            self.pick(cur, &runnable, idx, site)
        };
        if chosen != default {
            self.decisions.push(Decision::Switch { at: idx, tid: chosen });
        }
        self.hash = mix(self.hash, idx);
        self.hash = mix(self.hash, (running as u64) << 32 | chosen as u64);
        self.hash = mix(self.hash, site);
        self.hash = mix(self.hash, self.clock - self.clock_start);
        if chosen != running {
            self.switches += 1;
            self.sig = mix(self.sig, site);
            self.sig = mix(self.sig, (running as u64) << 32 | chosen as u64);
            if cur.is_some() {
                self.preemptions += 1;
            }
        }
        if self.cfg.trace {
            self.trace.push(TraceEv {
                choice: idx,
                tid: running,
                chosen,
                site,
                clock_ns: self.clock - self.clock_start,
            });
        }
        if Some(chosen) == cur {
            self.threads[chosen].consecutive += 1;
        } else {
            self.threads[chosen].consecutive = 0;
        }
        Some(chosen)
    }

    fn pick(&mut self, cur: Option<Tid>, runnable: &[Tid], idx: u64, site: u64) -> Tid {
        // stall filter
        let mut cands: Vec<Tid> = runnable.to_vec();
        if let Some(stall) = &self.cfg.stall {
            if self.faults_on(idx)
                && idx >= stall.from_choice
                && idx < stall.from_choice + stall.len
                && cands.len() > 1
                && cands.contains(&stall.victim)
            {
                let v = stall.victim;
                cands.retain(|t| *t != v);
                self.stall_steps += 1;
            }
        }
        let cur_ok = cur.filter(|c| cands.contains(c));
        match self.cfg.strategy.clone() {
            Strategy::Random { p_switch } => {
                if let Some(c) = cur_ok {
                    if cands.len() == 1 || !self.rng.chance(p_switch) {
                        return c;
                    }
                    let others: Vec<Tid> = cands.iter().copied().filter(|t| *t != c).collect();
                    others[self.rng.usize_below(others.len())]
                } else {
                    cands[self.rng.usize_below(cands.len())]
                }
            }
            Strategy::Weighted { p_switch, slow_tid, factor } => {
                if let Some(c) = cur_ok {
                    let p = if c == slow_tid { (p_switch * factor as f64).min(0.95) } else { p_switch };
                    if cands.len() == 1 || !self.rng.chance(p) {
                        return c;
                    }
                }
                let pool: Vec<Tid> = match cur_ok {
                    Some(c) if cands.len() > 1 => cands.iter().copied().filter(|t| *t != c).collect(),
                    _ => cands.clone(),
                };
                let w = |t: Tid| -> u64 { if t == slow_tid { 1 } else { factor.max(1) as u64 } };
                let total: u64 = pool.iter().map(|t| w(*t)).sum();
                let mut r = self.rng.below(total);
                for t in &pool {
                    let wt = w(*t);
                    if r < wt {
                        return *t;
                    }
                    r -= wt;
                }
                pool[0]
            }
            Strategy::SitePark { p_switch, key, density, hold, p_park } => {
                // does the running thread get parked here?
                if let Some(c) = cur_ok {
                    if cands.len() > 1
                        && self.faults_on(idx)
                        && mix(site, key) % density.max(1) as u64 == 0
                        && !self.parked.iter().any(|(t, _)| *t == c)
                        && self.rng.chance(p_park)
                    {
                        self.parked.push((c, idx + hold));
                        self.site_parks += 1;
                    }
                }
                self.parked.retain(|(_, until)| *until > idx);
                let free: Vec<Tid> =
                    cands.iter().copied().filter(|t| !self.parked.iter().any(|(p, _)| p == t)).collect();
                let pool = if free.is_empty() { cands.clone() } else { free };
                if let Some(c) = cur_ok.filter(|c| pool.contains(c)) {
                    if pool.len() == 1 || !self.rng.chance(p_switch) {
                        return c;
                    }
                    let others: Vec<Tid> = pool.iter().copied().filter(|t| *t != c).collect();
                    others[self.rng.usize_below(others.len())]
                } else {
                    pool[self.rng.usize_below(pool.len())]
                }
            }
            Strategy::Pct { .. } => {
                if let Some(c) = cur {
                    if self.pct_points.contains(&idx) || self.threads[c].consecutive >= 2_000 {
                        self.pct_low -= 1;
                        self.threads[c].priority = self.pct_low;
                        self.threads[c].consecutive = 0;
                    }
                }
                let mut best = cands[0];
                for t in &cands {
                    if self.threads[*t].priority > self.threads[best].priority {
                        best = *t;
                    }
                }
                best
            }
        }
    }
}

/// Park the calling OS thread forever (the run has failed; the process is about to exit).
fn park_forever() -> ! {
    loop {
        std::thread::park();
    }
}

fn fail(sim: &Sim, mut st: MutexGuard<'_, State>, f: Failure) -> ! {
    if st.failure.is_none() {
        st.failure = Some(f);
    }
    sim.done.notify_all();
    drop(st);
    park_forever()
}

/// Give the baton to `next` and wait until it comes back to `me`.
fn switch_and_wait<'a>(
    _sim: &'a Sim,
    mut st: MutexGuard<'a, State>,
    me: Tid,
    next: Tid,
) -> MutexGuard<'a, State> {
    if next == me {
        return st;
    }
    st.current = next;
    st.threads[next].cv.notify_one();
    let cv = st.threads[me].cv.clone();
    while st.current != me {
        st = cv.wait(st).unwrap_or_else(|e| e.into_inner());
    }
    st
}

fn check_limits<'a>(sim: &'a Sim, st: MutexGuard<'a, State>) -> MutexGuard<'a, State> {
    if st.failure.is_some() {
        drop(st);
        park_forever();
    }
    if st.steps > st.cfg.max_steps {
        let live = live_list(&st);
        fail(sim, st, Failure::StepLimit { live });
    }
    if st.clock - st.clock_start > st.cfg.max_clock_ns {
        fail(sim, st, Failure::ClockLimit);
    }
    st
}

/// A plain scheduling point (the thread stays runnable).
pub fn sched_point(site: u64) {
    let Some((sim, me)) = ctx() else { return };
    let mut st = sim.enter(me);
    debug_assert_eq!(st.current, me, "thread running without the baton");
    st.steps += 1;
    GLOBAL_STEPS.fetch_add(1, Ordering::Relaxed);
    st.threads[me].last_site = site;
    st = check_limits(&sim, st);
    st = sim.settle_foreign(st);
    let next = st.choose(Some(me), me, site).expect("current thread is runnable");
    let _st = switch_and_wait(&sim, st, me, next);
}

/// Block the calling thread on `key` until `unblock(key)` or the deadline (absolute sim ns).
pub fn block_on(key: u64, deadline: Option<u64>, site: u64) -> Wake {
    let Some((sim, me)) = ctx() else {
        panic!("detsim::block_on outside a simulation")
    };
    let mut st = sim.enter(me);
    debug_assert_eq!(st.current, me);
    st.steps += 1;
    GLOBAL_STEPS.fetch_add(1, Ordering::Relaxed);
    st.blocks += 1;
    st.threads[me].last_site = site;
    st.threads[me].blocked_count += 1;
    st.threads[me].last_block_clock = st.clock;
    st.threads[me].timed_out = false;
    st.threads[me].status = Status::Blocked { key, deadline };
    st = check_limits(&sim, st);
    st = hand_off(&sim, st, me, site, false);
    if st.threads[me].timed_out {
        st.threads[me].timed_out = false;
        Wake::TimedOut
    } else {
        Wake::Notified
    }
}

/// The calling thread cannot continue (blocked or finished): pick someone else, advancing the
/// clock if everybody is waiting. Returns when `me` holds the baton again (never, if finished).
fn hand_off<'a>(
    sim: &'a Sim,
    mut st: MutexGuard<'a, State>,
    me: Tid,
    site: u64,
    finished: bool,
) -> MutexGuard<'a, State> {
    loop {
        st = sim.settle_foreign(st);
        match st.choose(None, me, site) {
            Some(next) => {
                if finished {
                    st.current = next;
                    st.threads[next].cv.notify_one();
                    return st;
                }
                return switch_and_wait(sim, st, me, next);
            }
            None => {
                // nobody runnable: advance the clock to the earliest deadline
                let earliest = st
                    .threads
                    .iter()
                    .filter_map(|t| match t.status {
                        Status::Blocked { deadline: Some(d), .. } => Some(d),
                        _ => None,
                    })
                    .min();
                match earliest {
                    Some(d) => {
                        if d > st.clock {
                            st.clock = d;
                        }
                        if st.clock - st.clock_start > st.cfg.max_clock_ns {
                            fail(sim, st, Failure::ClockLimit);
                        }
                        st.wake_expired();
                    }
                    None => {
                        let all_done = st
                            .threads
                            .iter()
                            .all(|t| matches!(t.status, Status::Finished));
                        if all_done {
                            st.finished_all = true;
                            sim.done.notify_all();
                            return st;
                        }
                        let live = live_list(&st);
                        fail(sim, st, Failure::Deadlock { live });
                    }
                }
            }
        }
    }
}

/// Make every thread blocked on `key` runnable again (they re-check their condition).
pub fn unblock(key: u64) {
    let Some((sim, _me)) = ctx() else { return };
    let mut st = sim.lock();
    for t in st.threads.iter_mut() {
        if let Status::Blocked { key: k, .. } = t.status {
            if k == key {
                t.status = Status::Runnable;
                t.timed_out = false;
            }
        }
    }
}

/// Absolute simulated clock in ns (monotone across the runs of one process).
pub fn clock_ns() -> u64 {
    match ctx() {
        Some((sim, _)) => sim.lock().clock,
        None => GLOBAL_CLOCK.load(Ordering::Relaxed),
    }
}

/// Simulated ns since the start of the current run.
pub fn run_clock_ns() -> u64 {
    match ctx() {
        Some((sim, _)) => {
            let st = sim.lock();
            st.clock - st.clock_start
        }
        None => 0,
    }
}

/// Advance the simulated clock (e.g. the cost of an operation). Not a scheduling point.
pub fn advance_clock(ns: u64) {
    if let Some((sim, _)) = ctx() {
        let mut st = sim.lock();
        st.clock = st.clock.saturating_add(ns);
    }
}

pub(crate) fn now_cost() -> u64 {
    match ctx() {
        Some((sim, _)) => sim.lock().cfg.now_cost_ns,
        None => 0,
    }
}

/// A fresh, globally ordered sequence number for harness event logs.
pub fn next_seq() -> u64 {
    match ctx() {
        Some((sim, _)) => {
            let mut st = sim.lock();
            st.seq += 1;
            st.seq
        }
        None => 0,
    }
}

/// A key for `block_on` / `unblock` that cannot collide with address-derived keys.
pub fn fresh_key() -> u64 {
    match ctx() {
        Some((sim, _)) => {
            let mut st = sim.lock();
            st.fresh += 1;
            (1u64 << 63) | st.fresh
        }
        None => {
            static OUTSIDE: AtomicU64 = AtomicU64::new(0);
            (1u64 << 63) | (1u64 << 62) | OUTSIDE.fetch_add(1, Ordering::Relaxed)
        }
    }
}

pub(crate) fn join_key(tid: Tid) -> u64 {
    (1u64 << 62) | tid as u64
}

/// How often `tid` entered the blocked state so far.
pub fn blocked_count(tid: Tid) -> u64 {
    match ctx() {
        Some((sim, _)) => sim.lock().threads.get(tid).map(|t| t.blocked_count).unwrap_or(0),
        None => 0,
    }
}

/// The simulated clock (same scale as `clock_ns()`) at which `tid` last entered the blocked state (0: never).
pub fn last_block_clock_ns(tid: Tid) -> u64 {
    match ctx() {
        Some((sim, _)) => sim.lock().threads.get(tid).map(|t| t.last_block_clock).unwrap_or(0),
        None => 0,
    }
}

pub fn thread_finished(tid: Tid) -> bool {
    match ctx() {
        Some((sim, _)) => sim
            .lock()
            .threads
            .get(tid)
            .map(|t| matches!(t.status, Status::Finished))
            .unwrap_or(true),
        None => true,
    }
}

/// (tid, name) of every simulated thread that has not finished.
pub fn live_threads() -> Vec<(Tid, String)> {
    match ctx() {
        Some((sim, _)) => {
            let st = sim.lock();
            st.threads
                .iter()
                .enumerate()
                .filter(|(_, t)| !matches!(t.status, Status::Finished))
                .map(|(i, t)| (i, t.name.clone()))
                .collect()
        }
        None => vec![],
    }
}

/// tid of the first live thread with this name
pub fn find_thread(name: &str) -> Option<Tid> {
    match ctx() {
        Some((sim, _)) => {
            let st = sim.lock();
            st.threads.iter().position(|t| t.name == name)
        }
        None => None,
    }
}

pub fn steps() -> u64 {
    match ctx() {
        Some((sim, _)) => sim.lock().steps,
        None => 0,
    }
}

pub fn choices() -> u64 {
    match ctx() {
        Some((sim, _)) => sim.lock().choices,
        None => 0,
    }
}

/// End the run now although simulated threads are still alive. The outcome is `wedged`: the
/// process must not start another simulation.
pub fn abort_run() -> ! {
    let Some((sim, _)) = ctx() else { panic!("abort_run outside simulation") };
    let st = sim.lock();
    let live = live_list(&st);
    fail(&sim, st, Failure::Aborted { live })
}

/// (is_blocked, is_finished, site id of the thread's latest scheduling point)
pub fn thread_status(tid: Tid) -> (bool, bool, u64) {
    match ctx() {
        Some((sim, _)) => {
            let st = sim.lock();
            match st.threads.get(tid) {
                Some(t) => (
                    matches!(t.status, Status::Blocked { .. }),
                    matches!(t.status, Status::Finished),
                    t.last_site,
                ),
                None => (false, true, 0),
            }
        }
        None => (false, true, 0),
    }
}

/// Stop injecting clock jumps / stalls from now on ("faults stop").
pub fn stop_faults() {
    if let Some((sim, _)) = ctx() {
        let mut st = sim.lock();
        let c = st.choices;
        if st.cfg.faults_until_choice > c {
            st.cfg.faults_until_choice = c;
        }
    }
}

/// Workload-side random numbers (separate stream from the scheduler's).
pub fn work_rng<R>(f: impl FnOnce(&mut Rng) -> R) -> R {
    match ctx() {
        Some((sim, _)) => {
            let mut st = sim.lock();
            f(&mut st.work_rng)
        }
        None => {
            let mut r = Rng::new(0);
            f(&mut r)
        }
    }
}

/// Sleep on the simulated clock.
#[track_caller]
pub fn sleep_ns(ns: u64) {
    let s = site();
    if !in_sim() {
        std::thread::sleep(std::time::Duration::from_nanos(ns));
        return;
    }
    let key = fresh_key();
    let deadline = clock_ns().saturating_add(ns);
    loop {
        if clock_ns() >= deadline {
            return;
        }
        let _ = block_on(key, Some(deadline), s);
    }
}

/// Register a new simulated thread and start its OS thread. Returns (tid, real join handle).
pub(crate) fn spawn_sim<F, T>(name: Option<String>, f: F) -> std::io::Result<(Tid, std::thread::JoinHandle<std::thread::Result<T>>)>
where
    F: FnOnce() -> T + Send + 'static,
    T: Send + 'static,
{
    let (sim, me) = ctx().expect("spawn_sim outside simulation");
    let tid;
    {
        let mut st = sim.lock();
        if st.threads.len() >= st.cfg.max_threads {
            fail(&sim, st, Failure::ThreadLimit);
        }
        tid = st.threads.len();
        let prio = 1_000_000 + (st.rng.next_u64() % 1_000_000) as i64;
        // the priority draw must not depend on replay mode: it is only used by PCT in record
        // mode; in replay mode the rng is unused so the draw is harmless.
        st.threads.push(ThreadInfo {
            status: Status::Runnable,
            cv: Arc::new(Condvar::new()),
            name: name.clone().unwrap_or_else(|| format!("t{tid}")),
            blocked_count: 0,
            last_block_clock: 0,
            timed_out: false,
            priority: prio,
            consecutive: 0,
            last_site: 0,
            os_tid: 0,
        });
        let _ = me;
    }
    let sim2 = sim.clone();
    let mut b = std::thread::Builder::new();
    if let Some(n) = name {
        b = b.name(n);
    }
    let h = b.spawn(move || thread_main(sim2, tid, f))?;
    Ok((tid, h))
}

/// A simulated thread is finished when its OS thread has run the destructors of its thread-locals, not when its
/// closure returns: what those destructors do (drop a guard that was parked in a thread-local, emit a last entry) is
/// part of the thread's simulated life - it holds the baton, its scheduling points count. This value lives in the
/// thread-local that is registered *first* on every simulated thread; thread-local destructors run in reverse order
/// of registration, so its `drop` runs last and does the hand-over.
struct FinishOnExit {
    sim: Arc<Sim>,
    tid: Tid,
    main_panic: Option<String>,
}

thread_local! {
    static FINISH: RefCell<Option<FinishOnExit>> = const { RefCell::new(None) };
}

impl Drop for FinishOnExit {
    fn drop(&mut self) {
        let (sim, tid) = (self.sim.clone(), self.tid);
        let mut st = sim.enter(tid);
        if st.failure.is_some() {
            drop(st);
            park_forever();
        }
        st.steps += 1;
        GLOBAL_STEPS.fetch_add(1, Ordering::Relaxed);
        st.threads[tid].status = Status::Finished;
        let jk = join_key(tid);
        for t in st.threads.iter_mut() {
            if let Status::Blocked { key, .. } = t.status {
                if key == jk {
                    t.status = Status::Runnable;
                    t.timed_out = false;
                }
            }
        }
        if let Some(p) = self.main_panic.take() {
            st.main_panic = Some(p);
        }
        let _ = CTX.try_with(|c| *c.borrow_mut() = None);
        let _st = hand_off(&sim, st, tid, 0, true);
    }
}

fn thread_main<F, T>(sim: Arc<Sim>, tid: Tid, f: F) -> std::thread::Result<T>
where
    F: FnOnce() -> T,
{
    // (order matters: FINISH is registered before CTX and before anything the thread's own code touches)
    FINISH.with(|c| *c.borrow_mut() = Some(FinishOnExit { sim: sim.clone(), tid, main_panic: None }));
    CTX.with(|c| *c.borrow_mut() = Some((sim.clone(), tid)));
    // wait for the baton
    {
        let mut st = sim.lock();
        st.threads[tid].os_tid = unsafe { libc::syscall(libc::SYS_gettid) } as i32;
        let cv = st.threads[tid].cv.clone();
        while st.current != tid {
            st = cv.wait(st).unwrap_or_else(|e| e.into_inner());
        }
        if st.failure.is_some() {
            drop(st);
            park_forever();
        }
    }
    let r = std::panic::catch_unwind(std::panic::AssertUnwindSafe(f));
    if tid == 0 {
        if let Err(e) = &r {
            let m = panic_message(e);
            FINISH.with(|c| {
                if let Some(fin) = c.borrow_mut().as_mut() {
                    fin.main_panic = Some(m);
                }
            });
        }
    }
    // the thread-local destructors run now, still with the baton; the last of them (FINISH) finishes the thread
    r
}

pub fn panic_message(e: &Box<dyn std::any::Any + Send>) -> String {
    if let Some(s) = e.downcast_ref::<&'static str>() {
        s.to_string()
    } else if let Some(s) = e.downcast_ref::<String>() {
        s.clone()
    } else {
        "<non-string panic payload>".to_string()
    }
}

/// The simulation that is running in this process right now (for the monitor).
static ACTIVE_SIM: StdMutex<Option<std::sync::Weak<Sim>>> = StdMutex::new(None);
/// Milliseconds without a scheduling step after which the monitor looks at the baton holder (0 = monitor off).
static FOREIGN_AFTER_MS: AtomicU64 = AtomicU64::new(300);

/// Switch the foreign-block monitor off (0) or set its patience in milliseconds.
pub fn set_foreign_block_patience_ms(ms: u64) {
    FOREIGN_AFTER_MS.store(ms, Ordering::Relaxed);
}

/// Can the monitor see the state of this process's threads at all (`/proc/self/task/<tid>/stat`)? Scenarios that *plan*
/// a block in a real lock ask first, and do without where the answer is no.
pub fn foreign_block_monitor_available() -> bool {
    static OK: std::sync::OnceLock<bool> = std::sync::OnceLock::new();
    *OK.get_or_init(|| {
        let me = unsafe { libc::syscall(libc::SYS_gettid) } as i32;
        std::fs::read_to_string(format!("/proc/self/task/{me}/stat")).map(|s| s.rfind(") ").is_some()).unwrap_or(false)
    })
}

fn os_thread_asleep(os_tid: i32) -> bool {
    // /proc/self/task/<tid>/stat: "<tid> (<comm>) <state> ..."; S = interruptible sleep (futex wait, ...)
    match std::fs::read_to_string(format!("/proc/self/task/{os_tid}/stat")) {
        Ok(s) => s.rfind(") ").and_then(|i| s[i + 2..].chars().next()).map(|c| c == 'S').unwrap_or(false),
        Err(_) => false,
    }
}

/// True if every thread of this process except the caller is asleep in the kernel. (A thread that is merely *starved* -
/// runnable but off the CPU on an overloaded machine - may be the one that holds what the baton holder waits for, e.g.
/// a lock of the allocator: then progress needs no intervention, only patience.)
fn all_other_os_threads_asleep() -> bool {
    let me = unsafe { libc::syscall(libc::SYS_gettid) } as i32;
    let Ok(dir) = std::fs::read_dir("/proc/self/task") else { return false };
    for e in dir.flatten() {
        let Some(tid) = e.file_name().to_str().and_then(|s| s.parse::<i32>().ok()) else { continue };
        if tid != me && !os_thread_asleep(tid) {
            // (a thread that has just exited reads as "not asleep": look again at the next sample)
            return false;
        }
    }
    true
}

/// One process-wide monitor thread: when a run makes no scheduling step for a while although a simulated thread holds
/// the baton, and that thread is asleep in the kernel, it is blocked in something the simulator does not own (a lock
/// without a shim: held by a descheduled simulated thread, or taken twice by this one). The real world would simply run
/// the other threads; so does the monitor: the sleeper is marked `Foreign` and the baton goes to somebody else. When
/// the sleeper wakes up it queues for the baton at its next scheduling point. If nobody can run any more the run ends
/// as a deadlock, with the sleeper in the list.
fn start_monitor() {
    static STARTED: std::sync::Once = std::sync::Once::new();
    STARTED.call_once(|| {
        let _ = std::thread::Builder::new().name("detsim-monitor".into()).spawn(|| {
            let mut last_steps = GLOBAL_STEPS.load(Ordering::Relaxed);
            let mut since = std::time::Instant::now();
            let mut asleep_samples = 0u32;
            loop {
                let patience = FOREIGN_AFTER_MS.load(Ordering::Relaxed);
                std::thread::sleep(std::time::Duration::from_millis((patience / 4).clamp(5, 50)));
                let steps = GLOBAL_STEPS.load(Ordering::Relaxed);
                if patience == 0 || !RUN_ACTIVE.load(Ordering::Relaxed) || steps != last_steps {
                    last_steps = steps;
                    since = std::time::Instant::now();
                    asleep_samples = 0;
                    continue;
                }
                if (since.elapsed().as_millis() as u64) < patience {
                    continue;
                }
                let Some(sim) = ACTIVE_SIM.lock().ok().and_then(|g| g.as_ref().and_then(|w| w.upgrade())) else { continue };
                let mut st = sim.lock();
                if st.failure.is_some() || st.finished_all || GLOBAL_STEPS.load(Ordering::Relaxed) != steps {
                    continue;
                }
                let cur = st.current;
                if !matches!(st.threads[cur].status, Status::Runnable) || st.threads[cur].os_tid == 0 || !os_thread_asleep(st.threads[cur].os_tid) || (!all_other_os_threads_asleep() && since.elapsed().as_millis() < 5_000) {
                    // (after five seconds without a step a starved lock holder is no longer a plausible explanation)
                    asleep_samples = 0;
                    continue;
                }
                asleep_samples += 1;
                if asleep_samples < 2 {
                    continue;
                }
                asleep_samples = 0;
                // the baton holder sleeps outside the simulator: go on without it
                st.threads[cur].status = Status::Foreign;
                st.foreign_blocks += 1;
                // (it is a block like any other to whoever asks whether a call blocked)
                st.threads[cur].blocked_count += 1;
                st.threads[cur].last_block_clock = st.clock;
                let site = st.threads[cur].last_site;
                loop {
                    match st.choose(None, cur, site) {
                        Some(next) => {
                            st.current = next;
                            st.threads[next].cv.notify_one();
                            break;
                        }
                        None => {
                            let earliest = st.threads.iter().filter_map(|t| match t.status { Status::Blocked { deadline: Some(d), .. } => Some(d), _ => None }).min();
                            match earliest {
                                Some(d) => {
                                    if d > st.clock {
                                        st.clock = d;
                                    }
                                    st.wake_expired();
                                }
                                None => {
                                    let live = live_list(&st);
                                    if st.failure.is_none() {
                                        st.failure = Some(Failure::Deadlock { live });
                                    }
                                    sim.done.notify_all();
                                    break;
                                }
                            }
                        }
                    }
                }
                GLOBAL_STEPS.fetch_add(1, Ordering::Relaxed);
                last_steps = GLOBAL_STEPS.load(Ordering::Relaxed);
                since = std::time::Instant::now();
            }
        });
    });
}

/// Run `f` as simulated thread 0 under the given configuration. Returns when every simulated
/// thread has finished, or when the run failed (deadlock / step limit), in which case
/// `outcome.wedged` is set and the process must exit without running another simulation.
pub fn run<F, T>(cfg: SchedConfig, f: F) -> (Outcome, Option<T>)
where
    F: FnOnce() -> T + Send + 'static,
    T: Send + 'static,
{
    assert!(!in_sim(), "nested simulation");
    RUN_ACTIVE.store(true, Ordering::Relaxed);
    // each run starts on a whole simulated second, >= 10 s after the previous run ended
    let prev = GLOBAL_CLOCK.load(Ordering::Relaxed);
    let start = ((prev + 10_000_000_000) / 1_000_000_000 + 1) * 1_000_000_000;
    RUN_HASH_SEED.store(crate::rng::derive(cfg.seed, 0, 0x4A5), Ordering::Relaxed);

    let (replay_switch, replay_jump) = match &cfg.replay {
        Some(ds) => {
            let mut s = HashMap::new();
            let mut j = HashMap::new();
            for d in ds {
                match d {
                    Decision::Switch { at, tid } => {
                        s.insert(*at, *tid);
                    }
                    Decision::Jump { at, ns } => {
                        *j.entry(*at).or_insert(0) += *ns;
                    }
                }
            }
            (Some(s), j)
        }
        None => (None, HashMap::new()),
    };
    let mut rng = Rng::new(crate::rng::derive(cfg.seed, 0, 1));
    let work_rng = Rng::new(crate::rng::derive(cfg.seed, 0, 2));
    let mut pct_points = vec![];
    if let Strategy::Pct { depth, est_len } = &cfg.strategy {
        for _ in 0..*depth {
            pct_points.push(rng.below((*est_len).max(1)));
        }
    }
    let prio0 = 1_000_000 + (rng.next_u64() % 1_000_000) as i64;
    let trace_on = cfg.trace;
    let st = State {
        threads: vec![ThreadInfo {
            status: Status::Runnable,
            cv: Arc::new(Condvar::new()),
            name: "main".into(),
            blocked_count: 0,
            last_block_clock: 0,
            timed_out: false,
            priority: prio0,
            consecutive: 0,
            last_site: 0,
            os_tid: 0,
        }],
        current: 0,
        clock: start,
        clock_start: start,
        steps: 0,
        choices: 0,
        switches: 0,
        preemptions: 0,
        seq: 0,
        fresh: 0,
        rng,
        work_rng,
        cfg,
        replay_switch,
        replay_jump,
        pct_points,
        pct_low: 0,
        decisions: vec![],
        hash: 0x1234_5678_9ABC_DEF0,
        sig: 0x0FED_CBA9_8765_4321,
        failure: None,
        finished_all: false,
        main_panic: None,
        jumps: 0,
        jump_ns: 0,
        timeouts: 0,
        blocks: 0,
        stall_steps: 0,
        stall_done: false,
        jump_checked: 0,
        trace: vec![],
        parked: vec![],
        site_parks: 0,
        foreign_blocks: 0,
    };
    if trace_on {
        enable_site_names();
    }
    let sim = Arc::new(Sim { st: StdMutex::new(st), done: Condvar::new() });
    if let Ok(mut g) = ACTIVE_SIM.lock() {
        *g = Some(Arc::downgrade(&sim));
    }
    start_monitor();
    let sim2 = sim.clone();
    let h = std::thread::Builder::new()
        .name("sim-main".into())
        .spawn(move || thread_main(sim2, 0, f))
        .expect("spawn sim main");
    // wait for completion or failure
    let mut st = sim.lock();
    while !st.finished_all && st.failure.is_none() {
        st = sim.done.wait(st).unwrap_or_else(|e| e.into_inner());
    }
    let wedged = st.failure.is_some();
    let out = Outcome {
        steps: st.steps,
        choices: st.choices,
        switches: st.switches,
        clock_ns: st.clock - st.clock_start,
        threads: st.threads.len(),
        hash: st.hash,
        sig: st.sig,
        decisions: std::mem::take(&mut st.decisions),
        failure: st.failure.clone(),
        wedged,
        main_panic: st.main_panic.clone(),
        jumps: st.jumps,
        jump_ns: st.jump_ns,
        timeouts: st.timeouts,
        blocks: st.blocks,
        stall_steps: st.stall_steps,
        site_parks: st.site_parks,
        foreign_blocks: st.foreign_blocks,
        preemptions: st.preemptions,
        trace: std::mem::take(&mut st.trace),
    };
    GLOBAL_CLOCK.store(st.clock, Ordering::Relaxed);
    RUN_ACTIVE.store(false, Ordering::Relaxed);
    drop(st);
    let result = if wedged {
        // the main thread may be stuck; do not join
        std::mem::forget(h);
        None
    } else {
        match h.join() {
            Ok(Ok(v)) => Some(v),
            _ => None,
        }
    };
    (out, result)
}

/// Pin the whole process to one CPU (baton hand-offs are ~3x cheaper).
pub fn pin_to_cpu(cpu: usize) {
    unsafe {
        let mut set: libc::cpu_set_t = std::mem::zeroed();
        libc::CPU_ZERO(&mut set);
        libc::CPU_SET(cpu % (libc::CPU_SETSIZE as usize), &mut set);
        libc::sched_setaffinity(0, std::mem::size_of::<libc::cpu_set_t>(), &set);
    }
}
