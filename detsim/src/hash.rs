//! A `BuildHasher` keyed from the run seed: iteration order of hash maps that use it varies
//! across seeds and is identical on replay (hashbrown's default hasher seeds itself from
//! ASLR + time and cannot be overridden).

use std::hash::{BuildHasher, Hasher};
use std::sync::atomic::Ordering;

use crate::sched::RUN_HASH_SEED;

#[derive(Clone, Copy, Debug)]
pub struct SeededState {
    k: u64,
}

impl Default for SeededState {
    fn default() -> Self {
        SeededState { k: RUN_HASH_SEED.load(Ordering::Relaxed) }
    }
}

/// Set the seed used by every `SeededState` created from now on (single-threaded scenarios that
/// do not go through `detsim::run`).
pub fn set_run_seed(seed: u64) {
    RUN_HASH_SEED.store(crate::rng::derive(seed, 0, 0x4A5), Ordering::Relaxed);
}

impl SeededState {
    pub fn new() -> Self {
        Self::default()
    }
}

impl BuildHasher for SeededState {
    type Hasher = SeededHasher;
    fn build_hasher(&self) -> SeededHasher {
        SeededHasher { h: self.k ^ 0x6A09_E667_F3BC_C908 }
    }
}

pub struct SeededHasher {
    h: u64,
}

impl Hasher for SeededHasher {
    fn finish(&self) -> u64 {
        let mut x = self.h;
        x = (x ^ (x >> 33)).wrapping_mul(0xFF51_AFD7_ED55_8CCD);
        x = (x ^ (x >> 33)).wrapping_mul(0xC4CE_B9FE_1A85_EC53);
        x ^ (x >> 33)
    }

    fn write(&mut self, bytes: &[u8]) {
        for chunk in bytes.chunks(8) {
            let mut v = [0u8; 8];
            v[..chunk.len()].copy_from_slice(chunk);
            let w = u64::from_le_bytes(v) ^ ((chunk.len() as u64) << 56);
            self.h = (self.h ^ w).wrapping_mul(0x9E37_79B9_7F4A_7C15).rotate_left(23);
        }
    }

    fn write_u8(&mut self, i: u8) {
        self.write_u64(i as u64 | 0x100)
    }
    fn write_u32(&mut self, i: u32) {
        self.write_u64(i as u64 | 0x1_0000_0000)
    }
    fn write_u64(&mut self, i: u64) {
        self.h = (self.h ^ i).wrapping_mul(0x9E37_79B9_7F4A_7C15).rotate_left(23);
    }
    fn write_usize(&mut self, i: usize) {
        self.write_u64(i as u64)
    }
}
