//! Drive a future on a simulated thread: poll; on `Pending` block until the waker fires.

use std::future::Future;
use std::pin::Pin;
use std::sync::atomic::{AtomicBool, Ordering};
use std::sync::Arc;
use std::task::{Context, Poll, Wake, Waker};

use crate::sched;

struct SimWaker {
    key: u64,
    woken: AtomicBool,
}

impl Wake for SimWaker {
    fn wake(self: Arc<Self>) {
        self.wake_by_ref()
    }
    fn wake_by_ref(self: &Arc<Self>) {
        self.woken.store(true, Ordering::SeqCst);
        sched::unblock(self.key);
    }
}

/// Result of a bounded wait.
#[derive(Debug, PartialEq)]
pub enum Waited<T> {
    Ready(T),
    /// the deadline passed first; the future was dropped (cancelled)
    TimedOut,
}

/// Poll `fut` to completion on the current simulated thread.
#[track_caller]
pub fn block_on<F: Future>(fut: F) -> F::Output {
    match block_on_deadline(fut, None) {
        Waited::Ready(v) => v,
        Waited::TimedOut => unreachable!(),
    }
}

/// Poll `fut` until ready or until the absolute simulated deadline (ns); on timeout the future
/// is dropped (cancelled).
#[track_caller]
pub fn block_on_deadline<F: Future>(fut: F, deadline_ns: Option<u64>) -> Waited<F::Output> {
    let mut fut = Box::pin(fut);
    block_on_pinned(fut.as_mut(), deadline_ns)
}

/// Like `block_on_deadline`, but the future stays alive on timeout (it can be waited on again).
#[track_caller]
pub fn block_on_pinned<F: Future + ?Sized>(mut fut: Pin<&mut F>, deadline_ns: Option<u64>) -> Waited<F::Output> {
    let s = sched::site();
    if !sched::in_sim() {
        // outside a simulation: trivial thread-parking executor
        struct ThreadWaker(std::thread::Thread);
        impl Wake for ThreadWaker {
            fn wake(self: Arc<Self>) {
                self.0.unpark();
            }
        }
        let w = Waker::from(Arc::new(ThreadWaker(std::thread::current())));
        let mut cx = Context::from_waker(&w);
        loop {
            if let Poll::Ready(v) = fut.as_mut().poll(&mut cx) {
                return Waited::Ready(v);
            }
            std::thread::park();
        }
    }
    let sw = Arc::new(SimWaker { key: sched::fresh_key(), woken: AtomicBool::new(false) });
    let waker = Waker::from(sw.clone());
    let mut cx = Context::from_waker(&waker);
    loop {
        sched::sched_point(s);
        sw.woken.store(false, Ordering::SeqCst);
        if let Poll::Ready(v) = fut.as_mut().poll(&mut cx) {
            return Waited::Ready(v);
        }
        if sw.woken.load(Ordering::SeqCst) {
            continue;
        }
        if let Some(d) = deadline_ns {
            if sched::clock_ns() >= d {
                return Waited::TimedOut;
            }
        }
        let _ = sched::block_on(sw.key, deadline_ns, s);
    }
}

/// Poll a future exactly once (used for "must be ready on first poll" checks).
pub fn poll_once<F: Future + Unpin>(fut: &mut F) -> Poll<F::Output> {
    struct Noop;
    impl Wake for Noop {
        fn wake(self: Arc<Self>) {}
    }
    let w = Waker::from(Arc::new(Noop));
    let mut cx = Context::from_waker(&w);
    Pin::new(fut).poll(&mut cx)
}
