//! `std::thread` shim: simulated threads are real OS threads registered with the scheduler.

use std::io;

use crate::sched::{self, Tid};

pub use std::thread::{current, panicking, Result, Thread, ThreadId};

pub struct JoinHandle<T> {
    inner: Inner<T>,
}

enum Inner<T> {
    Real(std::thread::JoinHandle<T>),
    Sim { tid: Tid, h: std::thread::JoinHandle<std::thread::Result<T>> },
}

impl<T> JoinHandle<T> {
    #[track_caller]
    pub fn join(self) -> Result<T> {
        match self.inner {
            Inner::Real(h) => h.join(),
            Inner::Sim { tid, h } => {
                let s = sched::site();
                if sched::in_sim() {
                    sched::sched_point(s);
                    while !sched::thread_finished(tid) {
                        let _ = sched::block_on(sched::join_key(tid), None, s);
                    }
                }
                match h.join() {
                    Ok(r) => r,
                    Err(e) => Err(e),
                }
            }
        }
    }

    pub fn is_finished(&self) -> bool {
        match &self.inner {
            Inner::Real(h) => h.is_finished(),
            Inner::Sim { tid, .. } => sched::thread_finished(*tid),
        }
    }

    pub fn thread(&self) -> &Thread {
        match &self.inner {
            Inner::Real(h) => h.thread(),
            Inner::Sim { h, .. } => h.thread(),
        }
    }

    /// simulated thread id, if this is a simulated thread
    pub fn sim_tid(&self) -> Option<Tid> {
        match &self.inner {
            Inner::Real(_) => None,
            Inner::Sim { tid, .. } => Some(*tid),
        }
    }
}

#[derive(Default)]
pub struct Builder {
    name: Option<String>,
}

impl Builder {
    pub fn new() -> Builder {
        Builder { name: None }
    }

    pub fn name(mut self, name: String) -> Builder {
        self.name = Some(name);
        self
    }

    pub fn stack_size(self, _size: usize) -> Builder {
        self
    }

    #[track_caller]
    pub fn spawn<F, T>(self, f: F) -> io::Result<JoinHandle<T>>
    where
        F: FnOnce() -> T + Send + 'static,
        T: Send + 'static,
    {
        if sched::in_sim() {
            let s = sched::site();
            let (tid, h) = sched::spawn_sim(self.name, f)?;
            sched::sched_point(s);
            Ok(JoinHandle { inner: Inner::Sim { tid, h } })
        } else {
            let mut b = std::thread::Builder::new();
            if let Some(n) = self.name {
                b = b.name(n);
            }
            Ok(JoinHandle { inner: Inner::Real(b.spawn(f)?) })
        }
    }
}

#[track_caller]
pub fn spawn<F, T>(f: F) -> JoinHandle<T>
where
    F: FnOnce() -> T + Send + 'static,
    T: Send + 'static,
{
    Builder::new().spawn(f).expect("failed to spawn thread")
}

/// spawn with a name (harness convenience)
#[track_caller]
pub fn spawn_named<F, T>(name: &str, f: F) -> JoinHandle<T>
where
    F: FnOnce() -> T + Send + 'static,
    T: Send + 'static,
{
    Builder::new().name(name.to_string()).spawn(f).expect("failed to spawn thread")
}

#[track_caller]
pub fn yield_now() {
    if sched::in_sim() {
        sched::sched_point(sched::site());
    } else {
        std::thread::yield_now();
    }
}

#[track_caller]
pub fn sleep(d: std::time::Duration) {
    sched::sleep_ns(d.as_nanos().min(u64::MAX as u128) as u64);
}

/// `std::thread::park` analogue is deliberately absent: `Thread::unpark` of the std handle cannot be
/// intercepted. Code that needs it must go through `sync::Parker`.
pub fn available_parallelism() -> io::Result<std::num::NonZeroUsize> {
    std::thread::available_parallelism()
}

pub fn scope<'env, F, T>(f: F) -> T
where
    F: for<'scope> FnOnce(&'scope std::thread::Scope<'scope, 'env>) -> T,
{
    std::thread::scope(f)
}
