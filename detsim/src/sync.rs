//! Synchronisation shims. Each has the std / crossbeam API subset the repository uses, is a
//! scheduling point under simulation, blocks inside the simulator, and falls through to the
//! plain behaviour when the calling thread is not simulated.

use std::fmt;
use std::ops::{Deref, DerefMut};
use std::sync::{LockResult, PoisonError, TryLockError, TryLockResult};

use crate::sched;

pub use std::sync::{Barrier, Once, OnceLock};

// ------------------------------------------------------------------------------------------
// Mutex
// ------------------------------------------------------------------------------------------

pub struct Mutex<T: ?Sized> {
    inner: std::sync::Mutex<T>,
}

pub struct MutexGuard<'a, T: ?Sized + 'a> {
    guard: Option<std::sync::MutexGuard<'a, T>>,
    key: u64,
}

impl<T> Mutex<T> {
    pub const fn new(t: T) -> Self {
        Mutex { inner: std::sync::Mutex::new(t) }
    }

    pub fn into_inner(self) -> LockResult<T> {
        self.inner.into_inner()
    }
}

impl<T: ?Sized> Mutex<T> {
    fn key(&self) -> u64 {
        self as *const Self as *const u8 as usize as u64
    }

    fn wrap<'a>(&'a self, g: std::sync::MutexGuard<'a, T>) -> MutexGuard<'a, T> {
        MutexGuard { guard: Some(g), key: self.key() }
    }

    #[track_caller]
    pub fn lock(&self) -> LockResult<MutexGuard<'_, T>> {
        if !sched::in_sim() {
            return match self.inner.lock() {
                Ok(g) => Ok(self.wrap(g)),
                Err(p) => Err(PoisonError::new(self.wrap(p.into_inner()))),
            };
        }
        let s = sched::site();
        loop {
            sched::sched_point(s);
            match self.inner.try_lock() {
                Ok(g) => {
                    // one more scheduling point *inside* the critical section: others can find the lock held
                    // (a `try_lock` that fails, a `lock` that has to wait) however short the section is
                    let g = self.wrap(g);
                    sched::sched_point(s);
                    return Ok(g);
                }
                Err(TryLockError::Poisoned(p)) => {
                    return Err(PoisonError::new(self.wrap(p.into_inner())))
                }
                Err(TryLockError::WouldBlock) => {
                    let _ = sched::block_on(self.key(), None, s);
                }
            }
        }
    }

    #[track_caller]
    pub fn try_lock(&self) -> TryLockResult<MutexGuard<'_, T>> {
        sched::sched_point(sched::site());
        match self.inner.try_lock() {
            Ok(g) => Ok(self.wrap(g)),
            Err(TryLockError::Poisoned(p)) => {
                Err(TryLockError::Poisoned(PoisonError::new(self.wrap(p.into_inner()))))
            }
            Err(TryLockError::WouldBlock) => Err(TryLockError::WouldBlock),
        }
    }

    pub fn is_poisoned(&self) -> bool {
        self.inner.is_poisoned()
    }

    pub fn get_mut(&mut self) -> LockResult<&mut T> {
        self.inner.get_mut()
    }

    pub fn clear_poison(&self) {
        self.inner.clear_poison()
    }
}

impl<T: ?Sized> Deref for MutexGuard<'_, T> {
    type Target = T;
    fn deref(&self) -> &T {
        self.guard.as_ref().unwrap()
    }
}
impl<T: ?Sized> DerefMut for MutexGuard<'_, T> {
    fn deref_mut(&mut self) -> &mut T {
        self.guard.as_mut().unwrap()
    }
}
impl<T: ?Sized> Drop for MutexGuard<'_, T> {
    fn drop(&mut self) {
        self.guard.take();
        if sched::in_sim() {
            sched::unblock(self.key);
        }
    }
}
impl<T: ?Sized + fmt::Debug> fmt::Debug for MutexGuard<'_, T> {
    fn fmt(&self, f: &mut fmt::Formatter<'_>) -> fmt::Result {
        fmt::Debug::fmt(&**self, f)
    }
}
impl<T: ?Sized + fmt::Debug> fmt::Debug for Mutex<T> {
    fn fmt(&self, f: &mut fmt::Formatter<'_>) -> fmt::Result {
        fmt::Debug::fmt(&self.inner, f)
    }
}
impl<T: Default> Default for Mutex<T> {
    fn default() -> Self {
        Mutex::new(T::default())
    }
}
impl<T> From<T> for Mutex<T> {
    fn from(t: T) -> Self {
        Mutex::new(t)
    }
}

// ------------------------------------------------------------------------------------------
// RwLock
// ------------------------------------------------------------------------------------------

pub struct RwLock<T: ?Sized> {
    /// writers blocked in `write()` right now. std's lock (like most) does not let new readers in while a writer
    /// is waiting; `try_read` models that: it reports WouldBlock then, although nobody *holds* the lock exclusively.
    waiting_writers: std::sync::atomic::AtomicUsize,
    inner: std::sync::RwLock<T>,
}

pub struct RwLockReadGuard<'a, T: ?Sized + 'a> {
    guard: Option<std::sync::RwLockReadGuard<'a, T>>,
    key: u64,
}
pub struct RwLockWriteGuard<'a, T: ?Sized + 'a> {
    guard: Option<std::sync::RwLockWriteGuard<'a, T>>,
    key: u64,
}

impl<T> RwLock<T> {
    pub const fn new(t: T) -> Self {
        RwLock { waiting_writers: std::sync::atomic::AtomicUsize::new(0), inner: std::sync::RwLock::new(t) }
    }
    pub fn into_inner(self) -> LockResult<T> {
        self.inner.into_inner()
    }
}

impl<T: ?Sized> RwLock<T> {
    fn key(&self) -> u64 {
        self as *const Self as *const u8 as usize as u64
    }

    #[track_caller]
    pub fn read(&self) -> LockResult<RwLockReadGuard<'_, T>> {
        let key = self.key();
        if !sched::in_sim() {
            return match self.inner.read() {
                Ok(g) => Ok(RwLockReadGuard { guard: Some(g), key }),
                Err(p) => Err(PoisonError::new(RwLockReadGuard { guard: Some(p.into_inner()), key })),
            };
        }
        let s = sched::site();
        loop {
            sched::sched_point(s);
            match self.inner.try_read() {
                Ok(g) => {
                    let g = RwLockReadGuard { guard: Some(g), key };
                    sched::sched_point(s); // (inside the critical section, see Mutex::lock)
                    return Ok(g);
                }
                Err(TryLockError::Poisoned(p)) => {
                    return Err(PoisonError::new(RwLockReadGuard { guard: Some(p.into_inner()), key }))
                }
                Err(TryLockError::WouldBlock) => {
                    let _ = sched::block_on(key, None, s);
                }
            }
        }
    }

    #[track_caller]
    pub fn write(&self) -> LockResult<RwLockWriteGuard<'_, T>> {
        let key = self.key();
        if !sched::in_sim() {
            return match self.inner.write() {
                Ok(g) => Ok(RwLockWriteGuard { guard: Some(g), key }),
                Err(p) => Err(PoisonError::new(RwLockWriteGuard { guard: Some(p.into_inner()), key })),
            };
        }
        let s = sched::site();
        loop {
            sched::sched_point(s);
            match self.inner.try_write() {
                Ok(g) => {
                    let g = RwLockWriteGuard { guard: Some(g), key };
                    sched::sched_point(s); // (inside the critical section, see Mutex::lock)
                    return Ok(g);
                }
                Err(TryLockError::Poisoned(p)) => {
                    return Err(PoisonError::new(RwLockWriteGuard { guard: Some(p.into_inner()), key }))
                }
                Err(TryLockError::WouldBlock) => {
                    self.waiting_writers.fetch_add(1, std::sync::atomic::Ordering::SeqCst);
                    let _ = sched::block_on(key, None, s);
                    self.waiting_writers.fetch_sub(1, std::sync::atomic::Ordering::SeqCst);
                }
            }
        }
    }

    #[track_caller]
    pub fn try_read(&self) -> TryLockResult<RwLockReadGuard<'_, T>> {
        let key = self.key();
        sched::sched_point(sched::site());
        if sched::in_sim() && self.waiting_writers.load(std::sync::atomic::Ordering::SeqCst) > 0 {
            return Err(TryLockError::WouldBlock);
        }
        match self.inner.try_read() {
            Ok(g) => Ok(RwLockReadGuard { guard: Some(g), key }),
            Err(TryLockError::Poisoned(p)) => Err(TryLockError::Poisoned(PoisonError::new(RwLockReadGuard { guard: Some(p.into_inner()), key }))),
            Err(TryLockError::WouldBlock) => Err(TryLockError::WouldBlock),
        }
    }

    #[track_caller]
    pub fn try_write(&self) -> TryLockResult<RwLockWriteGuard<'_, T>> {
        let key = self.key();
        sched::sched_point(sched::site());
        match self.inner.try_write() {
            Ok(g) => Ok(RwLockWriteGuard { guard: Some(g), key }),
            Err(TryLockError::Poisoned(p)) => Err(TryLockError::Poisoned(PoisonError::new(RwLockWriteGuard { guard: Some(p.into_inner()), key }))),
            Err(TryLockError::WouldBlock) => Err(TryLockError::WouldBlock),
        }
    }

    pub fn is_poisoned(&self) -> bool {
        self.inner.is_poisoned()
    }

    pub fn get_mut(&mut self) -> LockResult<&mut T> {
        self.inner.get_mut()
    }

    pub fn clear_poison(&self) {
        self.inner.clear_poison()
    }
}

impl<T> From<T> for RwLock<T> {
    fn from(t: T) -> Self {
        RwLock::new(t)
    }
}

impl<T: ?Sized> Deref for RwLockReadGuard<'_, T> {
    type Target = T;
    fn deref(&self) -> &T {
        self.guard.as_ref().unwrap()
    }
}
impl<T: ?Sized> Drop for RwLockReadGuard<'_, T> {
    fn drop(&mut self) {
        self.guard.take();
        if sched::in_sim() {
            sched::unblock(self.key);
        }
    }
}
impl<T: ?Sized> Deref for RwLockWriteGuard<'_, T> {
    type Target = T;
    fn deref(&self) -> &T {
        self.guard.as_ref().unwrap()
    }
}
impl<T: ?Sized> DerefMut for RwLockWriteGuard<'_, T> {
    fn deref_mut(&mut self) -> &mut T {
        self.guard.as_mut().unwrap()
    }
}
impl<T: ?Sized> Drop for RwLockWriteGuard<'_, T> {
    fn drop(&mut self) {
        self.guard.take();
        if sched::in_sim() {
            sched::unblock(self.key);
        }
    }
}
impl<T: Default> Default for RwLock<T> {
    fn default() -> Self {
        RwLock::new(T::default())
    }
}
impl<T: ?Sized + fmt::Debug> fmt::Debug for RwLock<T> {
    fn fmt(&self, f: &mut fmt::Formatter<'_>) -> fmt::Result {
        fmt::Debug::fmt(&self.inner, f)
    }
}

// ------------------------------------------------------------------------------------------
// Arc / Weak (newtypes over std's: scheduling point before clone / drop / upgrade)
// ------------------------------------------------------------------------------------------

pub struct Arc<T: ?Sized>(std::sync::Arc<T>);
pub struct Weak<T: ?Sized>(std::sync::Weak<T>);

impl<T> Arc<T> {
    pub fn new(t: T) -> Self {
        Arc(std::sync::Arc::new(t))
    }
    pub fn try_unwrap(this: Self) -> Result<T, Self> {
        sched::sched_point(sched::site());
        // move the std Arc out without running our Drop
        let inner = unsafe { std::ptr::read(&this.0) };
        std::mem::forget(this);
        std::sync::Arc::try_unwrap(inner).map_err(Arc)
    }
    pub fn into_inner(this: Self) -> Option<T> {
        sched::sched_point(sched::site());
        let inner = unsafe { std::ptr::read(&this.0) };
        std::mem::forget(this);
        std::sync::Arc::into_inner(inner)
    }
}

impl<T: ?Sized> Arc<T> {
    #[track_caller]
    pub fn downgrade(this: &Self) -> Weak<T> {
        sched::sched_point(sched::site());
        Weak(std::sync::Arc::downgrade(&this.0))
    }
    pub fn strong_count(this: &Self) -> usize {
        std::sync::Arc::strong_count(&this.0)
    }
    pub fn weak_count(this: &Self) -> usize {
        std::sync::Arc::weak_count(&this.0)
    }
    pub fn ptr_eq(a: &Self, b: &Self) -> bool {
        std::sync::Arc::ptr_eq(&a.0, &b.0)
    }
    pub fn get_mut(this: &mut Self) -> Option<&mut T> {
        std::sync::Arc::get_mut(&mut this.0)
    }
    pub fn as_ptr(this: &Self) -> *const T {
        std::sync::Arc::as_ptr(&this.0)
    }
    pub fn as_std(this: &Self) -> &std::sync::Arc<T> {
        &this.0
    }
}

impl<T: Clone> Arc<T> {
    pub fn make_mut(this: &mut Self) -> &mut T {
        std::sync::Arc::make_mut(&mut this.0)
    }
    pub fn unwrap_or_clone(this: Self) -> T {
        match Arc::try_unwrap(this) {
            Ok(t) => t,
            Err(a) => (*a).clone(),
        }
    }
}

impl<T: ?Sized + PartialEq> PartialEq for Arc<T> {
    fn eq(&self, other: &Self) -> bool {
        *self.0 == *other.0
    }
}

impl<T: ?Sized> Clone for Arc<T> {
    #[track_caller]
    fn clone(&self) -> Self {
        sched::sched_point(sched::site());
        Arc(self.0.clone())
    }
}
impl<T: ?Sized> Drop for Arc<T> {
    fn drop(&mut self) {
        // scheduling point *before* the reference count is released
        sched::sched_point(sched::site());
    }
}
impl<T: ?Sized> Deref for Arc<T> {
    type Target = T;
    fn deref(&self) -> &T {
        &self.0
    }
}
impl<T: ?Sized> AsRef<T> for Arc<T> {
    fn as_ref(&self) -> &T {
        &self.0
    }
}
impl<T: ?Sized + fmt::Debug> fmt::Debug for Arc<T> {
    fn fmt(&self, f: &mut fmt::Formatter<'_>) -> fmt::Result {
        fmt::Debug::fmt(&self.0, f)
    }
}
impl<T: Default> Default for Arc<T> {
    fn default() -> Self {
        Arc::new(T::default())
    }
}
impl<T> From<T> for Arc<T> {
    fn from(t: T) -> Self {
        Arc::new(t)
    }
}

impl<T> Weak<T> {
    pub fn new() -> Self {
        Weak(std::sync::Weak::new())
    }
}
impl<T> Default for Weak<T> {
    fn default() -> Self {
        Weak::new()
    }
}
impl<T: ?Sized> Weak<T> {
    pub fn weak_count(&self) -> usize {
        self.0.weak_count()
    }
    pub fn ptr_eq(&self, other: &Self) -> bool {
        self.0.ptr_eq(&other.0)
    }
    #[track_caller]
    pub fn upgrade(&self) -> Option<Arc<T>> {
        sched::sched_point(sched::site());
        self.0.upgrade().map(Arc)
    }
    pub fn strong_count(&self) -> usize {
        self.0.strong_count()
    }
}
impl<T: ?Sized> Clone for Weak<T> {
    fn clone(&self) -> Self {
        Weak(self.0.clone())
    }
}
impl<T: ?Sized> fmt::Debug for Weak<T> {
    fn fmt(&self, f: &mut fmt::Formatter<'_>) -> fmt::Result {
        write!(f, "(Weak)")
    }
}

// ------------------------------------------------------------------------------------------
// Parker / Unparker (crossbeam_utils::sync API)
// ------------------------------------------------------------------------------------------

struct ParkInner {
    token: std::sync::atomic::AtomicBool,
    lock: std::sync::Mutex<()>,
    cv: std::sync::Condvar,
}

pub struct Parker {
    unparker: Unparker,
}

pub struct Unparker {
    inner: std::sync::Arc<ParkInner>,
}

impl Default for Parker {
    fn default() -> Self {
        Parker::new()
    }
}

impl Parker {
    pub fn new() -> Parker {
        Parker {
            unparker: Unparker {
                inner: std::sync::Arc::new(ParkInner {
                    token: std::sync::atomic::AtomicBool::new(false),
                    lock: std::sync::Mutex::new(()),
                    cv: std::sync::Condvar::new(),
                }),
            },
        }
    }

    pub fn unparker(&self) -> &Unparker {
        &self.unparker
    }

    #[track_caller]
    pub fn park(&self) {
        self.park_impl(None, sched::site())
    }

    #[track_caller]
    pub fn park_timeout(&self, timeout: std::time::Duration) {
        let d = crate::time::Instant::peek() + timeout;
        self.park_impl(Some(d), sched::site())
    }

    #[track_caller]
    pub fn park_deadline(&self, deadline: crate::time::Instant) {
        self.park_impl(Some(deadline), sched::site())
    }

    fn park_impl(&self, deadline: Option<crate::time::Instant>, s: u64) {
        use std::sync::atomic::Ordering::SeqCst;
        let inner = &self.unparker.inner;
        if sched::in_sim() {
            let key = std::sync::Arc::as_ptr(inner) as usize as u64;
            let dl = deadline.map(|d| d.sim_ns());
            loop {
                sched::sched_point(s);
                if inner.token.swap(false, SeqCst) {
                    return;
                }
                if let Some(d) = dl {
                    if sched::clock_ns() >= d {
                        return;
                    }
                }
                let _ = sched::block_on(key, dl, s);
            }
        } else {
            let mut g = inner.lock.lock().unwrap_or_else(|e| e.into_inner());
            loop {
                if inner.token.swap(false, SeqCst) {
                    return;
                }
                match deadline {
                    None => g = inner.cv.wait(g).unwrap_or_else(|e| e.into_inner()),
                    Some(d) => {
                        let now = std::time::Instant::now();
                        if now >= d.std() {
                            return;
                        }
                        g = inner
                            .cv
                            .wait_timeout(g, d.std() - now)
                            .unwrap_or_else(|e| e.into_inner())
                            .0;
                    }
                }
            }
        }
    }
}

impl Unparker {
    #[track_caller]
    pub fn unpark(&self) {
        use std::sync::atomic::Ordering::SeqCst;
        if sched::in_sim() {
            sched::sched_point(sched::site());
            self.inner.token.store(true, SeqCst);
            sched::unblock(std::sync::Arc::as_ptr(&self.inner) as usize as u64);
        } else {
            let _g = self.inner.lock.lock().unwrap_or_else(|e| e.into_inner());
            self.inner.token.store(true, SeqCst);
            self.inner.cv.notify_one();
        }
    }
}

impl Clone for Unparker {
    fn clone(&self) -> Self {
        Unparker { inner: self.inner.clone() }
    }
}

impl fmt::Debug for Parker {
    fn fmt(&self, f: &mut fmt::Formatter<'_>) -> fmt::Result {
        f.pad("Parker { .. }")
    }
}
impl fmt::Debug for Unparker {
    fn fmt(&self, f: &mut fmt::Formatter<'_>) -> fmt::Result {
        f.pad("Unparker { .. }")
    }
}

// ------------------------------------------------------------------------------------------
// atomics
// ------------------------------------------------------------------------------------------

pub mod atomic {
    pub use std::sync::atomic::Ordering;

    use crate::sched;

    macro_rules! atomic_int {
        ($name:ident, $std:ty, $t:ty) => {
            #[derive(Debug, Default)]
            pub struct $name($std);
            impl $name {
                pub const fn new(v: $t) -> Self {
                    Self(<$std>::new(v))
                }
                #[track_caller]
                pub fn load(&self, o: Ordering) -> $t {
                    sched::sched_point(sched::site());
                    self.0.load(o)
                }
                #[track_caller]
                pub fn store(&self, v: $t, o: Ordering) {
                    sched::sched_point(sched::site());
                    self.0.store(v, o)
                }
                #[track_caller]
                pub fn swap(&self, v: $t, o: Ordering) -> $t {
                    sched::sched_point(sched::site());
                    self.0.swap(v, o)
                }
                #[track_caller]
                pub fn fetch_add(&self, v: $t, o: Ordering) -> $t {
                    sched::sched_point(sched::site());
                    self.0.fetch_add(v, o)
                }
                #[track_caller]
                pub fn fetch_sub(&self, v: $t, o: Ordering) -> $t {
                    sched::sched_point(sched::site());
                    self.0.fetch_sub(v, o)
                }
                #[track_caller]
                pub fn fetch_max(&self, v: $t, o: Ordering) -> $t {
                    sched::sched_point(sched::site());
                    self.0.fetch_max(v, o)
                }
                #[track_caller]
                pub fn compare_exchange(
                    &self,
                    cur: $t,
                    new: $t,
                    s: Ordering,
                    f: Ordering,
                ) -> Result<$t, $t> {
                    sched::sched_point(sched::site());
                    self.0.compare_exchange(cur, new, s, f)
                }
                #[track_caller]
                pub fn compare_exchange_weak(
                    &self,
                    cur: $t,
                    new: $t,
                    s: Ordering,
                    f: Ordering,
                ) -> Result<$t, $t> {
                    sched::sched_point(sched::site());
                    self.0.compare_exchange(cur, new, s, f)
                }
                pub fn into_inner(self) -> $t {
                    self.0.into_inner()
                }
                pub fn get_mut(&mut self) -> &mut $t {
                    self.0.get_mut()
                }
                /// the wrapped std atomic (no scheduling point)
                pub fn raw(&self) -> &$std {
                    &self.0
                }
            }
        };
    }

    atomic_int!(AtomicU64, std::sync::atomic::AtomicU64, u64);
    atomic_int!(AtomicU32, std::sync::atomic::AtomicU32, u32);
    atomic_int!(AtomicUsize, std::sync::atomic::AtomicUsize, usize);
    atomic_int!(AtomicI64, std::sync::atomic::AtomicI64, i64);

    #[derive(Debug, Default)]
    pub struct AtomicBool(std::sync::atomic::AtomicBool);
    impl AtomicBool {
        pub const fn new(v: bool) -> Self {
            Self(std::sync::atomic::AtomicBool::new(v))
        }
        #[track_caller]
        pub fn load(&self, o: Ordering) -> bool {
            sched::sched_point(sched::site());
            self.0.load(o)
        }
        #[track_caller]
        pub fn store(&self, v: bool, o: Ordering) {
            sched::sched_point(sched::site());
            self.0.store(v, o)
        }
        #[track_caller]
        pub fn swap(&self, v: bool, o: Ordering) -> bool {
            sched::sched_point(sched::site());
            self.0.swap(v, o)
        }
        #[track_caller]
        pub fn compare_exchange(
            &self,
            cur: bool,
            new: bool,
            s: Ordering,
            f: Ordering,
        ) -> Result<bool, bool> {
            sched::sched_point(sched::site());
            self.0.compare_exchange(cur, new, s, f)
        }
        #[track_caller]
        pub fn fetch_or(&self, v: bool, o: Ordering) -> bool {
            sched::sched_point(sched::site());
            self.0.fetch_or(v, o)
        }
        #[track_caller]
        pub fn fetch_and(&self, v: bool, o: Ordering) -> bool {
            sched::sched_point(sched::site());
            self.0.fetch_and(v, o)
        }
    }
}

// ------------------------------------------------------------------------------------------
// mpsc with blocking receive
// ------------------------------------------------------------------------------------------

pub mod mpsc {
    pub use std::sync::mpsc::{RecvError, RecvTimeoutError, SendError, TryRecvError};

    use crate::sched;

    pub struct Sender<T> {
        inner: Option<std::sync::mpsc::Sender<T>>,
        key: std::sync::Arc<u8>,
    }
    pub struct Receiver<T> {
        inner: std::sync::mpsc::Receiver<T>,
        key: std::sync::Arc<u8>,
    }

    fn k(a: &std::sync::Arc<u8>) -> u64 {
        std::sync::Arc::as_ptr(a) as usize as u64
    }

    pub fn channel<T>() -> (Sender<T>, Receiver<T>) {
        let (s, r) = std::sync::mpsc::channel();
        let key = std::sync::Arc::new(0u8);
        (Sender { inner: Some(s), key: key.clone() }, Receiver { inner: r, key })
    }

    impl<T> Sender<T> {
        #[track_caller]
        pub fn send(&self, t: T) -> Result<(), SendError<T>> {
            sched::sched_point(sched::site());
            let r = self.inner.as_ref().unwrap().send(t);
            if sched::in_sim() {
                sched::unblock(k(&self.key));
            }
            r
        }
    }

    impl<T> Clone for Sender<T> {
        fn clone(&self) -> Self {
            Sender { inner: self.inner.clone(), key: self.key.clone() }
        }
    }

    impl<T> Drop for Sender<T> {
        fn drop(&mut self) {
            sched::sched_point(sched::site());
            self.inner.take();
            if sched::in_sim() {
                // the receiver re-checks and sees Disconnected if this was the last sender
                sched::unblock(k(&self.key));
            }
        }
    }

    impl<T> Receiver<T> {
        #[track_caller]
        pub fn try_recv(&self) -> Result<T, TryRecvError> {
            sched::sched_point(sched::site());
            self.inner.try_recv()
        }

        #[track_caller]
        pub fn recv(&self) -> Result<T, RecvError> {
            if !sched::in_sim() {
                return self.inner.recv();
            }
            let s = sched::site();
            loop {
                sched::sched_point(s);
                match self.inner.try_recv() {
                    Ok(v) => return Ok(v),
                    Err(TryRecvError::Disconnected) => return Err(RecvError),
                    Err(TryRecvError::Empty) => {
                        let _ = sched::block_on(k(&self.key), None, s);
                    }
                }
            }
        }

        /// non-blocking drain (each step is a scheduling point)
        pub fn try_iter(&self) -> impl Iterator<Item = T> + '_ {
            std::iter::from_fn(move || self.try_recv().ok())
        }

        /// blocking iteration until every sender is gone
        pub fn iter(&self) -> impl Iterator<Item = T> + '_ {
            std::iter::from_fn(move || self.recv().ok())
        }

        #[track_caller]
        pub fn recv_timeout(&self, timeout: std::time::Duration) -> Result<T, RecvTimeoutError> {
            if !sched::in_sim() {
                return self.inner.recv_timeout(timeout);
            }
            let s = sched::site();
            let deadline = sched::clock_ns()
                .saturating_add(timeout.as_nanos().min(u64::MAX as u128) as u64);
            loop {
                sched::sched_point(s);
                match self.inner.try_recv() {
                    Ok(v) => return Ok(v),
                    Err(TryRecvError::Disconnected) => return Err(RecvTimeoutError::Disconnected),
                    Err(TryRecvError::Empty) => {
                        if sched::clock_ns() >= deadline {
                            return Err(RecvTimeoutError::Timeout);
                        }
                        let _ = sched::block_on(k(&self.key), Some(deadline), s);
                    }
                }
            }
        }
    }
}
