#!/bin/bash
# One-time setup after a fresh restore: generate the shadow workspace and build everything offline.
set -eu
cd "$(dirname "$0")"
export CARGO_NET_OFFLINE=true
mkdir -p target evidence replays
python3 tools/gen_shadow.py "${VERIF_REPO:-/repo}" "$(pwd)/shadow"
cargo build --offline -p verif-harness 2>&1 | tail -3
# the same harness without debug assertions (a fifth of the runs of every check execute under it)
cargo build --offline -p verif-harness --profile nodebug 2>&1 | tail -1
