#!/bin/bash
# One-time setup after a fresh restore: generate the shadow workspace and build everything offline.
set -eu
cd "$(dirname "$0")"
export CARGO_NET_OFFLINE=true
mkdir -p target evidence replays
python3 tools/gen_shadow.py "${VERIF_REPO:-/repo}" "$(pwd)/shadow"
cargo build --offline -p verif-harness 2>&1 | tail -3
