//! verif-sim: deterministic-simulation checks for awslabs/metrique (see /verif/DESIGN.md).
//!
//!   verif-sim check <PROP> --tier quick|thorough      orchestrate workers, minimise, evidence
//!   verif-sim worker ...                              (internal) run a range of run indices
//!   verif-sim replay <file> [--quiet] [--trace] [--emit <out.json>]
//!   verif-sim selftest-determinism [--runs N]
//!   verif-sim one <PROP> <index>                      run one index verbosely

mod common;
mod driver;
mod framework;
mod registry;
mod scen_agg;
mod scen_bridge;
mod scen_emf;
mod scen_global;
mod scen_hist;
mod scen_queue;
mod scen_sample;
mod scen_time;
mod scen_uow;

fn main() {
    let args: Vec<String> = std::env::args().collect();
    std::panic::set_hook(Box::new(|info| {
        // simulated threads panic on purpose in some scenarios (caught per operation); keep
        // stderr quiet unless asked
        if let Ok(mut g) = driver::LAST_PANIC.lock() {
            *g = info.location().map(|l| format!("{}:{}", l.file(), l.line()));
        }
        // a panic outside any simulation is the harness's own (driver, worker bookkeeping): never silent
        // (panics the harness raises on purpose as injected faults carry a "harness:" payload)
        let injected = info.payload().downcast_ref::<&str>().map(|s| s.starts_with("harness:")).unwrap_or(false);
        if std::env::var_os("VERIF_PANIC_VERBOSE").is_some() || (!detsim::in_sim() && !injected) {
            eprintln!("panic: {info}");
        }
    }));
    let code = driver::main(&args);
    std::process::exit(code);
}
