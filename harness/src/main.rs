//! verif-sim: deterministic-simulation checks for awslabs/metrique (see /verif/DESIGN.md).
//!
//!   verif-sim check <PROP> --tier quick|thorough      orchestrate workers, minimise, evidence
//!   verif-sim worker ...                              (internal) run a range of run indices
//!   verif-sim replay <file> [--quiet] [--trace] [--emit <out.json>]
//!   verif-sim selftest-determinism [--runs N]
//!   verif-sim one <PROP> <index>                      run one index verbosely

mod common;
mod driver;
mod framework;
mod registry;
mod scen_agg;
mod scen_bridge;
mod scen_emf;
mod scen_global;
mod scen_hist;
mod scen_queue;
mod scen_sample;
mod scen_time;
mod scen_uow;

fn main() {
    let args: Vec<String> = std::env::args().collect();
    std::panic::set_hook(Box::new(|info| {
        // simulated threads panic on purpose in some scenarios (caught per operation); keep
        // stderr quiet unless asked
        if let Ok(mut g) = driver::LAST_PANIC.lock() {
            *g = info.location().map(|l| format!("{}:{}", l.file(), l.line()));
        }
        // a panic outside any simulation is the harness's own (driver, worker bookkeeping): never silent
        // (panics the harness raises on purpose as injected faults carry a "harness:" payload)
        let injected = info.payload().downcast_ref::<&str>().map(|s| s.starts_with("harness:")).unwrap_or(false);
        if std::env::var_os("VERIF_PANIC_VERBOSE").is_some() || (!detsim::in_sim() && !injected) {
            eprintln!("panic: {info}");
        }
    }));
    let code = driver::main(&args);
    std::process::exit(code);
}

/// Seam for OS randomness: with `--cfg getrandom_backend="custom"` the `getrandom` crate (v0.3) asks this function
/// instead of the kernel. Every request gets the same bytes, so nothing seeded from it (ahash's process-wide keys,
/// hence the hashes of `metrics` keys and the iteration order of the metrics-util registry; thread RNG seeds) differs
/// from one process to the next. Randomness that matters to a run comes from the run's seed, never from here.
#[unsafe(no_mangle)]
unsafe extern "Rust" fn __getrandom_v03_custom(dest: *mut u8, len: usize) -> Result<(), getrandom::Error> {
    for i in 0..len {
        // (a fixed, non-trivial pattern: splitmix64 of the byte's index)
        let mut z = (i as u64 / 8).wrapping_add(0x9E37_79B9_7F4A_7C15);
        z = (z ^ (z >> 30)).wrapping_mul(0xBF58_476D_1CE4_E5B9);
        z = (z ^ (z >> 27)).wrapping_mul(0x94D0_49BB_1331_11EB);
        z ^= z >> 31;
        unsafe { *dest.add(i) = (z >> ((i % 8) * 8)) as u8 };
    }
    Ok(())
}
