//! The background-queue system under simulation (properties C01, C04, C05, C09, C16b).
//!
//! Real code: BackgroundQueueBuilder / BackgroundQueue / BackgroundQueueJoinHandle / Receiver /
//! WakerTracker / BoxEntrySink / FlushWait, crossbeam ArrayQueue (atomic steps), tokio oneshot,
//! std mpsc flush channel. Harness: producers, flushers, the recording stream, the oracles.

use std::collections::{BTreeMap, HashMap, HashSet};
use std::future::Future;
use std::pin::Pin;
use std::sync::atomic::{AtomicBool, AtomicU64, Ordering};
use std::sync::{Arc, Mutex};
use std::task::{Context, Poll, Wake, Waker};
use std::time::Duration;

use detsim::rng::{mix, Rng};
use metrique_writer::sink::{BackgroundQueue, BackgroundQueueBuilder, BackgroundQueueJoinHandle};
use metrique_writer::{AnyEntrySink, BoxEntrySink, EntrySink};
use metrique_writer_core::sink::FlushWait;
use serde_json::{json, Value};

use crate::common::*;
use crate::framework::*;

#[derive(Clone)]
pub enum Handle {
    Typed(BackgroundQueue<IdEntry>),
    Boxed(BoxEntrySink),
}

impl Handle {
    pub fn append(&self, id: u64) {
        match self {
            Handle::Typed(q) => q.append(IdEntry(id)),
            Handle::Boxed(b) => b.append_any(IdEntry(id)),
        }
    }
    /// An append-on-drop guard around entry `id`, consumed as told: "drop" appends it, "into_entry" and "forget"
    /// do not (and must give back the handle clone the guard holds).
    pub fn guard(&self, id: u64, how: &str) {
        fn consume<Q: EntrySink<IdEntry> + Clone>(q: &Q, id: u64, how: &str) {
            let mut g = q.append_on_drop(IdEntry(0));
            detsim::yield_point();
            g.0 = id; // mutate through the guard
            match how {
                "into_entry" => drop(g.into_entry()),
                "forget" => g.forget(),
                _ => drop(g),
            }
        }
        match self {
            Handle::Typed(q) => consume(q, id, how),
            Handle::Boxed(b) => consume(b, id, how),
        }
    }
    pub fn flush(&self) -> FlushWait {
        // every third request goes through the handle as applications often hold it: behind an `Arc` (method
        // resolution must end at the queue's own flush) or behind a shared reference; which one is decided by the
        // run's own choice counter (deterministic per run)
        let turn = detsim::choices();
        match self {
            Handle::Typed(q) if turn % 3 == 1 => {
                let a = Arc::new(q.clone());
                a.flush_async()
            }
            Handle::Typed(q) if turn % 3 == 2 => (&q).flush_async(),
            Handle::Typed(q) => EntrySink::<IdEntry>::flush_async(q),
            Handle::Boxed(b) => AnyEntrySink::flush_async(b),
        }
    }
}

/// Everything the oracles need after a run.
#[derive(Default, Clone)]
pub struct QueueRun {
    pub hist: Vec<Ev>,
    pub counters: BTreeMap<String, u64>,
    pub writer_tid: Option<usize>,
    pub writer_finished_at_end: bool,
    pub stream_dropped_at_end: bool,
    pub append_while_writer_parked: u64,
    pub flush_while_writer_parked: u64,
    pub completed: bool,
}

struct FlushWaker {
    key: u64,
    woken: AtomicBool,
    wakes: AtomicU64,
    nexts_at_wake: AtomicU64,
    ctl: Arc<StreamCtl>,
    /// the request this waker waits for, and where to note the moment it is woken
    fid: u64,
    hist: History,
    /// Some: what this waker does, once, on whichever thread wakes it, before it reports the wake-up (an executor
    /// that polls inline, a task that asks for the next flush as soon as the last one is through)
    chain: std::sync::Mutex<Option<Box<dyn FnOnce() + Send>>>,
}

impl Wake for FlushWaker {
    fn wake(self: Arc<Self>) {
        self.wake_by_ref()
    }
    fn wake_by_ref(self: &Arc<Self>) {
        // called synchronously by whoever completes the flush (the writer thread): remember how
        // far the stream had got at that moment
        self.hist.log(K::Note(format!("flush_woken:{}", self.fid)));
        let chained = self.chain.lock().ok().and_then(|mut g| g.take());
        if let Some(f) = chained {
            f();
        }
        self.nexts_at_wake.store(self.ctl.nexts_done.load(Ordering::SeqCst), Ordering::SeqCst);
        self.wakes.fetch_add(1, Ordering::SeqCst);
        self.woken.store(true, Ordering::SeqCst);
        detsim::unblock(self.key);
    }
}

struct Shared {
    /// flush futures that were polled once and are then kept alive, un-awaited, to the end of the run
    held: Mutex<Vec<FlushWait>>,
    /// Some: appends run under this thread-local `metrics` recorder (global-recorder bridge)
    tl_recorder: Option<CountingRecorder>,
    live_bound: u64,
    /// plan key `children_every` (0 = no entry has a child) and a handle on this very structure for the children
    children_every: u64,
    me: Mutex<Option<Arc<Shared>>>,
    /// threads that await a flush future somebody else requested (joined at the end of the run)
    awaiters: Mutex<Vec<detsim::thread::JoinHandle<()>>>,
    /// the plan's schedule seed: decides per flush request whether the future migrates between wakers
    run_key: u64,
    hist: History,
    ctl: Arc<StreamCtl>,
    stop: AtomicBool,
    next_fid: AtomicU64,
    writer_tid: Mutex<Option<usize>>,
    append_while_parked: AtomicU64,
    flush_while_parked: AtomicU64,
}

fn writer_parked(sh: &Shared) -> bool {
    if let Some(t) = *sh.writer_tid.lock().unwrap() {
        let (blocked, _fin, _site) = detsim::thread_status(t);
        blocked
    } else {
        false
    }
}

fn do_append(sh: &Shared, h: &Handle, thread: u64, seq: &mut u64) {
    do_append_opt(sh, h, thread, seq, false)
}

/// `bare`: without the thread-local metrics recorder even if the run has one (an append made
/// before any recorder is installed: its overflow, if any, is reported to nobody)
fn do_append_opt(sh: &Shared, h: &Handle, thread: u64, seq: &mut u64, bare: bool) {
    let id = entry_id(thread, *seq);
    *seq += 1;
    // plan key `children_every`: every k-th entry of a producer owns a child entry, which its destructor appends to
    // the same queue - wherever that destructor runs (the writer thread after the write, or the thread whose append
    // displaces the parent from a full queue)
    if sh.children_every > 0 && thread < 400 && id_seq(id) % sh.children_every == 0 {
        if let Some(me) = sh.me.lock().unwrap().clone() {
            let h2 = h.clone();
            let child_thread = 400 + thread;
            let child_seq = id_seq(id);
            if let Ok(mut g) = crate::common::ON_ENTRY_DROP.lock() {
                g.get_or_insert_with(HashMap::new).insert(id, Box::new(move || {
                    let mut s = child_seq;
                    do_append(&me, &h2, child_thread, &mut s);
                }));
            }
        }
    }
    let me = detsim::current_tid().unwrap();
    if writer_parked(sh) {
        sh.append_while_parked.fetch_add(1, Ordering::SeqCst);
    }
    let b0 = detsim::blocked_count(me);
    sh.hist.log(K::AppendBegin { id });
    crate::driver::IN_APPEND.fetch_add(1, Ordering::SeqCst);
    let r = std::panic::catch_unwind(std::panic::AssertUnwindSafe(|| match &sh.tl_recorder {
        Some(rec) if !bare => metrics::with_local_recorder(rec, || h.append(id)),
        _ => h.append(id),
    }));
    crate::driver::IN_APPEND.fetch_sub(1, Ordering::SeqCst);
    let blocked = detsim::blocked_count(me) != b0;
    sh.hist.log(K::AppendEnd { id, blocked, panicked: r.is_err() });
}

/// One flush request. Modes: "await" (wait for completion), "cancel" (poll once, drop),
/// "try" (wait at most `ns` of simulated time, then drop), "bounded" (liveness: give up once
/// the stream has completed more than `bound` further `next` calls without the flush being
/// woken; the count is taken at the moment of the wake-up, so a starved requester thread
/// cannot cause a false alarm).
fn do_flush(sh: &Shared, h: &Handle, op: &Value) {
    let fid = sh.next_fid.fetch_add(1, Ordering::SeqCst);
    if writer_parked(sh) {
        sh.flush_while_parked.fetch_add(1, Ordering::SeqCst);
    }
    let start_nexts = sh.ctl.nexts_done.load(Ordering::SeqCst);
    sh.hist.log(K::FlushReq { fid });
    let fut = h.flush();
    // an eighth of the awaited requests: the waker itself asks for the next flush, through a handle of its own, on the
    // thread that wakes it (the writer thread, inside its completion of this request); that second request is kept
    // alive, un-awaited, to the end of the run
    let chain: Option<Box<dyn FnOnce() + Send>> = if js(op, "mode", "await") == "await" && mix(sh.run_key, fid ^ 0xC4A1_77) % 8 == 0 {
        sh.me.lock().unwrap().clone().map(|shc| {
            let hc = h.clone();
            Box::new(move || {
                let fid2 = shc.next_fid.fetch_add(1, Ordering::SeqCst);
                shc.hist.log(K::FlushReq { fid: fid2 });
                let f = hc.flush();
                shc.held.lock().unwrap().push(f);
                shc.hist.log(K::FlushCancelled { fid: fid2 });
                shc.hist.log(K::Note("flush_requested_from_inside_a_waker".into()));
            }) as Box<dyn FnOnce() + Send>
        })
    } else {
        None
    };
    drive_flush(sh, fid, fut, op, start_nexts, chain);
}

/// Wait for (or abandon) a flush request that has been made, as `op` says.
fn drive_flush(sh: &Shared, fid: u64, fut: FlushWait, op: &Value, start_nexts: u64, chain: Option<Box<dyn FnOnce() + Send>>) {
    let mode = js(op, "mode", "await");
    let mut fut = fut;
    let chain = std::cell::RefCell::new(chain);
    let new_waker = || {
        Arc::new(FlushWaker {
            key: detsim::fresh_key(),
            woken: AtomicBool::new(false),
            wakes: AtomicU64::new(0),
            nexts_at_wake: AtomicU64::new(0),
            ctl: sh.ctl.clone(),
            fid,
            hist: sh.hist.clone(),
            // (a migrating future: the latest waker has it)
            chain: std::sync::Mutex::new(None),
        })
    };
    // a quarter of the requests: the future is handed from task to task while it is pending - every poll comes with
    // a waker of its own, and only the waker of the *latest* poll is ever waited on
    let migrate = mix(sh.run_key, fid) % 4 == 0;
    let mut fw = new_waker();
    let bound = sh.live_bound;
    let slice_ns = ju(op, "slice_ns", 10_000).max(1);
    let deadline = op.get("ns").and_then(|x| x.as_u64()).map(|ns| detsim::clock_ns() + ns);
    let mut first = true;
    let mut polls = 0u64;
    loop {
        detsim::yield_point();
        if migrate && !first {
            let carried = fw.chain.lock().unwrap().take();
            fw = new_waker();
            *chain.borrow_mut() = carried;
            sh.hist.log(K::Note("flush_future_polled_with_another_waker".into()));
        }
        if let Some(c) = chain.borrow_mut().take() {
            *fw.chain.lock().unwrap() = Some(c);
        }
        let waker = Waker::from(fw.clone());
        let mut cx = Context::from_waker(&waker);
        fw.woken.store(false, Ordering::SeqCst);
        polls += 1;
        if let Poll::Ready(()) = Pin::new(&mut fut).poll(&mut cx) {
            let waited = if fw.wakes.load(Ordering::SeqCst) > 0 {
                fw.nexts_at_wake.load(Ordering::SeqCst).saturating_sub(start_nexts)
            } else {
                0
            };
            if mode == "bounded" && waited > bound {
                sh.hist.log(K::FlushGaveUp { fid, nexts_waited: waited });
            } else {
                sh.hist.log(K::FlushDone { fid, first_poll: first });
            }
            return;
        }
        first = false;
        if fw.woken.load(Ordering::SeqCst) {
            continue; // woken during the poll
        }
        match mode {
            "cancel" => {
                drop(fut);
                sh.hist.log(K::FlushCancelled { fid });
                return;
            }
            "hold" => {
                // neither awaited nor dropped: the future stays alive until the end of the run
                sh.held.lock().unwrap().push(fut);
                sh.hist.log(K::FlushCancelled { fid });
                return;
            }
            "bounded" => {
                let n = sh.ctl.nexts_done.load(Ordering::SeqCst).saturating_sub(start_nexts);
                if n > bound {
                    sh.hist.log(K::FlushGaveUp { fid, nexts_waited: n });
                    return;
                }
                let _ = detsim::block_on_key(fw.key, Some(detsim::clock_ns() + slice_ns), detsim::site());
            }
            "idle" => {
                // the queue is idle (nothing appended yet, nobody else there): the writer gets eight full park cycles
                // (each: one flush interval and an allowance of simulated time, then the chance to run until it
                // blocks again) to serve the request. The code as written needs one.
                if polls > 8 {
                    drop(fut);
                    sh.hist.log(K::FlushCancelled { fid });
                    sh.hist.log(K::Note(format!("idle_flush_never_completed:{fid}")));
                    return;
                }
                let cycle = ju(op, "cycle_ns", 1_000_000_000);
                if let detsim::Wake::TimedOut = detsim::block_on_key(fw.key, Some(detsim::clock_ns() + cycle), detsim::site()) {
                    if let Some(w) = *sh.writer_tid.lock().unwrap() {
                        let mut guard = 0;
                        loop {
                            let (blocked, finished, _) = detsim::thread_status(w);
                            if blocked || finished || guard >= 20_000 {
                                break;
                            }
                            detsim::sleep_ns(1_000);
                            guard += 1;
                        }
                    }
                }
            }
            "try" => {
                let d = deadline.unwrap_or(0);
                if detsim::clock_ns() >= d {
                    drop(fut);
                    sh.hist.log(K::FlushCancelled { fid });
                    return;
                }
                let _ = detsim::block_on_key(fw.key, Some(d), detsim::site());
            }
            _ => {
                // a migrating future is first waited on for a short while only (the task it is part of does
                // something else, a `select!` arm fires): it is then polled again, pending, with the next waker
                let slice = if migrate && polls <= 2 { Some(detsim::clock_ns() + slice_ns * polls) } else { None };
                let _ = detsim::block_on_key(fw.key, slice, detsim::site());
            }
        }
    }
}

/// Entries a thread appends from the destructor of one of its thread-locals, while it exits.
struct ExitAppend {
    sh: Arc<Shared>,
    h: Option<Handle>,
    thread: u64,
    seq: u64,
    n: u64,
}
impl Drop for ExitAppend {
    fn drop(&mut self) {
        if let Some(h) = self.h.take() {
            for _ in 0..self.n {
                do_append(&self.sh, &h, self.thread, &mut self.seq);
            }
            drop(h);
            self.sh.hist.log(K::HandleCloneDropped);
            self.sh.hist.log(K::Note("append_from_a_thread_local_destructor".into()));
        }
    }
}
thread_local! {
    static EXIT_APPENDS: std::cell::RefCell<Vec<ExitAppend>> = std::cell::RefCell::new(Vec::new());
}

fn run_ops(sh: &Arc<Shared>, h: &Handle, thread: u64, ops: &[Value]) {
    let mut seq = 0u64;
    if ops.iter().any(|o| js(o, "op", "") == "append_at_exit") {
        // (the thread-local exists before this thread's first append: whatever the library keeps per thread is younger)
        EXIT_APPENDS.with(|c| c.borrow_mut().reserve(1));
    }
    for op in ops {
        match js(op, "op", "") {
            "append_at_exit" => {
                let n = ju(op, "n", 1);
                EXIT_APPENDS.with(|c| c.borrow_mut().push(ExitAppend { sh: sh.clone(), h: Some(h.clone()), thread, seq, n }));
                seq += n;
            }
            "append" if jb(op, "unwinding", false) => {
                // every append is made by a destructor that runs while the thread unwinds from a panic
                // (`std::thread::panicking()` is true inside the sink): an entry appended that way counts like any other
                for _ in 0..ju(op, "n", 1) {
                    struct OnDrop<F: FnMut()>(F);
                    impl<F: FnMut()> Drop for OnDrop<F> {
                        fn drop(&mut self) {
                            (self.0)()
                        }
                    }
                    let _ = std::panic::catch_unwind(std::panic::AssertUnwindSafe(|| {
                        let _g = OnDrop(|| do_append(sh, h, thread, &mut seq));
                        std::panic::resume_unwind(Box::new("harness: unwinding through a scope whose destructor appends"));
                    }));
                }
                sh.hist.log(K::Note("append_while_unwinding".into()));
            }
            "append" => {
                for _ in 0..ju(op, "n", 1) {
                    do_append(sh, h, thread, &mut seq);
                }
            }
            "append_bare" => {
                for _ in 0..ju(op, "n", 1) {
                    do_append_opt(sh, h, thread, &mut seq, true);
                }
            }
            "guard" => {
                let how = js(op, "how", "drop");
                if how == "drop" {
                    let id = entry_id(thread, seq);
                    seq += 1;
                    sh.hist.log(K::AppendBegin { id });
                    let r = std::panic::catch_unwind(std::panic::AssertUnwindSafe(|| h.guard(id, how)));
                    sh.hist.log(K::AppendEnd { id, blocked: false, panicked: r.is_err() });
                } else {
                    // never appended: an id that no append uses (the stream must never see it)
                    h.guard(entry_id(thread, 900_000 + seq), how);
                }
            }
            "flush" => do_flush(sh, h, op),
            "sleep" => detsim::sleep_ns(ju(op, "ns", 0)),
            "gate" => sh.ctl.gate.add(ji(op, "n", 1)),
            "gate_open" => sh.ctl.gate.open_forever(),
            "wait_next_started" => {
                // until the writer is inside its n-th `next` call (bounded: 10 s of simulated time)
                let n = ju(op, "n", 1);
                let mut polls = 0;
                while sh.ctl.nexts_started.load(Ordering::SeqCst) < n && polls < 10_000 {
                    detsim::sleep_ns(1_000_000);
                    polls += 1;
                }
            }
            "wait_writer_idle" => {
                // until the writer thread is parked and the stream has not been called for a whole flush interval
                // (every producer has finished by now, so a parked writer means an empty queue); bounded
                let step = ju(op, "ns", 1_000_000).max(1_000);
                let mut last = u64::MAX;
                for _ in 0..20_000 {
                    let done = sh.ctl.nexts_done.load(Ordering::SeqCst);
                    if writer_parked(sh) && done == last {
                        break;
                    }
                    last = done;
                    detsim::sleep_ns(step);
                }
            }
            "gate_open_after" => {
                let ctl = sh.ctl.clone();
                let ns = ju(op, "ns", 0);
                // (the helper is joined by nobody: it ends on its own long before the run does)
                let _ = detsim::thread::spawn_named("gate-opener", move || {
                    detsim::sleep_ns(ns);
                    ctl.gate.open_forever();
                });
            }
            "yield" => detsim::yield_point(),
            "clone_churn" => {
                let c = h.clone();
                detsim::yield_point();
                drop(c);
                sh.hist.log(K::HandleCloneDropped);
            }
            "stop_faults" => detsim::stop_faults(),
            "flush_storm" => {
                // a steady stream of further flush requests (one per completed stream write),
                // each polled once and then abandoned, until told to stop
                let max = ju(op, "max", 1_000);
                let mut n = 0;
                while !sh.stop.load(Ordering::SeqCst) && n < max {
                    do_flush(sh, h, &json!({"mode": "cancel"}));
                    n += 1;
                    let _ = detsim::block_on_key(sh.ctl.next_key, Some(detsim::clock_ns() + 1_000_000_000), detsim::site());
                }
            }
            "pressure" => {
                // keep the queue non-empty without overflowing it, until told to stop
                let target = ju(op, "target", 2).max(1);
                let max = ju(op, "max", 2_000);
                let mut appended = 0u64;
                let base = sh.ctl.entry_nexts_done.load(Ordering::SeqCst);
                let others = ju(op, "others_in_flight", 0);
                while !sh.stop.load(Ordering::SeqCst) && appended < max {
                    // entries taken out of the queue so far (the in-band report is not one)
                    let done = sh.ctl.entry_nexts_done.load(Ordering::SeqCst) - base;
                    let outstanding = (appended + others).saturating_sub(done.min(appended + others));
                    if outstanding < target {
                        do_append(sh, h, thread, &mut seq);
                        appended += 1;
                    } else {
                        let _ = detsim::block_on_key(
                            sh.ctl.next_key,
                            Some(detsim::clock_ns() + 1_000_000_000),
                            detsim::site(),
                        );
                    }
                }
            }
            _ => {}
        }
    }
}

fn count_appends(ops: &[Value]) -> u64 {
    ops.iter().filter(|o| matches!(js(o, "op", ""), "append" | "append_bare" | "append_at_exit") || (js(o, "op", "") == "guard" && js(o, "how", "drop") == "drop")).map(|o| ju(o, "n", 1)).sum()
}

fn count_bare_appends(plan: &Value) -> u64 {
    let mut n = 0;
    for key in ["main_ops", "pre_end", "post"] {
        n += ja(plan, key).iter().filter(|o| js(o, "op", "") == "append_bare").map(|o| ju(o, "n", 1)).sum::<u64>();
    }
    for p in ja(plan, "producers") {
        n += p.as_array().map(|a| a.as_slice()).unwrap_or(&[]).iter().filter(|o| js(o, "op", "") == "append_bare").map(|o| ju(o, "n", 1)).sum::<u64>();
    }
    n
}

/// Forget path: simulated time of one settle cycle: one flush interval + generous per-entry
/// processing time.
pub fn forget_settle_ns(plan: &Value) -> u64 {
    let interval = ju(plan, "flush_interval_ns", 1_000_000_000).clamp(1, 59_999_999_999);
    let mut entries = count_appends(ja(plan, "main_ops")) + count_appends(ja(plan, "post")) + count_appends(ja(plan, "pre_end"));
    for p in ja(plan, "producers") {
        entries += count_appends(p.as_array().map(|a| a.as_slice()).unwrap_or(&[]));
    }
    interval + 2 * (entries + 4) * (ju(plan, "next_cost_ns", 0) + 1_000_000) + 1_000_000
}

/// Liveness bound in completed stream writes (DESIGN.md C04): 4 x (capacity + 2F + 64) with
/// F = ceil(flush_interval / cost of one write). None if a write costs no simulated time.
pub fn liveness_bound(plan: &Value) -> Option<u64> {
    let cost = ju(plan, "next_cost_ns", 0);
    if cost == 0 {
        return None;
    }
    let interval = ju(plan, "flush_interval_ns", 1_000_000_000).clamp(1, 59_999_999_999);
    let f = interval.div_ceil(cost);
    let cap = ju(plan, "capacity", 64).max(1);
    Some(4 * (cap + 2 * f + 64))
}

fn has_pressure(ops: &[Value]) -> bool {
    ops.iter().any(|o| matches!(js(o, "op", ""), "pressure" | "flush_storm"))
}

/// Execute a queue plan inside the simulator. Returns None in `slot` only if the plan is invalid.
pub fn run_queue_plan(plan: &Value) -> (detsim::Outcome, Option<QueueRun>) {
    let sched = sched_from_plan(plan);
    let plan = plan.clone();
    let slot: Arc<Mutex<Option<QueueRun>>> = Arc::new(Mutex::new(None));
    let slot2 = slot.clone();
    // (only where every lock the code under test holds while it reports an error is a simulated one)
    crate::common::SLOW_SUBSCRIBER_ON.store(true, Ordering::SeqCst);
    let (out, _) = detsim::run(sched, move || queue_main(&plan, slot2));
    crate::common::SLOW_SUBSCRIBER_ON.store(false, Ordering::SeqCst);
    let r = slot.lock().unwrap().take();
    (out, r)
}

fn queue_main(plan: &Value, slot: Arc<Mutex<Option<QueueRun>>>) {
    let hist = History::new();
    let (mut stream, ctl) = RecStream::new(0, hist.clone(), ji(plan, "gate", -1));
    stream.next_cost_ns = ju(plan, "next_cost_ns", 0);
    stream.report_res = Res::from_str(js(plan, "report_res", "O"));
    stream.flush_fail = ja(plan, "flush_fail").iter().filter_map(|x| x.as_u64()).collect();
    stream.flush_fail_from = plan.get("flush_fail_from").and_then(|x| x.as_u64());
    stream.fail_all = plan.get("fail_all").and_then(|x| x.as_str()).map(Res::from_str);
    stream.fail_all_from = ju(plan, "fail_all_from", 0);
    stream.fail_all_until = ju(plan, "fail_all_until", u64::MAX);
    stream.install_subscriber_at = plan.get("writer_subscriber_at").and_then(|x| x.as_u64());
    for s in ja(plan, "script") {
        if let Some(a) = s.as_array() {
            if a.len() == 3 {
                let id = entry_id(a[0].as_u64().unwrap_or(0), a[1].as_u64().unwrap_or(0));
                stream.script.insert(id, Res::from_str(a[2].as_str().unwrap_or("O")));
            }
        }
    }
    let stream_cb = stream.on_entry_next.clone();
    let recorder = CountingRecorder::default();
    let capacity = ju(plan, "capacity", 64).max(1) as usize;
    let flush_interval = ju(plan, "flush_interval_ns", 1_000_000_000).clamp(1, 59_999_999_999);
    // plan key `default_capacity`: the capacity is left at the documented default of 64 * 1024 entries
    let mut b = BackgroundQueueBuilder::new();
    if !jb(plan, "default_capacity", false) {
        b = b.capacity(capacity);
    }
    let mut b = b
        .thread_name("bgq")
        .metric_name("q")
        .flush_interval(Duration::from_nanos(flush_interval))
        .shutdown_timeout(match ju(plan, "shutdown_timeout_huge", 0) {
            // "wait as long as it takes", spelled the ways a caller would spell it
            1 => Duration::MAX,
            2 => Duration::from_secs(u64::MAX / 2),
            3 => Duration::from_secs(1 << 62),
            _ => Duration::from_nanos(ju(plan, "shutdown_timeout_ns", 1_000_000_000_000_000).max(1)),
        });
    let global_tl = jb(plan, "recorder", false) && js(plan, "recorder_kind", "local") == "global_tl";
    if global_tl {
        // the "global recorder" bridge resolves the recorder at every call through the `metrics`
        // macros: thread-local recorder first. Warm-up: another queue overflows once under a
        // different recorder, so that anything cached across queues / recorders shows in this run
        // (and not only in the second such run of a process).
        let warm = CountingRecorder::default();
        let (ws, _wctl) = RecStream::new(9, History::new(), 0);
        let (wq, wj) = BackgroundQueueBuilder::new()
            .capacity(1)
            .thread_name("warmup")
            .metric_name("warmup")
            .flush_interval(Duration::from_secs(50))
            .metrics_recorder_global::<dyn metrics::Recorder>()
            .build::<IdEntry>(ws);
        metrics::with_local_recorder(&warm, || {
            for i in 0..3 {
                wq.append(IdEntry(entry_id(999, i)));
            }
        });
        _wctl.gate.open_forever();
        drop(wj);
        drop(wq);
        b = b.metrics_recorder_global::<dyn metrics::Recorder>();
    } else if jb(plan, "recorder", false) {
        b = b.metrics_recorder_local::<dyn metrics::Recorder, _>(recorder.clone());
    }
    let (handle, join): (Handle, BackgroundQueueJoinHandle) = if jb(plan, "boxed", false) {
        let (s, j) = b.build_boxed(stream);
        (Handle::Boxed(s), j)
    } else {
        let (q, j) = b.build::<IdEntry>(stream);
        (Handle::Typed(q), j)
    };
    let sh = Arc::new(Shared {
        held: Mutex::new(vec![]),
        tl_recorder: if global_tl { Some(recorder.clone()) } else { None },
        live_bound: liveness_bound(plan).unwrap_or(u64::MAX),
        run_key: ju(plan.get("sched").unwrap_or(&Value::Null), "seed", 0),
        awaiters: Mutex::new(vec![]),
        children_every: ju(plan, "children_every", 0),
        me: Mutex::new(None),
        hist: hist.clone(),
        ctl: ctl.clone(),
        stop: AtomicBool::new(false),
        next_fid: AtomicU64::new(0),
        writer_tid: Mutex::new(detsim::find_thread("bgq")),
        append_while_parked: AtomicU64::new(0),
        flush_while_parked: AtomicU64::new(0),
    });
    let writer_tid = *sh.writer_tid.lock().unwrap();
    *sh.me.lock().unwrap() = Some(sh.clone());
    if let Ok(mut g) = crate::common::ON_ENTRY_DROP.lock() {
        *g = Some(HashMap::new());
    }

    // re-entrant use of the queue from inside its own collaborators (ids in their own spaces)
    thread_local! {
        static NESTED: std::cell::Cell<bool> = const { std::cell::Cell::new(false) };
    }
    let on_next_cb = stream_cb;
    if let Some(at) = plan.get("append_from_next_at").and_then(|x| x.as_u64()) {
        // the stream appends one entry to the very queue that is writing to it, from inside `next`
        let (sh2, h2) = (sh.clone(), handle.clone());
        let seq = AtomicU64::new(0);
        on_next_cb.set(move |idx: u64| {
            if idx == at {
                let mut s = seq.fetch_add(1, Ordering::SeqCst);
                do_append(&sh2, &h2, 600, &mut s);
            }
        });
    }
    if let Some(at) = plan.get("flush_from_next_at").and_then(|x| x.as_u64()) {
        // the stream requests a flush of the very queue that is writing to it, from inside `next` - i.e. on the
        // queue's own writer thread - and hands the future to another thread, which awaits it
        let sh2 = sh.clone();
        let h2 = handle.clone();
        on_next_cb.set(move |idx: u64| {
            if idx == at {
                let fid = sh2.next_fid.fetch_add(1, Ordering::SeqCst);
                let start_nexts = sh2.ctl.nexts_done.load(Ordering::SeqCst);
                sh2.hist.log(K::FlushReq { fid });
                sh2.hist.log(K::Note("flush_requested_on_the_writer_thread".into()));
                let fut = h2.flush();
                let sh3 = sh2.clone();
                let t = detsim::thread::spawn_named("flush-awaiter", move || drive_flush(&sh3, fid, fut, &json!({"mode":"await"}), start_nexts, None));
                sh2.awaiters.lock().unwrap().push(t);
            }
        });
    }
    if jb(plan, "recorder_reenters", false) {
        // the metrics recorder reports its own activity through the same queue: one nested
        // append per overflow report (never nested further)
        let (sh2, h2) = (sh.clone(), handle.clone());
        let seq = AtomicU64::new(0);
        recorder.0.on_increment.set(move |name: String| {
            if name.starts_with("metrique_queue_overflows") && !NESTED.with(|n| n.replace(true)) {
                let mut s = seq.fetch_add(1, Ordering::SeqCst);
                do_append(&sh2, &h2, 700, &mut s);
                NESTED.with(|n| n.set(false));
            }
        });
    }

    // plan key `pre_ops`: what the main thread does with the new, still untouched queue before anybody else has it
    let pre_ops: Vec<Value> = ja(plan, "pre_ops").to_vec();
    run_ops(&sh, &handle, 0, &pre_ops);

    // producers
    let mut normal = vec![];
    let mut pressure = vec![];
    for (i, ops) in ja(plan, "producers").iter().enumerate() {
        let ops: Vec<Value> = ops.as_array().cloned().unwrap_or_default();
        let h = handle.clone();
        let sh2 = sh.clone();
        let is_p = has_pressure(&ops);
        let t = detsim::thread::spawn_named(&format!("p{}", i + 1), move || {
            run_ops(&sh2, &h, (i + 1) as u64, &ops);
            drop(h);
            sh2.hist.log(K::HandleCloneDropped);
        });
        if is_p { pressure.push(t) } else { normal.push(t) }
    }
    let end = js(plan, "end", "drop").to_string();
    let end_before_join = jb(plan, "end_before_join", false);
    let mut join = Some(join);
    let do_end = |join: &mut Option<BackgroundQueueJoinHandle>| {
        if let Some(j) = join.take() {
            match end.as_str() {
                "drop" => {
                    hist.log(K::DropHandleBegin);
                    let me = detsim::current_tid().unwrap_or(0);
                    let b0 = detsim::blocked_count(me);
                    drop(j);
                    // how long the drop *waited* (from the moment this thread blocked in it - by then the shutdown
                    // has been signalled, whatever the scheduler did to this thread before - until it returned)
                    let waited = if detsim::blocked_count(me) > b0 { detsim::clock_ns().saturating_sub(detsim::last_block_clock_ns(me)) } else { 0 };
                    hist.log(K::Note(format!("drop_waited_ns={waited}")));
                    let fin = writer_tid.map(detsim::thread_finished).unwrap_or(false);
                    hist.log(K::DropHandleEnd { writer_finished: fin });
                }
                "drop_in_panic" => {
                    // the join handle is a guard in a scope that unwinds
                    hist.log(K::DropHandleBegin);
                    let _ = std::panic::catch_unwind(std::panic::AssertUnwindSafe(move || {
                        let _guard = j;
                        std::panic::resume_unwind(Box::new("harness: unwinding through the scope that owns the join handle"));
                    }));
                    let fin = writer_tid.map(detsim::thread_finished).unwrap_or(false);
                    hist.log(K::DropHandleEnd { writer_finished: fin });
                }
                "forget" => {
                    hist.log(K::Forget);
                    // "forgotten": through the method made for it, or as any value can be - its destructor never runs
                    match mix(sh.run_key, 0xf0e6e7) % 3 {
                        0 => std::mem::forget(j),
                        1 => {
                            let _ = Box::leak(Box::new(j));
                        }
                        _ => j.forget(),
                    }
                }
                _ => {
                    *join = Some(j);
                }
            }
        }
    };
    let main_ops: Vec<Value> = ja(plan, "main_ops").to_vec();
    run_ops(&sh, &handle, 0, &main_ops);
    if end_before_join {
        do_end(&mut join);
    }
    for t in normal {
        let _ = t.join();
    }
    sh.stop.store(true, Ordering::SeqCst);
    detsim::unblock(ctl.next_key);
    recorder.0.on_increment.clear();
    for t in pressure {
        let _ = t.join();
    }
    let pre_end: Vec<Value> = ja(plan, "pre_end").to_vec();
    run_ops(&sh, &handle, 800, &pre_end);
    if !end_before_join {
        do_end(&mut join);
    }
    // post ops (late appends, late flush, ...) run by main with its still-live handle; the
    // entry ids continue in a separate id space (thread 900) so they are recognisable
    let post: Vec<Value> = ja(plan, "post").to_vec();
    run_ops(&sh, &handle, 900, &post);
    drop(handle);
    hist.log(K::HandleCloneDropped);
    if let Some(j) = join.take() {
        // end == "none": plain drop at the very end so the run can finish
        hist.log(K::DropHandleBegin);
        drop(j);
        let fin = writer_tid.map(detsim::thread_finished).unwrap_or(false);
        hist.log(K::DropHandleEnd { writer_finished: fin });
    }
    // Forget path: faults stop; then the writer gets four full park cycles (each: one flush
    // interval plus per-entry processing allowance of simulated time, and the chance to run
    // until it blocks again) to notice that the last handle is gone. The code as written needs
    // at most two. Derived from the plan's primitives, never stored, so that shrinking a plan
    // cannot tighten the oracle.
    if js(plan, "end", "drop") == "forget" {
        detsim::stop_faults();
        if let Some(w) = writer_tid {
            for _ in 0..4 {
                detsim::sleep_ns(forget_settle_ns(plan));
                let mut guard = 0;
                loop {
                    let (blocked, finished, _) = detsim::thread_status(w);
                    if blocked || finished || guard >= 20_000 {
                        break;
                    }
                    detsim::sleep_ns(1_000);
                    guard += 1;
                }
                if detsim::thread_finished(w) {
                    break;
                }
            }
        }
    } else {
        let settle = ju(plan, "settle_ns", 0);
        if settle > 0 {
            detsim::sleep_ns(settle);
        }
    }
    let fin = writer_tid.map(detsim::thread_finished).unwrap_or(true);
    if fin {
        // (a request made on the writer thread is completed at the latest when that thread exits)
        let ws: Vec<_> = sh.awaiters.lock().unwrap().drain(..).collect();
        for w in ws {
            let _ = w.join();
        }
    }
    on_next_cb.clear();
    sh.held.lock().unwrap().clear();
    *sh.me.lock().unwrap() = None;
    if let Ok(mut g) = crate::common::ON_ENTRY_DROP.lock() {
        *g = None;
    }
    let run = QueueRun {
        hist: hist.snapshot(),
        counters: recorder.counters(),
        writer_tid,
        writer_finished_at_end: fin,
        stream_dropped_at_end: ctl.dropped.load(Ordering::SeqCst) > 0,
        append_while_writer_parked: sh.append_while_parked.load(Ordering::SeqCst),
        flush_while_writer_parked: sh.flush_while_parked.load(Ordering::SeqCst),
        completed: true,
    };
    *slot.lock().unwrap() = Some(run);
    if !fin {
        // the writer will never exit: end the run (the process retires)
        detsim::abort_run();
    }
}

// ------------------------------------------------------------------------------------------
// history digestion
// ------------------------------------------------------------------------------------------

#[derive(Default, Debug, Clone)]
pub struct EntryInfo {
    pub inv: u64,
    pub ret: Option<u64>,
    pub blocked: bool,
    pub panicked: bool,
    pub next_begin: Vec<u64>,
    pub next_end: Vec<(u64, Res)>,
}

#[derive(Default)]
pub struct Digest {
    pub entries: BTreeMap<u64, EntryInfo>,
    /// ids in order of their first NextBegin
    pub delivery: Vec<u64>,
    /// (begin seq, end seq, ok)
    pub flushes: Vec<(u64, Option<u64>, bool)>,
    pub reports: Vec<u64>,
    pub foreign_next: Vec<u64>,
    pub validation_failures: u64,
    pub stream_drop: Option<u64>,
    pub drop_begin: Option<u64>,
    pub drop_end: Option<(u64, bool)>,
    pub forget: Option<u64>,
    pub flush_req: BTreeMap<u64, u64>,
    pub flush_done: BTreeMap<u64, (u64, bool)>,
    pub flush_gave_up: BTreeMap<u64, u64>,
    pub flush_cancelled: BTreeMap<u64, u64>,
    /// request -> first time a waker registered for it was woken (the moment the queue completed it)
    pub flush_woken: BTreeMap<u64, u64>,
    pub last_handle_drop: Option<u64>,
    pub states: HashSet<u64>,
}

pub fn digest(h: &[Ev]) -> Digest {
    let mut d = Digest::default();
    let mut appended_done = 0u64;
    let mut nexts = 0u64;
    let mut pending_flush = 0i64;
    let mut shutdown = 0u64;
    for e in h {
        match &e.k {
            K::AppendBegin { id } => {
                d.entries.entry(*id).or_default().inv = e.seq;
            }
            K::AppendEnd { id, blocked, panicked } => {
                let en = d.entries.entry(*id).or_default();
                en.ret = Some(e.seq);
                en.blocked = *blocked;
                en.panicked = *panicked;
                appended_done += 1;
            }
            K::NextBegin { id, report, .. } => {
                if *report {
                    d.reports.push(e.seq);
                } else if let Some(id) = id {
                    let en = d.entries.entry(*id).or_default();
                    if en.next_begin.is_empty() {
                        d.delivery.push(*id);
                    }
                    en.next_begin.push(e.seq);
                } else {
                    d.foreign_next.push(e.seq);
                }
            }
            K::NextEnd { id, report, res, .. } => {
                nexts += 1;
                if !*report {
                    if let Some(id) = id {
                        d.entries.entry(*id).or_default().next_end.push((e.seq, *res));
                    }
                    if *res == Res::Validation {
                        d.validation_failures += 1;
                    }
                }
            }
            K::FlushBegin { .. } => d.flushes.push((e.seq, None, false)),
            K::FlushEnd { ok, .. } => {
                if let Some(l) = d.flushes.last_mut() {
                    l.1 = Some(e.seq);
                    l.2 = *ok;
                }
            }
            K::StreamDrop { .. } => d.stream_drop = Some(e.seq),
            K::DropHandleBegin => {
                d.drop_begin = Some(e.seq);
                shutdown = 1;
            }
            K::DropHandleEnd { writer_finished } => d.drop_end = Some((e.seq, *writer_finished)),
            K::Forget => d.forget = Some(e.seq),
            K::FlushReq { fid } => {
                d.flush_req.insert(*fid, e.seq);
                pending_flush += 1;
            }
            K::FlushDone { fid, first_poll } => {
                d.flush_done.insert(*fid, (e.seq, *first_poll));
                pending_flush -= 1;
            }
            K::FlushGaveUp { fid, nexts_waited } => {
                d.flush_gave_up.insert(*fid, *nexts_waited);
                pending_flush -= 1;
            }
            K::FlushCancelled { fid } => {
                d.flush_cancelled.insert(*fid, e.seq);
                pending_flush -= 1;
            }
            K::HandleCloneDropped => d.last_handle_drop = Some(e.seq),
            K::Note(n) => {
                if let Some(fid) = n.strip_prefix("flush_woken:").and_then(|x| x.parse::<u64>().ok()) {
                    d.flush_woken.entry(fid).or_insert(e.seq);
                }
            }
        }
        // abstract state: <event kind, queue fill bucket, pending flush requests, shutdown>
        let fill = appended_done.saturating_sub(nexts);
        let fb = match fill {
            0 => 0,
            1 => 1,
            2..=3 => 2,
            4..=7 => 3,
            8..=31 => 4,
            _ => 5,
        };
        let kind = std::mem::discriminant(&e.k);
        let mut hsh = detsim::rng::hash_str(&format!("{kind:?}"));
        hsh = mix(hsh, fb);
        hsh = mix(hsh, pending_flush.clamp(0, 3) as u64);
        hsh = mix(hsh, shutdown);
        hsh = mix(hsh, (e.tid == 0) as u64);
        d.states.insert(hsh);
    }
    d
}

fn fmt_id(id: u64) -> String {
    format!("p{}#{}", id_thread(id), id_seq(id))
}

/// exactly-once + ordering among delivered entries (shared by C01, C05, C09)
pub fn check_no_dup_and_order(d: &Digest, class_prefix: &str) -> Option<Violation> {
    for (id, e) in &d.entries {
        if e.next_begin.len() > 1 {
            return Some(Violation::new(
                &format!("{class_prefix}duplicate_delivery"),
                format!("entry {} was handed to the stream {} times", fmt_id(*id), e.next_begin.len()),
            ));
        }
        if e.inv == 0 && !e.next_begin.is_empty() {
            return Some(Violation::new(
                &format!("{class_prefix}foreign_entry"),
                format!("stream received entry {} that was never appended", fmt_id(*id)),
            ));
        }
    }
    if let Some(s) = d.foreign_next.first() {
        return Some(Violation::new(
            &format!("{class_prefix}foreign_entry"),
            format!("stream received an entry that is neither an appended entry nor the error report (event #{s})"),
        ));
    }
    // per-producer order
    let mut last: HashMap<u64, u64> = HashMap::new();
    for id in &d.delivery {
        let t = id_thread(*id);
        let s = id_seq(*id);
        // (ids 400..799 belong to child entries, appended by whichever thread drops their parent: no single thread
        // appends them in sequence, the real-time order below is what holds for them)
        if (400..800).contains(&t) {
            continue;
        }
        if let Some(prev) = last.get(&t) {
            if *prev > s {
                return Some(Violation::new(
                    &format!("{class_prefix}reordered"),
                    format!("entries of producer p{t} reached the stream out of order: #{prev} before #{s}"),
                ));
            }
        }
        last.insert(t, s);
    }
    // real-time order across threads: ret(append a) < inv(append b) => a delivered before b.
    // One pass in delivery order: a violates it iff some entry delivered *before* a began after a returned,
    // i.e. iff ret(a) < the largest inv among the entries delivered so far.
    let mut latest_begun: Option<(u64, u64)> = None; // (inv, id) with the largest inv delivered so far
    for a in &d.delivery {
        let ea = d.entries.get(a).unwrap();
        if let (Some(ra), Some((inv_b, b))) = (ea.ret, latest_begun) {
            if ra < inv_b && *a != b {
                return Some(Violation::new(
                    &format!("{class_prefix}reordered"),
                    format!(
                        "append of {} returned before append of {} began, but {} reached the stream first",
                        fmt_id(*a),
                        fmt_id(b),
                        fmt_id(b)
                    ),
                ));
            }
        }
        if latest_begun.map(|(i, _)| ea.inv > i).unwrap_or(true) {
            latest_begun = Some((ea.inv, *a));
        }
    }
    None
}

// ------------------------------------------------------------------------------------------
// C01
// ------------------------------------------------------------------------------------------

pub fn check_c01(plan: &Value, run: &QueueRun, d: &Digest) -> Option<Violation> {
    let _ = plan;
    if let Some(v) = check_no_dup_and_order(d, "") {
        return Some(v);
    }
    // nothing missing (precondition by construction: no overflow, shutdown only after all appends)
    for (id, e) in &d.entries {
        if e.ret.is_some() && e.next_begin.is_empty() {
            return Some(Violation::new(
                "lost_entry",
                format!("entry {} was appended (queue neither full nor shut down) but never reached the stream", fmt_id(*id)),
            ));
        }
        if e.panicked {
            return Some(Violation::new("append_panicked", format!("append of {} panicked", fmt_id(*id))));
        }
    }
    // in-band error reports
    if let Some(inst) = run.hist.iter().find(|e| matches!(&e.k, K::Note(n) if n == "writer_thread_subscriber_installed")).map(|e| e.seq) {
        if let Some(rep) = d.reports.iter().find(|s| **s > inst) {
            return Some(Violation::new(
                "unexpected_report",
                format!("in-band error report (event #{rep}) written although the writer thread has had a tracing subscriber since event #{inst}"),
            ));
        }
    }
    let subscriber = subscriber_installed();
    if subscriber && !d.reports.is_empty() {
        return Some(Violation::new(
            "unexpected_report",
            "in-band error report written although a tracing subscriber is installed",
        ));
    }
    if d.reports.len() as u64 > d.validation_failures {
        return Some(Violation::new(
            "unexpected_report",
            format!("{} in-band reports for {} validation failures", d.reports.len(), d.validation_failures),
        ));
    }
    // the report is rate limited (once per second, second granularity): two reports can never
    // be decided within the same whole second. Sound reading: e1 = clock at the validation
    // failure that triggered report 1 (before its decision), l2 = clock when report 2 reached
    // the stream (after its decision); same whole second => both decisions in that second.
    {
        let mut prev_fail_clock: Option<u64> = None;
        let mut last_report_trigger: Option<u64> = None;
        for e in run.hist.iter() {
            match &e.k {
                K::NextEnd { report: false, res: Res::Validation, .. } => prev_fail_clock = Some(e.clock),
                K::NextBegin { report: true, .. } => {
                    if let (Some(t1), l2) = (last_report_trigger, e.clock) {
                        if t1 / 1_000_000_000 == l2 / 1_000_000_000 {
                            return Some(Violation::new(
                                "report_not_rate_limited",
                                format!("two in-band error reports within one second of simulated time (triggered at {t1} ns and written at {l2} ns)"),
                            ));
                        }
                    }
                    last_report_trigger = prev_fail_clock;
                }
                _ => {}
            }
        }
    }
    // each report directly follows a next() that returned Validation
    let stream_events: Vec<&Ev> = run
        .hist
        .iter()
        .filter(|e| matches!(e.k, K::NextBegin { .. } | K::NextEnd { .. } | K::FlushBegin { .. } | K::FlushEnd { .. }))
        .collect();
    for (i, e) in stream_events.iter().enumerate() {
        if let K::NextBegin { report: true, .. } = e.k {
            let ok = i > 0
                && matches!(stream_events[i - 1].k, K::NextEnd { report: false, res: Res::Validation, .. });
            if !ok {
                return Some(Violation::new(
                    "unexpected_report",
                    format!("in-band report (event #{}) does not directly follow a validation failure", e.seq),
                ));
            }
        }
    }
    None
}

fn gen_script(rng: &mut Rng, producers: &[u64], p_err: f64) -> Vec<Value> {
    let mut script = vec![];
    for (t, n) in producers.iter().enumerate() {
        for s in 0..*n {
            if rng.chance(p_err) {
                script.push(json!([t as u64 + 1, s, if rng.chance(0.5) { "V" } else { "I" }]));
            }
        }
    }
    script
}

const INTERVALS: [u64; 8] = [1_000, 50_000, 1_000_000, 20_000_000, 300_000_000, 1_000_000_000, 7_000_000_000, 59_000_000_000];

/// A sleep that costs the periodically flushing writer at most ~100 loop iterations.
pub fn rel_sleep(rng: &mut Rng, flush_interval: u64) -> u64 {
    let f = [0.1, 0.5, 1.0, 3.0, 20.0, 100.0][rng.usize_below(6)];
    ((flush_interval as f64 * f) as u64).max(1)
}

pub fn gen_c01(rng: &mut Rng, tier: Tier) -> Value {
    let np = 1 + rng.below(4);
    let max_entries = if tier == Tier::Thorough { 40 } else { 24 };
    // (5 %: a flush interval below one microsecond - legal, and zero when expressed in whole microseconds)
    let flush_interval = if rng.chance(0.05) { *rng.pick(&[1u64, 400, 999]) } else { INTERVALS[rng.usize_below(INTERVALS.len())] };
    let mut producers = vec![];
    let mut counts = vec![];
    let mut total = 0;
    for _ in 0..np {
        let n = rng.below(max_entries + 1);
        counts.push(n);
        total += n;
        let mut ops = vec![];
        let mut left = n;
        while left > 0 {
            let k = 1 + rng.below(left.min(8));
            ops.push(json!({"op":"append","n":k}));
            left -= k;
            match rng.below(10) {
                0 => ops.push(json!({"op":"flush","mode":"await"})),
                1 => ops.push(json!({"op":"flush","mode":"cancel"})),
                2 => ops.push(json!({"op":"sleep","ns": rel_sleep(rng, flush_interval)})),
                3 => match rng.below(4) {
                    0 => ops.push(json!({"op":"clone_churn"})),
                    1 => {
                        total += 1;
                        ops.push(json!({"op":"guard","how":"drop"}));
                    }
                    2 => ops.push(json!({"op":"guard","how":"into_entry"})),
                    _ => ops.push(json!({"op":"guard","how":"forget"})),
                },
                _ => {}
            }
        }
        producers.push(Value::Array(ops));
    }
    let main_n = rng.below(6);
    total += main_n;
    let mut main_ops = vec![];
    if main_n > 0 {
        main_ops.push(json!({"op":"append","n":main_n}));
    }
    if rng.chance(0.3) {
        main_ops.push(json!({"op":"flush","mode": if rng.chance(0.5) {"await"} else {"cancel"}}));
    }
    let p_err = [0.0, 0.0, 0.1, 0.3, 0.8][rng.usize_below(5)];
    let mut script = gen_script(rng, &counts, p_err);
    for s in 0..main_n {
        if rng.chance(p_err) {
            script.push(json!([0, s, if rng.chance(0.5) { "V" } else { "I" }]));
        }
    }
    let next_cost = [0u64, 200, 5_000, 400_000, 40_000_000][rng.usize_below(5)];
    // rarely used ending: forget() the join handle, the writer drains and exits once the last handle is gone
    let forget = rng.chance(0.08);
    // a tracing subscriber that appears (on the writer thread) after the queue was built
    let writer_subscriber_at = if rng.chance(0.12) { Some(rng.below(total.max(1))) } else { None };
    let sched = gen_sched(
        rng,
        &SchedOpts {
            est_choices: 40 + total * 12,
            threads: np + 1,
            jump_max_ns: 120_000_000_000,
            stall_clock_max_ns: 100_000_000_000,
            max_steps: 60_000,
        },
    );
    json!({
        "scenario": "queue_fifo",
        "sched": sched,
        "boxed": rng.chance(0.5),
        "capacity": total.max(1) + rng.below(8),
        "flush_interval_ns": flush_interval,
        "shutdown_timeout_ns": 1_000_000_000_000_000u64,
        "recorder": rng.chance(0.3),
        "next_cost_ns": next_cost,
        "gate": -1,
        "script": script,
        "report_res": *rng.pick(&["O", "O", "V", "I"]),
        "flush_fail": if rng.chance(0.2) { json!([rng.below(4), rng.below(8)]) } else { json!([]) },
        "producers": producers,
        "main_ops": main_ops,
        "end": if forget { "forget" } else { "drop" },
        "end_before_join": false,
        "post": [],
        "writer_subscriber_at": writer_subscriber_at,
    })
}

/// Sustained load on a small queue: a pressure producer keeps it non-empty without ever
/// overflowing it (so nothing may be lost), while other threads request flushes.
pub fn gen_c01_sustained(rng: &mut Rng, _tier: Tier) -> Value {
    let cap = 2 + rng.below(15);
    let next_cost = *rng.pick(&[500u64, 20_000, 300_000]);
    let flush_interval = next_cost * (2 + rng.below(200));
    let nf = 1 + rng.below(2);
    let mut producers = vec![];
    for _ in 0..nf {
        let mut ops = vec![json!({"op":"sleep","ns": next_cost * (1 + rng.below(40))})];
        for _ in 0..(1 + rng.below(3)) {
            let mode = *rng.pick(&["await", "await", "cancel"]);
            ops.push(json!({"op":"flush","mode":mode}));
            ops.push(json!({"op":"sleep","ns": next_cost * (1 + rng.below(60))}));
        }
        producers.push(Value::Array(ops));
    }
    let target = 1 + rng.below(cap - 1);
    producers.push(json!([{"op":"pressure","target": target, "max": 60 + rng.below(240), "others_in_flight": 0}]));
    let sched = gen_sched(
        rng,
        &SchedOpts { est_choices: 1_500, threads: nf + 2, jump_max_ns: flush_interval * 20, stall_clock_max_ns: flush_interval * 5, max_steps: 200_000 },
    );
    json!({
        "scenario": "queue_fifo_sustained",
        "sched": sched,
        "boxed": rng.chance(0.5),
        "capacity": cap,
        "flush_interval_ns": flush_interval,
        "shutdown_timeout_ns": 1_000_000_000_000_000u64,
        "recorder": rng.chance(0.5),
        "next_cost_ns": next_cost,
        "gate": -1,
        "script": if rng.chance(0.3) { Value::Array(gen_script(rng, &[0, 0, 60], 0.1)) } else { json!([]) },
        "report_res": "O",
        "flush_fail": [],
        "producers": producers,
        "main_ops": [],
        "end": "drop",
        "end_before_join": false,
        "post": [],
    })
}

pub struct QueueFifoSustained;

impl Scenario for QueueFifoSustained {
    fn name(&self) -> &'static str {
        "queue_fifo_sustained"
    }
    fn property(&self) -> &'static str {
        "C01"
    }
    fn weight(&self, _t: Tier) -> u32 {
        1
    }
    fn generate(&self, rng: &mut Rng, tier: Tier) -> Value {
        outage_stratum(huge_timeout_stratum(gen_c01_sustained(rng, tier)))
    }
    fn run(&self, plan: &Value) -> Report {
        let (out, run) = run_queue_plan(plan);
        finish_report(Report::default(), out, run, plan, check_c01, false)
    }
    fn probes(&self) -> Vec<&'static str> {
        vec!["flush_with_nonempty_queue"]
    }
    fn components(&self) -> Value {
        queue_components()
    }
    fn rule(&self) -> &'static str {
        "each run: capacity 2-16, a pressure producer keeps 1..capacity-1 entries in flight (never empty, never overflowing) for 60-300 entries, 1-2 threads request flushes (await/cancel) meanwhile; every stream write costs simulated time, flush interval = 2-200 writes. non-trivial / distinct as for queue_fifo"
    }
}

pub struct QueueFifo;

fn finish_report(mut r: Report, out: detsim::Outcome, run: Option<QueueRun>, plan: &Value, check: impl Fn(&Value, &QueueRun, &Digest) -> Option<Violation>, step_limit_is_violation: bool) -> Report {
    let failure = out.failure.clone();
    let main_panic = out.main_panic.clone();
    r.nontrivial = out.threads >= 2 && out.preemptions >= 1;
    r.case_sig = mix(out.sig, hash_value(plan.get("producers").unwrap_or(&Value::Null)));
    absorb_outcome(&mut r, out);
    match &run {
        Some(run) => {
            let d = digest(&run.hist);
            r.states = d.states.iter().copied().collect();
            // fault accounting from the history
            let mut v_err = 0;
            let mut i_err = 0;
            let mut f_err = 0;
            for e in &run.hist {
                match &e.k {
                    K::NextEnd { res: Res::Validation, .. } => v_err += 1,
                    K::NextEnd { res: Res::Io, .. } => i_err += 1,
                    K::FlushEnd { ok: false, .. } => f_err += 1,
                    K::FlushCancelled { .. } => r.fault("future_cancelled", 1),
                    K::Forget => r.fault("handle_forgotten", 1),
                    K::Note(n) if n == "flush_requested_from_inside_a_waker" => r.fault("flush_requested_from_inside_a_waker", 1),
                    K::Note(n) if n == "append_from_a_thread_local_destructor" => r.fault("append_from_a_thread_local_destructor", 1),
                    _ => {}
                }
            }
            if js(plan, "end", "") == "drop_in_panic" {
                r.fault("drop_during_unwind", 1);
            }
            if run.hist.iter().any(|e| matches!(&e.k, K::Note(n) if n == "writer_thread_subscriber_installed")) {
                r.fault("writer_thread_subscriber", 1);
                r.probe("subscriber_appears_after_build", 1);
            }
            if plan.get("flush_fail_from").map(|x| x.is_u64()).unwrap_or(false) && f_err > 0 {
                r.fault("stream_flush_persistently_failing", 1);
            }
            if plan.get("fail_all").map(|x| x.is_string()).unwrap_or(false) {
                r.fault("stream_rejects_every_entry", 1);
            }
            let bare = count_bare_appends(plan);
            if bare > 0 && js(plan, "recorder_kind", "") == "global_tl" {
                r.fault("append_before_recorder_exists", bare);
            }
            if js(plan, "recorder_kind", "") == "global_tl" && jb(plan, "recorder", false) {
                r.probe("global_recorder_bridge", 1);
            }
            r.fault("stream_validation_err", v_err);
            r.fault("stream_io_err", i_err);
            r.fault("stream_flush_err", f_err);
            r.probe("append_while_writer_parked", run.append_while_writer_parked);
            r.probe("flush_requested_while_writer_parked", run.flush_while_writer_parked);
            r.probe("writer_woken_by_deadline", r.outcome.timeouts);
            r.probe("in_band_report_written", d.reports.len() as u64);
            if !subscriber_installed() && d.validation_failures > d.reports.len() as u64 {
                r.probe("report_suppressed_by_rate_limiter", 1);
            }
            // flush while entries are waiting (deadline hit or waker count-down)
            {
                let mut appended = 0i64;
                let mut nexts = 0i64;
                let mut hit = 0;
                for e in &run.hist {
                    match &e.k {
                        K::AppendEnd { .. } => appended += 1,
                        K::NextBegin { report: false, .. } => nexts += 1,
                        K::FlushBegin { .. } if appended - nexts >= 2 => hit += 1,
                        _ => {}
                    }
                }
                r.probe("flush_with_nonempty_queue", hit);
            }
            if r.violation.is_none() {
                r.violation = check(plan, run, &d);
            }
            r.sample = Some(json!({"plan_producers": plan.get("producers"), "history": history_json(&run.hist, 60)}));
        }
        None => {}
    }
    if r.violation.is_none() {
        match failure {
            Some(detsim::Failure::Aborted { .. }) => {}
            Some(f @ detsim::Failure::Deadlock { .. }) => {
                // every thread blocked, no timer pending: the system can never make progress
                r.violation = Some(Violation::new("deadlock", format!("{f:?}")));
            }
            Some(f @ detsim::Failure::StepLimit { .. }) => {
                if step_limit_is_violation {
                    r.violation = Some(Violation::new("no_progress_step_limit", format!("{f:?}")));
                } else {
                    // a busy but legal run that did not finish within the step budget
                    r.inconclusive = true;
                }
            }
            Some(f) => {
                r.harness_error = Some(format!("simulation failed: {f:?}"));
            }
            None => {
                if run.is_none() {
                    match main_panic.as_deref().map(crate::driver::classify_uncaught_panic) {
                        Some(Ok(v)) => r.violation = Some(v),
                        Some(Err(e)) => r.harness_error = Some(e),
                        None => r.harness_error = Some("scenario produced no result".into()),
                    }
                }
            }
        }
    }
    if let Some(p) = main_panic {
        if r.violation.is_none() && r.harness_error.is_none() {
            match crate::driver::classify_uncaught_panic(&p) {
                Ok(v) => r.violation = Some(v),
                Err(e) => r.harness_error = Some(e),
            }
        }
    }
    r
}

const QUEUE_PROBES: [&str; 6] = [
    "append_while_writer_parked",
    "flush_requested_while_writer_parked",
    "writer_woken_by_deadline",
    "in_band_report_written",
    "report_suppressed_by_rate_limiter",
    "flush_with_nonempty_queue",
];

/// An outage of the output: in an eighth of the plans that script no blanket failure of their own, every entry from
/// the k-th on is rejected (I/O error mostly, validation error otherwise) - for the rest of the run, or for a burst of
/// 5 ... 300 entries after which the stream works again. Decided from the schedule seed (no other draw moves).
fn outage_stratum(mut plan: Value) -> Value {
    if plan.get("fail_all").map(|x| x.is_null()).unwrap_or(true) {
        let h = mix(ju(plan.get("sched").unwrap_or(&Value::Null), "seed", 0), 0x07a6e);
        if h % 8 == 0 {
            let h = h / 8;
            plan["fail_all"] = json!(if h % 3 == 0 { "V" } else { "I" });
            let from = [0u64, 1, 3, 10][(h / 3 % 4) as usize];
            plan["fail_all_from"] = json!(from);
            let len = [u64::MAX, 5, 6, 9, 20, 80, 300][(h / 12 % 7) as usize];
            plan["fail_all_until"] = json!(from.saturating_add(len));
        }
    }
    plan
}

/// Appends made by destructors while their thread unwinds from a panic: in a tenth of the plans every third append
/// operation of the producers is made that way.
/// A sixth of the overflow plans: every second / third / fifth entry of a producer owns a child entry that its
/// destructor appends to the same queue.
fn children_stratum(mut plan: Value) -> Value {
    let h = mix(ju(plan.get("sched").unwrap_or(&Value::Null), "seed", 0), 0xc41d);
    if h % 6 == 0 && !jb(&plan, "stalled_single", false) && plan.get("default_capacity").and_then(|x| x.as_bool()) != Some(true) && ju(&plan, "capacity", 0) < 1_000 {
        plan["children_every"] = json!([2u64, 3, 5][(h / 6 % 3) as usize]);
    }
    plan
}

fn unwinding_append_stratum(mut plan: Value) -> Value {
    let h = mix(ju(plan.get("sched").unwrap_or(&Value::Null), "seed", 0), 0xa99e);
    if h % 10 == 0 {
        let mut k = h / 10;
        if let Some(ps) = plan.get_mut("producers").and_then(|p| p.as_array_mut()) {
            for p in ps {
                if let Some(ops) = p.as_array_mut() {
                    for op in ops {
                        if js(op, "op", "") == "append" {
                            if k % 3 == 0 {
                                op["unwinding"] = json!(true);
                            }
                            k = k / 3 + 7 * (k % 3) + 1;
                        }
                    }
                }
            }
        }
    }
    plan
}

/// A queue that sits idle for a long time - 1 100 / 2 500 / 5 000 flush intervals without an entry - before the
/// ending of the run (join handle dropped, or forgotten and the last queue handle dropped): one plan in 25.
fn long_idle_stratum(mut plan: Value) -> Value {
    let h = mix(ju(plan.get("sched").unwrap_or(&Value::Null), "seed", 0), 0x1d7e);
    if h % 25 == 0 && plan.get("lossy_shutdown").and_then(|x| x.as_bool()) != Some(true) {
        let n = [1_100u64, 1_100, 2_500, 5_000][(h / 25 % 4) as usize];
        let idle = json!({"op":"sleep","ns": n.saturating_mul(ju(&plan, "flush_interval_ns", 1_000_000))});
        let forget = js(&plan, "end", "") == "forget";
        let key = if forget { "post" } else { "main_ops" };
        if let Some(ops) = plan.get_mut(key).and_then(|o| o.as_array_mut()) {
            if forget {
                ops.insert(0, idle);
            } else {
                ops.push(idle);
            }
            plan["sched"]["max_steps"] = json!(600_000);
            plan["long_idle_intervals"] = json!(n);
        }
    }
    plan
}

/// The shutdown timeout has no say while the queue is alive: a fifth of the flush-barrier plans run with one of
/// 1 ms / 50 ms / 2 s (far below the stalls of the stream) and, so that it has no say at the end either, wait for the
/// writer to be idle before the join handle is dropped.
/// A tenth of the flush-barrier plans: one flush is requested by the output stream itself, from inside `next` (on the
/// queue's writer thread), and awaited by another thread.
fn flush_from_writer_stratum(mut plan: Value) -> Value {
    let h = mix(ju(plan.get("sched").unwrap_or(&Value::Null), "seed", 0), 0xf1f0);
    if h % 10 == 0 && plan.get("append_from_next_at").map(|x| x.is_null()).unwrap_or(true) {
        plan["flush_from_next_at"] = json!((h / 10) % 12);
    }
    plan
}

/// One plan in twelve: the first producer's last appends are made by the destructor of a thread-local, while the
/// thread exits.
fn exit_append_stratum(mut plan: Value, room: bool) -> Value {
    let h = mix(ju(plan.get("sched").unwrap_or(&Value::Null), "seed", 0), 0xe817a);
    if h % 12 == 0 {
        let n = 1 + (h / 12) % 3;
        let mut added = false;
        if let Some(p) = plan.get_mut("producers").and_then(|p| p.as_array_mut()).and_then(|p| p.first_mut()).and_then(|p| p.as_array_mut()) {
            if !p.iter().any(|o| matches!(js(o, "op", ""), "pressure" | "flush_storm")) {
                p.push(json!({"op":"append_at_exit","n": n}));
                added = true;
            }
        }
        if added && room {
            // (the plan's capacity was chosen so that nothing overflows)
            plan["capacity"] = json!(ju(&plan, "capacity", 0) + n);
        }
    }
    plan
}

/// One plan in sixteen: before any entry has been appended (and before any other thread exists) the main thread asks
/// the new queue for a flush and waits for it.
fn idle_flush_stratum(mut plan: Value) -> Value {
    let h = mix(ju(plan.get("sched").unwrap_or(&Value::Null), "seed", 0), 0x1d1e);
    let stalls = plan.get("sched").and_then(|s| s.get("stall")).map(|x| x.is_object()).unwrap_or(false);
    if h % 16 == 0 && !stalls {
        // (no thread is starved by the scheduler in these runs, so that "the writer has had its turn" can be told)
        plan["pre_ops"] = json!([{"op":"flush","mode":"idle","cycle_ns": forget_settle_ns(&plan)}]);
    }
    plan
}

fn small_timeout_stratum(mut plan: Value) -> Value {
    let h = mix(ju(plan.get("sched").unwrap_or(&Value::Null), "seed", 0), 0x5a11);
    if h % 5 == 0 && ju(&plan, "shutdown_timeout_ns", 0) == 1_000_000_000_000_000 && plan.get("shutdown_timeout_huge").is_none() && plan.get("pre_end").map(|p| p.is_array()).unwrap_or(false) {
        plan["shutdown_timeout_ns"] = json!([1_000_000u64, 50_000_000, 2_000_000_000][(h / 5 % 3) as usize]);
        let step = ju(&plan, "flush_interval_ns", 1_000_000);
        if let Some(pre) = plan["pre_end"].as_array_mut() {
            pre.push(json!({"op":"wait_writer_idle","ns": step}));
        }
        plan["end_before_join"] = json!(false);
    }
    plan
}

/// A tenth of the plans whose shutdown timeout means "never give up" (10^6 s) say so with `Duration::MAX` or
/// another huge value instead. Decided from the schedule seed, so that no other draw of the plan moves.
fn huge_timeout_stratum(mut plan: Value) -> Value {
    if ju(&plan, "shutdown_timeout_ns", 0) == 1_000_000_000_000_000 {
        let h = mix(ju(plan.get("sched").unwrap_or(&Value::Null), "seed", 0), 0x7107);
        if h % 10 == 0 {
            plan["shutdown_timeout_huge"] = json!(1 + (h / 10) % 3);
        }
    }
    plan
}

fn queue_components() -> Value {
    json!({
        "real": ["BackgroundQueueBuilder/BackgroundQueue/BackgroundQueueJoinHandle", "Receiver::run/drain_until_deadline/consume/report_validation_error/shut_down", "WakerTracker", "BoxEntrySink/BoxEntry", "FlushWait", "rate_limited!", "crossbeam ArrayQueue (atomic step)", "std mpsc flush channel (atomic step)", "tokio oneshot (atomic step)"],
        "simulated_seams": ["thread spawn/join", "Parker/Unparker", "Instant", "AtomicBool shutdown flag"],
        "harness": ["producer/flusher threads", "RecStream (EntryIoStream)", "CountingRecorder (metrics::Recorder)"],
        "stub": []
    })
}

impl Scenario for QueueFifo {
    fn name(&self) -> &'static str {
        "queue_fifo"
    }
    fn property(&self) -> &'static str {
        "C01"
    }
    fn weight(&self, _t: Tier) -> u32 {
        4
    }
    fn generate(&self, rng: &mut Rng, tier: Tier) -> Value {
        exit_append_stratum(long_idle_stratum(outage_stratum(unwinding_append_stratum(huge_timeout_stratum(gen_c01(rng, tier))))), true)
    }
    fn run(&self, plan: &Value) -> Report {
        let (out, run) = run_queue_plan(plan);
        finish_report(Report::default(), out, run, plan, check_c01, false)
    }
    fn probes(&self) -> Vec<&'static str> {
        QUEUE_PROBES.to_vec()
    }
    fn components(&self) -> Value {
        queue_components()
    }
    fn rule(&self) -> &'static str {
        "each run: seeded plan (1-4 producers x 0-40 entries, typed or boxed handle, capacity >= total, flush interval 1us-59s, per-entry Ok/Validation/Io script, flush requests awaited or cancelled) under a seeded schedule (random / weighted / PCT, stalls, clock jumps). non-trivial = at least 2 simulated threads and at least one preemption at a non-blocking point; distinct = distinct (context-switch signature, producer op lists)"
    }
}

// ------------------------------------------------------------------------------------------
// C09 — full queue: drop oldest, keep order, count losses, never block
// ------------------------------------------------------------------------------------------

fn overflow_counter(run: &QueueRun) -> u64 {
    run.counters.get("metrique_queue_overflows{sink=q}").copied().unwrap_or(0)
}

pub fn check_c09(plan: &Value, run: &QueueRun, d: &Digest) -> Option<Violation> {
    let cap = ju(plan, "capacity", 1).max(1);
    for (id, e) in &d.entries {
        if e.blocked {
            return Some(Violation::new("append_blocked", format!("append of {} entered a blocked state", fmt_id(*id))));
        }
        if e.panicked {
            return Some(Violation::new("append_panicked", format!("append of {} panicked", fmt_id(*id))));
        }
    }
    if let Some(v) = check_no_dup_and_order(d, "") {
        return Some(v);
    }
    // an entry is lost only if at least `capacity` newer entries were appended
    let rets: Vec<u64> = d.entries.values().filter_map(|e| e.ret).collect();
    let mut lost = 0u64;
    let mut appended = 0u64;
    for (id, e) in &d.entries {
        if e.ret.is_none() {
            continue;
        }
        appended += 1;
        if e.next_begin.is_empty() {
            lost += 1;
            let newer = rets.iter().filter(|r| **r > e.inv).count() as u64 - 1; // minus e itself
            if newer < cap {
                return Some(Violation::new(
                    "lost_without_overflow",
                    format!(
                        "entry {} never reached the stream although only {} other appends returned after its append began (capacity {})",
                        fmt_id(*id), newer, cap
                    ),
                ));
            }
        }
    }
    // single producer, writer completely stalled until the end: exactly the newest `capacity`
    // entries survive, plus at most one entry the writer had already taken
    if jb(plan, "stalled_single", false) {
        let ids: Vec<u64> = d.entries.iter().filter(|(_, e)| e.ret.is_some()).map(|(id, _)| *id).collect();
        let n = ids.len() as u64;
        let keep = n.min(cap) as usize;
        for id in &ids[ids.len() - keep..] {
            if d.entries[id].next_begin.is_empty() {
                return Some(Violation::new(
                    "newest_entry_dropped",
                    format!("entry {} is among the newest {} appended (capacity {}) but never reached the stream", fmt_id(*id), keep, cap),
                ));
            }
        }
        let delivered = d.delivery.len() as u64;
        if delivered > n.min(cap) + 1 {
            return Some(Violation::new(
                "too_many_survivors",
                format!("{delivered} entries delivered from a stalled queue of capacity {cap}"),
            ));
        }
    }
    if jb(plan, "recorder", false) {
        let c = overflow_counter(run);
        // appends made before a recorder was installed report their displacement (at most one
        // each) to nobody
        let bare = if js(plan, "recorder_kind", "local") == "global_tl" { count_bare_appends(plan) } else { 0 };
        if c > lost || c + bare < lost {
            return Some(Violation::new(
                "overflow_counter_mismatch",
                format!("metrique_queue_overflows = {c}, but {lost} of {appended} appended entries were discarded ({bare} appends were made before a recorder was installed)"),
            ));
        }
    }
    None
}

/// A completely stalled writer and well over a thousand displaced entries in one go.
fn gen_c09_long_stall(rng: &mut Rng) -> Value {
    let cap = 1 + rng.below(4);
    let n = 1_100 + rng.below(500);
    let sched = gen_sched(rng, &SchedOpts { est_choices: 12 * n, threads: 2, jump_max_ns: 0, stall_clock_max_ns: 0, max_steps: 120_000 });
    json!({
        "scenario": "queue_overflow",
        "sched": sched,
        "boxed": rng.chance(0.4),
        "capacity": cap,
        "flush_interval_ns": 1_000_000_000u64,
        "shutdown_timeout_ns": 1_000_000_000_000_000u64,
        "recorder": true,
        "recorder_kind": "local",
        "next_cost_ns": 0,
        "gate": 0,
        "script": [],
        "report_res": "O",
        "flush_fail": [],
        "producers": [[{"op":"append","n": n}]],
        "main_ops": [],
        "pre_end": [{"op":"gate_open"}],
        "end": "drop",
        "end_before_join": false,
        "post": [],
        "stalled_single": true,
    })
}

/// "for all capacities": a ring of more than 2^20 slots against a completely stalled writer. Appending exactly
/// `capacity` (+ a few) entries loses exactly the few oldest. One such run costs ~10 s and ~600 MB: very rare.
fn gen_c09_huge(rng: &mut Rng) -> Value {
    // a third of these runs: the capacity is not configured at all (documented default: 64 * 1024 entries); the
    // writer holds one entry in flight, then exactly that many (+ a few) are appended behind it
    let default_cap = rng.chance(0.34);
    let cap = if default_cap { 64 * 1024 } else { (1u64 << 20) + 1 + rng.below(3000) };
    let n = cap + *rng.pick(&[0u64, 0, 1, 5]) + default_cap as u64;
    let mut v = gen_c09_long_stall(rng);
    v["capacity"] = json!(cap);
    v["default_capacity"] = json!(default_cap);
    v["producers"] = json!([[{"op":"append","n": n}]]);
    v["sched"] = gen_sched(rng, &SchedOpts { est_choices: 100, threads: 2, jump_max_ns: 0, stall_clock_max_ns: 0, max_steps: 400_000_000 });
    v["huge"] = json!(true);
    v
}

/// "for all capacities": rings of 64 - 260 and of 1025 - 1100 slots (sizes at which an implementation might batch its
/// evictions, or grow and shrink its ring). Half: a stalled writer and `capacity` + a few appends (exactly the few
/// oldest are lost); half: a backlog beyond the capacity, then the writer catches up completely, then a trickle of
/// appends from two threads while the writer idles and wakes.
fn gen_c09_mid(rng: &mut Rng) -> Value {
    // (the draw that selected this stratum was made on a copy of the generator: skip it)
    let _ = rng.below(120);
    let stalled = rng.chance(0.4);
    let cap = if rng.chance(if stalled { 0.7 } else { 0.25 }) { 64 + rng.below(197) } else { 1025 + rng.below(76) };
    let mut v = gen_c09_long_stall(rng);
    v["capacity"] = json!(cap);
    v["mid_capacity"] = json!(true);
    if stalled {
        let n = cap + rng.below(40);
        v["producers"] = json!([[{"op":"append","n": n}]]);
        v["sched"] = gen_sched(rng, &SchedOpts { est_choices: 12 * n, threads: 2, jump_max_ns: 0, stall_clock_max_ns: 0, max_steps: 400_000 });
        return v;
    }
    let interval = 100_000_000u64;
    v["flush_interval_ns"] = json!(interval);
    v["stalled_single"] = json!(false);
    // 2 - 4 cycles of: a backlog beyond the capacity against a closed gate, the gate opened for all of it (and closed
    // again behind it), then - around the writer's next periodic flushes - a few appends from two threads
    let near = |rng: &mut Rng| (interval as f64 * [0.5, 0.9, 1.0, 1.0, 1.1, 2.0, 3.0][rng.usize_below(7)]) as u64;
    let mut p1 = vec![];
    let mut p2 = vec![json!({"op":"sleep","ns": interval / 2})];
    let mut total = 0;
    for _ in 0..(2 + rng.below(3)) {
        let burst = cap + rng.below(60);
        total += burst;
        p1.push(json!({"op":"append","n": burst}));
        p1.push(json!({"op":"gate","n": burst + 50}));
        for _ in 0..(1 + rng.below(4)) {
            p1.push(json!({"op":"sleep","ns": near(rng)}));
            p1.push(json!({"op":"append","n": 1 + rng.below(3)}));
            p2.push(json!({"op":"sleep","ns": near(rng)}));
            p2.push(json!({"op":"append","n": 1 + rng.below(3)}));
        }
    }
    let burst = total;
    v["producers"] = json!([p1, p2]);
    v["next_cost_ns"] = json!(*rng.pick(&[0u64, 1_000]));
    v["sched"] = gen_sched(rng, &SchedOpts { est_choices: 14 * burst, threads: 3, jump_max_ns: 0, stall_clock_max_ns: 0, max_steps: 600_000 });
    v
}

pub fn gen_c09(rng: &mut Rng, _tier: Tier) -> Value {
    if rng.chance(1.0 / 25_000.0) {
        return gen_c09_huge(rng);
    }
    // (decided on a copy of the generator so that no other plan moves)
    if rng.clone().below(120) == 7 {
        return gen_c09_mid(rng);
    }
    if rng.chance(0.01) {
        return gen_c09_long_stall(rng);
    }
    let cap = 1 + rng.below(8);
    let stalled_single = rng.chance(0.25);
    let np = if stalled_single { 1 } else { 1 + rng.below(3) };
    let flush_interval = INTERVALS[1 + rng.usize_below(INTERVALS.len() - 1)];
    let mut producers = vec![];
    let mut total = 0;
    for _ in 0..np {
        let n = rng.below(6 * cap / np.max(1) + 3);
        total += n;
        let mut ops = vec![];
        let mut left = n;
        while left > 0 {
            let k = 1 + rng.below(left.min(2 * cap));
            ops.push(json!({"op":"append","n":k}));
            left -= k;
            if !stalled_single {
                match rng.below(8) {
                    0 => ops.push(json!({"op":"gate","n": 1 + rng.below(cap + 2)})),
                    1 => ops.push(json!({"op":"sleep","ns": rel_sleep(rng, flush_interval)})),
                    2 => ops.push(json!({"op":"flush","mode":"cancel"})),
                    _ => {}
                }
            }
        }
        producers.push(Value::Array(ops));
    }
    let mut main_ops = vec![];
    if !stalled_single {
        for _ in 0..rng.below(4) {
            match rng.below(3) {
                0 => main_ops.push(json!({"op":"gate","n": 1 + rng.below(2 * cap + 1)})),
                1 => main_ops.push(json!({"op":"sleep","ns": rel_sleep(rng, flush_interval)})),
                _ => main_ops.push(json!({"op":"append","n": 1 + rng.below(cap + 1)})),
            }
        }
    }
    let recorder_kind = if rng.chance(0.25) { "global_tl" } else { "local" };
    if recorder_kind == "global_tl" && rng.chance(0.6) {
        // the first overflow happens before any recorder is installed
        if let Some(Value::Array(ops)) = producers.first_mut() {
            ops.insert(0, json!({"op":"append_bare","n": cap + 1 + rng.below(2)}));
        }
    }
    let gate0 = if stalled_single { 0 } else { [0i64, 0, 1, 3, -1][rng.usize_below(5)] };
    let sched = gen_sched(
        rng,
        &SchedOpts { est_choices: 40 + total * 10, threads: np + 1, jump_max_ns: 60_000_000_000, stall_clock_max_ns: 10_000_000_000, max_steps: 60_000 },
    );
    json!({
        "scenario": "queue_overflow",
        "sched": sched,
        "boxed": rng.chance(0.4),
        "capacity": cap,
        "flush_interval_ns": flush_interval,
        "shutdown_timeout_ns": 1_000_000_000_000_000u64,
        "recorder": rng.chance(0.85),
        "recorder_kind": recorder_kind,
        // the queue used from inside its own collaborators
        "recorder_reenters": recorder_kind == "local" && !stalled_single && rng.chance(0.15),
        "append_from_next_at": if !stalled_single && rng.chance(0.12) { json!(rng.below(total.max(1))) } else { Value::Null },
        "next_cost_ns": *rng.pick(&[0u64, 1_000, 300_000]),
        "gate": gate0,
        "script": if rng.chance(0.2) { Value::Array(gen_script(rng, &[6, 6, 6], 0.2)) } else { json!([]) },
        "report_res": "O",
        "flush_fail": [],
        "producers": producers,
        "main_ops": main_ops,
        "pre_end": [{"op":"gate_open"}],
        "end": "drop",
        "end_before_join": false,
        "post": [],
        "stalled_single": stalled_single,
    })
}

pub struct QueueOverflow;

impl Scenario for QueueOverflow {
    fn name(&self) -> &'static str {
        "queue_overflow"
    }
    fn property(&self) -> &'static str {
        "C09"
    }
    fn generate(&self, rng: &mut Rng, tier: Tier) -> Value {
        exit_append_stratum(children_stratum(outage_stratum(unwinding_append_stratum(huge_timeout_stratum(gen_c09(rng, tier))))), false)
    }
    fn run(&self, plan: &Value) -> Report {
        let (out, run) = run_queue_plan(plan);
        let mut r = Report::default();
        if let Some(run) = &run {
            let d = digest(&run.hist);
            let lost = d.entries.values().filter(|e| e.ret.is_some() && e.next_begin.is_empty()).count() as u64;
            r.fault("capacity_pressure", lost);
            r.probe("entries_displaced", lost);
            if ju(plan, "capacity", 0) == 1 && lost > 0 {
                r.probe("displacement_at_capacity_1", 1);
            }
            if ju(plan, "capacity", 0) > (1 << 20) {
                r.probe("capacity_over_2_20_filled", 1);
            }
            if jb(plan, "default_capacity", false) {
                r.probe("default_capacity_filled", 1);
            }
            // displaced by a different producer: a lost entry whose `capacity` next newer appends include another thread
            let multi = ja(plan, "producers").len() > 1 && lost > 0;
            if multi {
                r.probe("displacement_with_several_producers", 1);
            }
            let gate_waits = run.hist.iter().filter(|e| matches!(e.k, K::NextBegin { .. })).count() as u64;
            let _ = gate_waits;
        }
        r.fault("gate_closed", (ji(plan, "gate", -1) >= 0) as u64);
        finish_report(r, out, run, plan, check_c09, false)
    }
    fn probes(&self) -> Vec<&'static str> {
        vec!["entries_displaced", "displacement_at_capacity_1", "displacement_with_several_producers", "append_while_writer_parked", "capacity_over_2_20_filled", "default_capacity_filled"]
    }
    fn components(&self) -> Value {
        queue_components()
    }
    fn rule(&self) -> &'static str {
        "each run: capacity 1-8 (1 run in 25 000: more than 2^20 slots, or the unconfigured default of 64 Ki, filled to the brim against a stalled writer), 1-3 producers appending up to ~6x capacity, stream gated (closed, or opened for k entries at a time; a quarter of the runs: single producer against a completely stalled writer), local metrics recorder; seeded schedule. non-trivial = >= 2 threads and >= 1 preemption; distinct = distinct (context-switch signature, producer op lists)"
    }
}

// ------------------------------------------------------------------------------------------
// C04 — flush barrier (safety), bounded progress (liveness), immediate after shutdown
// ------------------------------------------------------------------------------------------

pub fn check_c04(plan: &Value, run: &QueueRun, d: &Digest) -> Option<Violation> {
    let overflow_possible = {
        let appended = d.entries.values().filter(|e| e.ret.is_some()).count() as u64;
        appended > ju(plan, "capacity", 1)
    };
    // a request is complete from the moment the queue wakes the task that waits for it (the task may take its time to
    // notice): that moment stands for the completion where it was observed - also for futures that were polled once
    // and then kept, un-awaited
    let mut done: BTreeMap<u64, (u64, bool)> = d.flush_done.clone();
    for (fid, w) in &d.flush_woken {
        match done.get_mut(fid) {
            Some((c, _)) => *c = (*c).min(*w),
            None => {
                done.insert(*fid, (*w, false));
            }
        }
    }
    for (fid, (c, first_poll)) in &done {
        let Some(r) = d.flush_req.get(fid) else { continue };
        // after shutdown: must complete on the first poll
        if let Some((x, _)) = d.drop_end {
            if *r > x && !*first_poll {
                return Some(Violation::new(
                    "flush_after_shutdown_not_immediate",
                    format!("flush #{fid} was requested after the queue had shut down but was not ready on its first poll"),
                ));
            }
            if *r > x {
                continue;
            }
        }
        let mut last_next_end = 0u64;
        for (id, e) in &d.entries {
            let Some(ret) = e.ret else { continue };
            if ret >= *r {
                continue;
            }
            match e.next_end.first() {
                Some((ne, _)) if *ne < *c => last_next_end = last_next_end.max(*ne),
                Some((ne, _)) => {
                    return Some(Violation::new(
                        "flush_completed_before_written",
                        format!(
                            "flush #{fid} (requested at #{r}) completed at #{c}, but entry {} appended before the request was only handed to the stream at #{ne}",
                            fmt_id(*id)
                        ),
                    ));
                }
                None if d.drop_begin.map(|b| ret > b).unwrap_or(false) => {
                    // the append had not returned when the shutdown began: it may legitimately
                    // have been discarded (C05)
                }
                None => {
                    // never delivered in the whole run: only legitimate as an overflow loss, i.e.
                    // at least `capacity` other appends returned after this append began (C09)
                    let cap = ju(plan, "capacity", 1).max(1);
                    let newer = d.entries.values().filter(|o| o.ret.map(|r| r > e.inv).unwrap_or(false)).count() as u64 - 1;
                    let counted = if jb(plan, "recorder", false) { overflow_counter(run) >= 1 } else { true };
                    if !(overflow_possible && counted && newer >= cap) {
                        return Some(Violation::new(
                            "flush_completed_before_written",
                            format!(
                                "flush #{fid} completed at #{c}, but entry {} appended before the request never reached the stream (and was not an overflow loss)",
                                fmt_id(*id)
                            ),
                        ));
                    }
                }
            }
        }
        if last_next_end > 0 {
            let flushed = d.flushes.iter().any(|(b, e, _)| *b > last_next_end && e.map(|e| e < *c).unwrap_or(false));
            if !flushed {
                return Some(Violation::new(
                    "flush_completed_without_stream_flush",
                    format!(
                        "flush #{fid} completed at #{c}, but the stream was not flushed between the last covered entry (#{last_next_end}) and the completion"
                    ),
                ));
            }
        }
    }
    for e in &run.hist {
        if let K::Note(n) = &e.k {
            if let Some(fid) = n.strip_prefix("idle_flush_never_completed:") {
                return Some(Violation::new(
                    "flush_not_completed_on_idle_queue",
                    format!("flush #{fid} was requested on a new queue that nothing had been appended to; the writer thread has since parked and woken 8 times (a flush interval and more each time) and the request is still pending"),
                ));
            }
        }
    }
    if let Some((fid, n)) = d.flush_gave_up.iter().next() {
        return Some(Violation::new(
            "flush_not_completed_within_bound",
            format!(
                "flush #{fid} was still pending after the writer had completed {n} further stream writes (bound {}; capacity {}, flush interval {} ns, {} ns per write)",
                liveness_bound(plan).unwrap_or(0), ju(plan, "capacity", 0), ju(plan, "flush_interval_ns", 0), ju(plan, "next_cost_ns", 0)
            ),
        ));
    }
    None
}

/// A backlog of several hundred entries in front of the flush request (capacity up to 1024):
/// whatever batching the writer does internally, the request completes only behind all of them.
fn gen_c04_big_backlog(rng: &mut Rng) -> Value {
    let cap = 400 + rng.below(700);
    let n = 260 + rng.below((cap - 260).min(500));
    let next_cost = *rng.pick(&[0u64, 1_000, 20_000]);
    let flush_interval = *rng.pick(&[1_000_000u64, 50_000_000, 1_000_000_000, 59_000_000_000]);
    let mut ops = vec![];
    let mut left = n;
    while left > 0 {
        let k = (1 + rng.below(left.min(200))).min(left);
        ops.push(json!({"op":"append","n":k}));
        left -= k;
    }
    ops.push(json!({"op":"flush","mode":"await"}));
    ops.push(json!({"op":"append","n": 1 + rng.below(40)}));
    ops.push(json!({"op":"flush","mode":"await"}));
    let mut main_ops = vec![];
    for _ in 0..(1 + rng.below(3)) {
        main_ops.push(json!({"op":"sleep","ns": rel_sleep(rng, flush_interval.min(1_000_000_000))}));
        main_ops.push(json!({"op":"gate","n": 1 + rng.below(300)}));
    }
    main_ops.push(json!({"op":"gate_open"}));
    let sched = gen_sched(rng, &SchedOpts { est_choices: 200 + n * 8, threads: 3, jump_max_ns: 0, stall_clock_max_ns: 0, max_steps: 200_000 });
    json!({
        "scenario": "queue_flush_barrier",
        "sched": sched,
        "boxed": rng.chance(0.5),
        "capacity": cap,
        "flush_interval_ns": flush_interval,
        "shutdown_timeout_ns": 1_000_000_000_000_000u64,
        "recorder": true,
        "next_cost_ns": next_cost,
        "gate": *rng.pick(&[0i64, 0, 1, 40]),
        "script": [],
        "report_res": "O",
        "flush_fail": [],
        "producers": [ops],
        "main_ops": main_ops,
        "pre_end": [{"op":"gate_open"}],
        "end": "drop",
        "end_before_join": false,
        "post": [],
        "sustained": false,
        "big_backlog": true,
    })
}

/// Very many flush requests outstanding at once: the writer is stuck inside the first entry's `next`, a thread issues
/// 1 030 - 3 000 requests without waiting for any (futures dropped or held), then waits for one. None may complete
/// while the entries appended before it are still queued.
fn gen_c04_many_requests(rng: &mut Rng) -> Value {
    let n = 2 + rng.below(5);
    let f = 1_030 + rng.below(2_000);
    let mut ops = vec![json!({"op":"append","n":n})];
    for _ in 0..f {
        ops.push(json!({"op":"flush","mode": *rng.pick(&["cancel", "hold", "hold"])}));
    }
    ops.push(json!({"op":"flush","mode":"await"}));
    let sched = gen_sched(rng, &SchedOpts { est_choices: 200 + f * 6, threads: 3, jump_max_ns: 0, stall_clock_max_ns: 0, max_steps: 400_000 });
    json!({
        "scenario": "queue_flush_barrier",
        "sched": sched,
        "boxed": rng.chance(0.5),
        "capacity": 64,
        "flush_interval_ns": *rng.pick(&[1_000_000u64, 1_000_000_000]),
        "shutdown_timeout_ns": 1_000_000_000_000_000u64,
        "recorder": false,
        "next_cost_ns": 0,
        "gate": 0,
        "script": [],
        "report_res": "O",
        "flush_fail": [],
        "producers": [ops],
        "main_ops": [{"op":"wait_next_started","n":1}, {"op":"sleep","ns": 5_000_000_000u64}, {"op":"gate_open"}],
        "pre_end": [{"op":"gate_open"}],
        "end": "drop",
        "end_before_join": false,
        "post": [],
        "sustained": false,
        "many_requests": true,
    })
}

pub fn gen_c04_safety(rng: &mut Rng, _tier: Tier) -> Value {
    if rng.chance(0.06) {
        return gen_c04_big_backlog(rng);
    }
    if rng.chance(0.004) {
        return gen_c04_many_requests(rng);
    }
    let sustained = rng.chance(0.5);
    let cap = if sustained { 33 + rng.below(32) } else { 1 + rng.below(40) };
    let next_cost = *rng.pick(&[1_000u64, 20_000, 300_000]);
    // sustained flavour: the drain must hit its deadline (checked every 32 entries)
    let flush_interval = if sustained { next_cost * (4 + rng.below(40)) } else { INTERVALS[1 + rng.usize_below(INTERVALS.len() - 1)] };
    let nf = 1 + rng.below(3);
    let mut producers = vec![];
    let mut total = 0u64;
    for _ in 0..nf {
        let mut ops = vec![];
        for _ in 0..(1 + rng.below(4)) {
            let k = rng.below(if sustained { 12 } else { cap.min(10) + 2 });
            if k > 0 {
                ops.push(json!({"op":"append","n":k}));
                total += k;
            }
            let mode = *rng.pick(&["await", "await", "await", "cancel"]);
            ops.push(json!({"op":"flush","mode":mode}));
            if rng.chance(0.3) {
                ops.push(json!({"op":"sleep","ns": rel_sleep(rng, flush_interval)}));
            }
        }
        producers.push(Value::Array(ops));
    }
    if sustained {
        producers.push(json!([{"op":"pressure","target": cap - 1 - rng.below(3), "max": 40 + rng.below(200), "others_in_flight": 0}]));
    } else if rng.chance(0.5) {
        let n = rng.below(3 * cap + 4);
        total += n;
        producers.push(json!([{"op":"append","n": n}]));
    }
    let gate0 = if sustained { -1 } else { *rng.pick(&[-1i64, -1, 0, 2]) };
    let mut main_ops = vec![];
    if gate0 >= 0 {
        for _ in 0..(1 + rng.below(3)) {
            main_ops.push(json!({"op":"sleep","ns": rel_sleep(rng, flush_interval)}));
            main_ops.push(json!({"op":"gate","n": 1 + rng.below(cap + 3)}));
        }
        main_ops.push(json!({"op":"gate_open"}));
    }
    let sched = gen_sched(
        rng,
        &SchedOpts { est_choices: 100 + total * 12, threads: nf + 2, jump_max_ns: if sustained { flush_interval * 50 } else { 60_000_000_000 }, stall_clock_max_ns: flush_interval * 20, max_steps: 120_000 },
    );
    json!({
        "scenario": "queue_flush_barrier",
        "sched": sched,
        "boxed": rng.chance(0.5),
        "capacity": cap,
        "flush_interval_ns": flush_interval,
        "shutdown_timeout_ns": 1_000_000_000_000_000u64,
        "recorder": true,
        "next_cost_ns": next_cost,
        "gate": gate0,
        "script": if rng.chance(0.2) { Value::Array(gen_script(rng, &[8, 8, 8, 8], 0.15)) } else { json!([]) },
        "report_res": "O",
        "flush_fail": if rng.chance(0.15) { json!([rng.below(6)]) } else { json!([]) },
        "producers": producers,
        "main_ops": main_ops,
        "pre_end": [{"op":"gate_open"}],
        "end": "drop",
        // a quarter of the runs: the join handle is dropped while flush requests are still pending
        "end_before_join": rng.chance(0.25),
        "post": if rng.chance(0.5) { json!([{"op":"flush","mode":"await"}, {"op":"append","n":1}, {"op":"flush","mode":"await"}]) } else { json!([]) },
        "sustained": sustained,
    })
}

pub fn gen_c04_liveness(rng: &mut Rng, _tier: Tier) -> Value {
    let cap = 2 + rng.below(63);
    let next_cost = *rng.pick(&[1_000u64, 10_000, 250_000]);
    let f = 1 + rng.below(120); // flush interval in units of one stream write
    let flush_interval = next_cost * f;
    // DESIGN.md C04: K = capacity + 2F + 64; a violation is only reported beyond 4K
    let k = cap + 2 * f + 64;
    let bound = 4 * k;
    let nf = 1 + rng.below(3);
    let mut producers = vec![];
    for _ in 0..nf {
        let mut ops = vec![json!({"op":"sleep","ns": next_cost * (1 + rng.below(3 * f + 40))})];
        for _ in 0..(1 + rng.below(3)) {
            ops.push(json!({"op":"flush","mode":"bounded", "slice_ns": next_cost * 16}));
            if rng.chance(0.5) {
                ops.push(json!({"op":"sleep","ns": next_cost * (1 + rng.below(f + 10))}));
            }
        }
        producers.push(Value::Array(ops));
    }
    // (a third of the plans keep the queue exactly full - as many entries outstanding as it holds, never one more -
    // so that the "capacity more pops" count-down of a flush request has no slack at all; from a copy of the generator)
    let brim = rng.clone().next_u64() % 3 == 0;
    let target = if brim { cap } else { (cap - 1).max(1) - rng.below(2).min(cap.saturating_sub(2)) };
    producers.push(json!([{"op":"pressure","target": target, "max": 40 * bound, "others_in_flight": 0}]));
    if rng.chance(0.5) {
        // later requests must not starve earlier ones
        producers.push(json!([{"op":"flush_storm","max": 40 * bound}]));
    }
    // faults (stall / jumps) only in the first phase; main then declares "faults stop"
    let mut sched = gen_sched(
        rng,
        &SchedOpts { est_choices: 2_000, threads: nf + 2, jump_max_ns: flush_interval * 30, stall_clock_max_ns: flush_interval * 10, max_steps: 900_000 },
    );
    // the requester must get to run: no PCT starvation games here (scheduling randomness stays)
    if js(&sched["strategy"], "kind", "") == "pct" {
        sched["strategy"] = json!({"kind":"random","p":0.3});
    }
    json!({
        "scenario": "queue_flush_liveness",
        "sched": sched,
        "boxed": rng.chance(0.5),
        "capacity": cap,
        "flush_interval_ns": flush_interval,
        "shutdown_timeout_ns": 1_000_000_000_000_000u64,
        "recorder": false,
        "next_cost_ns": next_cost,
        "gate": -1,
        "script": [],
        // a fifth of the runs: the stream rejects every single entry (progress must not depend on success)
        "fail_all": if rng.chance(0.3) { json!(*rng.pick(&["V", "I"])) } else { Value::Null },
        // ... from the k-th entry on (a device that breaks after some good writes)
        "fail_all_from": *rng.pick(&[0u64, 0, 1, 5, 31, 33, 50, 90, 150, 260, 420, 700]),
        "report_res": "O",
        "flush_fail": [],
        // 15 %: from its k-th call on, every flush of the stream fails (a request completes after the attempt)
        "flush_fail_from": if rng.chance(0.15) { json!(rng.below(4)) } else { Value::Null },
        "producers": producers,
        "main_ops": [{"op":"sleep","ns": next_cost * (1 + rng.below(2 * f + 20))}, {"op":"stop_faults"}],
        "pre_end": [],
        "end": "drop",
        "end_before_join": false,
        "post": [],
    })
}

pub struct QueueFlushBarrier;
pub struct QueueFlushLiveness;

fn c04_probes(r: &mut Report, plan: &Value, run: &Option<QueueRun>) {
    if let Some(run) = run {
        let d = digest(&run.hist);
        // completion while entries were still queued = the count-down path of the waker tracker
        let mut appended = 0i64;
        let mut nexts = 0i64;
        let mut countdown = 0;
        let mut drained = 0;
        for e in &run.hist {
            match &e.k {
                K::AppendEnd { .. } => appended += 1,
                K::NextBegin { report: false, .. } => nexts += 1,
                K::FlushDone { first_poll: false, .. } => {
                    if appended - nexts >= 1 { countdown += 1 } else { drained += 1 }
                }
                _ => {}
            }
        }
        r.probe("flush_completed_with_queue_nonempty", countdown);
        r.probe("flush_completed_with_queue_drained", drained);
        r.probe("over_1024_flush_requests_outstanding", jb(plan, "many_requests", false) as u64);
        r.probe("flush_first_poll_ready_after_shutdown", d.flush_done.iter().filter(|(fid, (_, fp))| *fp && d.drop_end.map(|(x, _)| d.flush_req[*fid] > x).unwrap_or(false)).count() as u64);
        let lost = d.entries.values().filter(|e| e.ret.is_some() && e.next_begin.is_empty()).count() as u64;
        r.fault("capacity_pressure", lost);
        r.fault("gate_closed", (ji(plan, "gate", -1) >= 0) as u64);
    }
}

impl Scenario for QueueFlushBarrier {
    fn name(&self) -> &'static str {
        "queue_flush_barrier"
    }
    fn property(&self) -> &'static str {
        "C04"
    }
    fn weight(&self, _t: Tier) -> u32 {
        3
    }
    fn generate(&self, rng: &mut Rng, tier: Tier) -> Value {
        idle_flush_stratum(flush_from_writer_stratum(small_timeout_stratum(huge_timeout_stratum(gen_c04_safety(rng, tier)))))
    }
    fn run(&self, plan: &Value) -> Report {
        let (out, run) = run_queue_plan(plan);
        let mut r = Report::default();
        c04_probes(&mut r, plan, &run);
        finish_report(r, out, run, plan, check_c04, false)
    }
    fn probes(&self) -> Vec<&'static str> {
        vec!["flush_completed_with_queue_nonempty", "flush_completed_with_queue_drained", "flush_first_poll_ready_after_shutdown", "flush_requested_while_writer_parked", "flush_with_nonempty_queue", "over_1024_flush_requests_outstanding"]
    }
    fn components(&self) -> Value {
        queue_components()
    }
    fn rule(&self) -> &'static str {
        "each run: 1-3 flusher threads (append k, flush await/cancel) plus bulk or sustained-pressure producers, capacity 1-64 (half the runs >= 33 with a flush interval of 4-43 stream writes so that drains hit their deadline and the waker count-down path runs), gated or slow stream, overflow allowed, flush requests after shutdown; 6 % big backlogs (260-760 entries), 0.4 % 1030-3030 flush requests outstanding at once against a stuck writer. non-trivial = >= 2 threads and >= 1 preemption; distinct = distinct (context-switch signature, producer op lists)"
    }
}

impl Scenario for QueueFlushLiveness {
    fn name(&self) -> &'static str {
        "queue_flush_liveness"
    }
    fn property(&self) -> &'static str {
        "C04"
    }
    fn weight(&self, _t: Tier) -> u32 {
        1
    }
    fn generate(&self, rng: &mut Rng, tier: Tier) -> Value {
        idle_flush_stratum(huge_timeout_stratum(gen_c04_liveness(rng, tier)))
    }
    fn run(&self, plan: &Value) -> Report {
        let (out, run) = run_queue_plan(plan);
        let mut r = Report::default();
        c04_probes(&mut r, plan, &run);
        finish_report(r, out, run, plan, check_c04, false)
    }
    fn probes(&self) -> Vec<&'static str> {
        vec!["flush_completed_with_queue_nonempty"]
    }
    fn components(&self) -> Value {
        queue_components()
    }
    fn rule(&self) -> &'static str {
        "each run: a pressure producer keeps the queue non-empty without overflowing it, every stream write costs a fixed delta of simulated time, flush interval = 1-120 writes, capacity 2-64; after `faults stop` 1-3 requester threads issue bounded flushes; the bound is counted in completed stream writes at the moment of the wake-up (4 x (capacity + 2F + 64)). non-trivial / distinct as above"
    }
}

// ------------------------------------------------------------------------------------------
// C05 — shutdown drains, flushes, closes; the writer terminates (drop and forget paths)
// ------------------------------------------------------------------------------------------

pub fn check_c05(plan: &Value, run: &QueueRun, d: &Digest) -> Option<Violation> {
    if let Some(v) = check_no_dup_and_order(d, "") {
        return Some(v);
    }
    let lossy = jb(plan, "lossy_shutdown", false);
    let late_space = 900u64;
    if let (Some(b), Some((x, writer_finished))) = (d.drop_begin, d.drop_end) {
        let explicit_drop = matches!(js(plan, "end", "drop"), "drop" | "drop_in_panic");
        if explicit_drop {
            let mut last_next_end = 0u64;
            for (id, e) in &d.entries {
                let Some(ret) = e.ret else { continue };
                if ret < b {
                    match e.next_end.first() {
                        Some((ne, _)) if *ne < x => last_next_end = last_next_end.max(*ne),
                        _ => {
                            if !lossy {
                                return Some(Violation::new(
                                    "shutdown_lost_entry",
                                    format!("entry {} was appended before the join handle was dropped but had not been handed to the stream when the drop returned", fmt_id(*id)),
                                ));
                            }
                        }
                    }
                }
                if e.inv > x && !e.next_begin.is_empty() {
                    return Some(Violation::new(
                        "late_entry_written",
                        format!("entry {} was appended after shutdown completed but reached the stream", fmt_id(*id)),
                    ));
                }
            }
            let flushed = d.flushes.iter().any(|(fb, fe, _)| *fb > last_next_end && fe.map(|e| e < x).unwrap_or(false));
            if !flushed {
                return Some(Violation::new("shutdown_without_flush", "the stream was not flushed after its last entry before the drop of the join handle returned"));
            }
            match d.stream_drop {
                Some(sd) if sd < x => {}
                _ => return Some(Violation::new("stream_not_closed", "the stream had not been dropped when the drop of the join handle returned")),
            }
            if !writer_finished {
                return Some(Violation::new("writer_not_terminated", "the writer thread was still alive when the drop of the join handle returned"));
            }
            if jb(plan, "sustained_drop", false) {
                let took = run.hist.iter().find_map(|e| if let K::Note(n) = &e.k { n.strip_prefix("drop_waited_ns=").and_then(|v| v.parse::<u64>().ok()) } else { None }).unwrap_or(0);
                let bound = ju(plan, "flush_interval_ns", 0) + ju(plan, "shutdown_timeout_ns", 0) + 130 * ju(plan, "next_cost_ns", 0);
                if took > bound {
                    return Some(Violation::new(
                        "shutdown_unbounded_under_load",
                        format!("a producer kept the queue non-empty; the drop of the join handle waited {took} ns of simulated time for the writer, more than flush interval + shutdown timeout + 130 stream writes = {bound} ns"),
                    ));
                }
            }
        }
    }
    if d.forget.is_some() {
        // forget path: once the last handle is gone (and the settle time has passed) everything
        // accepted must be out, flushed, the stream closed and the thread gone
        let mut last_next_end = 0u64;
        for (id, e) in &d.entries {
            if e.ret.is_some() {
                match e.next_end.first() {
                    Some((ne, _)) => last_next_end = last_next_end.max(*ne),
                    None => {
                        return Some(Violation::new(
                            "forget_lost_entry",
                            format!("entry {} was accepted by a forgotten queue but never reached the stream", fmt_id(*id)),
                        ))
                    }
                }
            }
        }
        if !run.writer_finished_at_end {
            return Some(Violation::new(
                "forget_writer_never_exits",
                format!(
                    "join handle forgotten, last queue handle dropped; after 4 writer park cycles of {} ns each (faults stopped) the writer thread is still running (stream dropped: {})",
                    forget_settle_ns(plan), run.stream_dropped_at_end
                ),
            ));
        }
        if !run.stream_dropped_at_end {
            return Some(Violation::new("forget_stream_not_closed", "the writer exited but the stream was never dropped"));
        }
        let flushed = d.flushes.iter().any(|(fb, _, _)| *fb > last_next_end);
        if !flushed {
            return Some(Violation::new("forget_without_flush", "the stream was not flushed after its last entry"));
        }
    }
    let _ = late_space;
    None
}

/// The writer is stalled inside one `next` call for much longer than `shutdown_timeout` while the
/// join handle is dropped; once it resumes, the backlog is small enough to be drained well within
/// the timeout (which starts when the writer *begins* its final drain): nothing may be lost.
fn gen_c05_stalled_drop(rng: &mut Rng) -> Value {
    let n = 40 + rng.below(80);
    let timeout = *rng.pick(&[5_000_000u64, 20_000_000, 100_000_000]);
    let stall = timeout * (3 + rng.below(20));
    let flush_interval = *rng.pick(&[1_000_000u64, 50_000_000, 1_000_000_000]);
    let mut ops = vec![];
    let mut left = n;
    while left > 0 {
        let k = 1 + rng.below(left.min(40));
        ops.push(json!({"op":"append","n":k}));
        left -= k;
        if rng.chance(0.2) {
            ops.push(json!({"op":"flush","mode": *rng.pick(&["cancel", "hold"])}));
        }
    }
    let mut sched = gen_sched(rng, &SchedOpts { est_choices: 60 + n * 6, threads: 3, jump_max_ns: 0, stall_clock_max_ns: 0, max_steps: 80_000 });
    // every clock read costs at most 1 us here: the final drain must fit into the timeout with room to spare
    sched["now_cost_ns"] = json!(*rng.pick(&[0u64, 100, 1_000]));
    json!({
        "scenario": "queue_shutdown",
        "sched": sched,
        "boxed": rng.chance(0.5),
        "capacity": n + 8,
        "flush_interval_ns": flush_interval,
        "shutdown_timeout_ns": timeout,
        "recorder": rng.chance(0.3),
        "next_cost_ns": *rng.pick(&[0u64, 1_000]),
        "gate": 0,
        "script": [],
        "report_res": "O",
        "flush_fail": [],
        "producers": [ops],
        // the drop must find the writer *inside* a stalled `next` call (had it not started one yet,
        // it would begin its final drain right away and the stall would legitimately eat the timeout)
        "main_ops": [{"op":"gate_open_after","ns": stall}, {"op":"wait_next_started","n":1}],
        "pre_end": [],
        "end": "drop",
        "end_before_join": rng.chance(0.5),
        "post": [],
        "settle_ns": 0,
        "lossy_shutdown": false,
        "stalled_drop": true,
    })
}

/// The join handle is dropped while a producer keeps the queue non-empty (it never drains). The writer must still
/// notice the shutdown at its next flush deadline and stop after at most `shutdown_timeout` of further draining:
/// in simulated time (only stream writes cost time here) the drop returns within
/// flush_interval + shutdown_timeout + 130 stream writes (the clock is looked at every 32 writes).
fn gen_c05_sustained_drop(rng: &mut Rng) -> Value {
    let next_cost = 1_000u64;
    let cap = 8 + rng.below(25);
    let target = 3 + rng.below(cap - 5);
    let flush_interval = next_cost * (20 + rng.below(60));
    let timeout = next_cost * (50 + rng.below(100));
    let mut sched = gen_sched(rng, &SchedOpts { est_choices: 4_000, threads: 3, jump_max_ns: 0, stall_clock_max_ns: 0, max_steps: 900_000 });
    sched["now_cost_ns"] = json!(0);
    json!({
        "scenario": "queue_shutdown",
        "sched": sched,
        "boxed": rng.chance(0.5),
        "capacity": cap,
        "flush_interval_ns": flush_interval,
        "shutdown_timeout_ns": timeout,
        "recorder": rng.chance(0.3),
        "next_cost_ns": next_cost,
        "gate": -1,
        "script": [],
        "report_res": "O",
        "flush_fail": [],
        "producers": [[{"op":"pressure","target": target, "max": 4_000, "others_in_flight": 0}]],
        "main_ops": [{"op":"sleep","ns": next_cost * (10 + rng.below(200))}],
        "pre_end": [],
        "end": "drop",
        "end_before_join": true,
        "post": [],
        "settle_ns": 0,
        "lossy_shutdown": false,
        "sustained_drop": true,
    })
}

/// A long backlog (hundreds to thousands of entries behind a gated, slow stream) when the queue is told to stop -
/// by dropping the join handle, or by forgetting it and dropping the last queue handle. The timeout is generous:
/// the final drain takes many flush intervals and several thousand entries, and must go through to the end.
fn gen_c05_long_final_drain(rng: &mut Rng) -> Value {
    let n = *rng.pick(&[200u64, 900, 4_500, 6_000]) + rng.below(300);
    let forget = rng.chance(0.5);
    let next_cost = 1_000u64;
    let flush_interval = *rng.pick(&[50_000u64, 1_000_000]);
    let sched = gen_sched(rng, &SchedOpts { est_choices: 200 + n * 6, threads: 2, jump_max_ns: 0, stall_clock_max_ns: 0, max_steps: 2_000_000 });
    json!({
        "scenario": "queue_shutdown",
        "sched": sched,
        "boxed": rng.chance(0.5),
        "capacity": n + 64,
        "flush_interval_ns": flush_interval,
        "shutdown_timeout_ns": 1_000_000_000_000_000u64,
        "recorder": rng.chance(0.3),
        "next_cost_ns": next_cost,
        "gate": 0,
        "script": [],
        "report_res": "O",
        "flush_fail": [],
        "producers": [[{"op":"append","n":n}]],
        "main_ops": [{"op":"wait_next_started","n":1}],
        // the gate opens only once every entry is queued (producers are joined before `pre_end`)
        "pre_end": [{"op":"gate_open"}],
        "end": if forget { "forget" } else { "drop" },
        "end_before_join": false,
        "post": [],
        "settle_ns": 0,
        "lossy_shutdown": false,
        "long_final_drain": true,
    })
}

pub fn gen_c05(rng: &mut Rng, _tier: Tier) -> Value {
    if rng.chance(0.08) {
        return gen_c05_stalled_drop(rng);
    }
    if rng.chance(0.004) {
        return gen_c05_long_final_drain(rng);
    }
    if rng.chance(0.03) {
        return gen_c05_sustained_drop(rng);
    }
    let forget = rng.chance(0.35);
    let lossy = !forget && rng.chance(0.12);
    let np = 1 + rng.below(3);
    let flush_interval = INTERVALS[1 + rng.usize_below(INTERVALS.len() - 1)];
    let next_cost = if lossy { 1_000_000 } else { *rng.pick(&[0u64, 500, 50_000]) };
    let mut producers = vec![];
    let mut total = 0u64;
    for _ in 0..np {
        let mut ops = vec![];
        let n = if lossy { 30 + rng.below(30) } else { rng.below(16) };
        let mut left = n;
        total += n;
        while left > 0 {
            let k = 1 + rng.below(left.min(if lossy { 40 } else { 6 }));
            ops.push(json!({"op":"append","n":k}));
            left -= k;
            if !lossy {
                match rng.below(9) {
                    0 => ops.push(json!({"op":"flush","mode":"await"})),
                    1 => ops.push(json!({"op":"flush","mode": if rng.chance(0.4) { "hold" } else { "cancel" }})),
                    2 => ops.push(json!({"op":"sleep","ns": rel_sleep(rng, flush_interval)})),
                    3 => match rng.below(4) {
                        0 => ops.push(json!({"op":"clone_churn"})),
                        1 => {
                            total += 1;
                            ops.push(json!({"op":"guard","how":"drop"}));
                        }
                        2 => ops.push(json!({"op":"guard","how":"into_entry"})),
                        _ => ops.push(json!({"op":"guard","how":"forget"})),
                    },
                    _ => {}
                }
            }
        }
        producers.push(Value::Array(ops));
    }
    let main_n = rng.below(5);
    total += main_n + 8;
    let mut main_ops = vec![];
    if main_n > 0 {
        main_ops.push(json!({"op":"append","n":main_n}));
    }
    if rng.chance(0.3) {
        main_ops.push(json!({"op":"sleep","ns": rel_sleep(rng, flush_interval)}));
    }
    let end_before_join = !forget && !lossy && rng.chance(0.35);
    let mut post = vec![];
    if rng.chance(0.6) {
        post.push(json!({"op":"append","n": 1 + rng.below(3)}));
    }
    if !forget && rng.chance(0.5) {
        post.push(json!({"op":"sleep","ns": 2 * flush_interval}));
        post.push(json!({"op":"append","n": 1}));
    }
    if forget && rng.chance(0.4) {
        post.push(json!({"op":"flush","mode":"await"}));
    }
    let settle = if forget { 0 } else { 2 * flush_interval };
    let sched = gen_sched(
        rng,
        &SchedOpts { est_choices: 60 + total * 12, threads: np + 1, jump_max_ns: if lossy { 0 } else { 30_000_000_000 }, stall_clock_max_ns: if lossy { 0 } else { flush_interval * 10 }, max_steps: 80_000 },
    );
    json!({
        "scenario": "queue_shutdown",
        "sched": sched,
        "boxed": rng.chance(0.5),
        "capacity": total.max(1) + 8,
        "flush_interval_ns": flush_interval,
        "shutdown_timeout_ns": if lossy { 1_000u64 } else { 1_000_000_000_000_000u64 },
        "recorder": rng.chance(0.3),
        "next_cost_ns": next_cost,
        "gate": -1,
        "script": if rng.chance(0.25) { Value::Array(gen_script(rng, &[10, 10, 10], 0.2)) } else { json!([]) },
        "report_res": "O",
        "flush_fail": if rng.chance(0.15) { json!([rng.below(5)]) } else { json!([]) },
        "flush_fail_from": if rng.chance(0.1) { json!(rng.below(4)) } else { Value::Null },
        "producers": producers,
        "main_ops": main_ops,
        "pre_end": [],
        "end": if forget { "forget" } else if rng.chance(0.12) { "drop_in_panic" } else { "drop" },
        "end_before_join": end_before_join,
        "post": post,
        "settle_ns": settle,
        "lossy_shutdown": lossy,
    })
}

pub struct QueueShutdown;

impl Scenario for QueueShutdown {
    fn name(&self) -> &'static str {
        "queue_shutdown"
    }
    fn property(&self) -> &'static str {
        "C05"
    }
    fn weight(&self, _t: Tier) -> u32 {
        4
    }
    fn generate(&self, rng: &mut Rng, tier: Tier) -> Value {
        long_idle_stratum(outage_stratum(unwinding_append_stratum(huge_timeout_stratum(gen_c05(rng, tier)))))
    }
    fn run(&self, plan: &Value) -> Report {
        let (out, run) = run_queue_plan(plan);
        let mut r = Report::default();
        if let Some(run) = &run {
            let d = digest(&run.hist);
            if let (Some(b), Some((x, _))) = (d.drop_begin, d.drop_end) {
                let racing = d.entries.values().filter(|e| e.inv < x && e.ret.map(|r| r > b).unwrap_or(true)).count() as u64;
                r.probe("append_racing_with_shutdown", racing);
                let late = d.entries.values().filter(|e| e.inv > x).count() as u64;
                r.fault("late_append", late);
                r.probe("late_append_after_shutdown", late);
            }
            if d.forget.is_some() {
                r.probe("forget_path_runs", 1);
            }
            if jb(plan, "lossy_shutdown", false) {
                let lost = d.entries.values().filter(|e| e.ret.is_some() && e.next_begin.is_empty()).count() as u64;
                r.probe("shutdown_timeout_hit_with_loss", (lost > 0) as u64);
            }
            if jb(plan, "sustained_drop", false) {
                // the queue was non-empty when the drop began
                let b = d.drop_begin.unwrap_or(0);
                let queued = d.entries.values().filter(|e| e.ret.map(|r| r < b).unwrap_or(false) && e.next_begin.first().map(|n| *n > b).unwrap_or(true)).count() as u64;
                r.probe("join_handle_dropped_under_sustained_load", (queued > 0) as u64);
            }
            if jb(plan, "long_final_drain", false) {
                r.probe("final_drain_of_hundreds_to_thousands", 1);
            }
            let guards = ja(plan, "producers").iter().flat_map(|p| p.as_array().cloned().unwrap_or_default()).filter(|o| js(o, "op", "") == "guard" && js(o, "how", "drop") != "drop").count() as u64;
            r.probe("append_on_drop_guard_consumed_without_append", guards);
        }
        finish_report(r, out, run, plan, check_c05, true)
    }
    fn probes(&self) -> Vec<&'static str> {
        vec!["append_racing_with_shutdown", "late_append_after_shutdown", "forget_path_runs", "shutdown_timeout_hit_with_loss", "join_handle_dropped_under_sustained_load", "append_on_drop_guard_consumed_without_append", "final_drain_of_hundreds_to_thousands"]
    }
    fn components(&self) -> Value {
        queue_components()
    }
    fn rule(&self) -> &'static str {
        "each run: history over {append, clone+drop clone, flush await/cancel, sleep} on 1-3 producers + main, typed or boxed; ending = drop of the join handle (after or racing with the producers), or forget() followed by the drop of the last handle and a settle time of 3 flush intervals; late appends / flushes afterwards; 12% of the drop runs with a 1us shutdown timeout against a slow stream. non-trivial = >= 2 threads and >= 1 preemption; distinct = distinct (context-switch signature, producer op lists)"
    }
}

// ------------------------------------------------------------------------------------------
// C01 — two queues chained through an entry's destructor
// ------------------------------------------------------------------------------------------

/// An entry of queue A whose destructor appends a child entry to queue B (a unit-of-work entry
/// that owns another one). It is dropped wherever A lets go of it: displaced inside another
/// thread's append, after it was written on A's writer thread, or with the queue at shutdown.
pub struct ChainEntry {
    id: u64,
    child: u64,
    b: BackgroundQueue<IdEntry>,
    hist: History,
}

impl metrique_writer::Entry for ChainEntry {
    fn write<'a>(&'a self, w: &mut impl metrique_writer::EntryWriter<'a>) {
        w.value("id", &self.id);
    }
}

impl Drop for ChainEntry {
    fn drop(&mut self) {
        self.hist.log(K::AppendBegin { id: self.child });
        let r = std::panic::catch_unwind(std::panic::AssertUnwindSafe(|| self.b.append(IdEntry(self.child))));
        self.hist.log(K::AppendEnd { id: self.child, blocked: false, panicked: r.is_err() });
    }
}

fn chain_main(plan: &Value, hist: History) {
    let (sb, _cb) = RecStream::new(1, hist.clone(), -1);
    let (qb, jb_) = BackgroundQueueBuilder::new()
        .capacity(4096)
        .thread_name("bgq-b")
        .flush_interval(Duration::from_nanos(ju(plan, "flush_interval_ns", 1_000_000).max(1_000)))
        .shutdown_timeout(Duration::from_secs(1_000_000))
        .build::<IdEntry>(sb);
    let (sa, ca) = RecStream::new(0, hist.clone(), ji(plan, "gate", 0));
    let (qa, ja_) = BackgroundQueueBuilder::new()
        .capacity(ju(plan, "capacity", 2).max(1) as usize)
        .thread_name("bgq-a")
        .flush_interval(Duration::from_nanos(ju(plan, "flush_interval_ns", 1_000_000).max(1_000)))
        .shutdown_timeout(Duration::from_secs(1_000_000))
        .build::<ChainEntry>(sa);
    let mut ts = vec![];
    for (t, n) in ja(plan, "producers").iter().enumerate() {
        let n = n.as_u64().unwrap_or(0);
        let (qa2, qb2, h2) = (qa.clone(), qb.clone(), hist.clone());
        ts.push(detsim::thread::spawn_named(&format!("p{}", t + 1), move || {
            for s in 0..n {
                let id = entry_id(t as u64 + 1, s);
                // children live in their own id space: 500 + producer
                let e = ChainEntry { id, child: entry_id(500 + t as u64 + 1, s), b: qb2.clone(), hist: h2.clone() };
                h2.log(K::Note(format!("a_append {id}")));
                qa2.append(e);
                detsim::yield_point();
            }
        }));
    }
    for op in ja(plan, "main_ops") {
        match js(op, "op", "") {
            "sleep" => detsim::sleep_ns(ju(op, "ns", 0)),
            "gate" => ca.gate.add(ji(op, "n", 1)),
            _ => detsim::yield_point(),
        }
    }
    for t in ts {
        let _ = t.join();
    }
    ca.gate.open_forever();
    drop(ja_);
    drop(qa);
    // every A entry has been dropped by now, so every child has been appended to B
    hist.log(K::DropHandleBegin);
    drop(jb_);
    hist.log(K::DropHandleEnd { writer_finished: true });
    drop(qb);
}

fn check_chain(plan: &Value, h: &[Ev]) -> Option<Violation> {
    let mut want: BTreeMap<u64, ()> = BTreeMap::new();
    for (t, n) in ja(plan, "producers").iter().enumerate() {
        for s in 0..n.as_u64().unwrap_or(0) {
            want.insert(entry_id(500 + t as u64 + 1, s), ());
        }
    }
    let mut seen_b: BTreeMap<u64, u32> = BTreeMap::new();
    let mut seen_a: BTreeMap<u64, u32> = BTreeMap::new();
    for e in h {
        match &e.k {
            K::NextBegin { stream: 1, id: Some(id), report: false } => *seen_b.entry(*id).or_insert(0) += 1,
            K::NextBegin { stream: 0, id: Some(id), report: false } => *seen_a.entry(*id).or_insert(0) += 1,
            K::AppendEnd { id, panicked: true, .. } => return Some(Violation::new("append_panicked", format!("append of {} panicked", fmt_id(*id)))),
            _ => {}
        }
    }
    if let Some((id, n)) = seen_a.iter().chain(seen_b.iter()).find(|(_, n)| **n > 1) {
        return Some(Violation::new("duplicate_delivery", format!("entry {} was handed to a stream {n} times", fmt_id(*id))));
    }
    for id in want.keys() {
        if !seen_b.contains_key(id) {
            let appended = h.iter().any(|e| matches!(&e.k, K::AppendEnd { id: i, .. } if i == id));
            return Some(Violation::new(
                "lost_entry",
                format!("entry {} was appended to the second queue (neither full nor shut down) from inside the destructor of an entry of the first queue, but never reached its stream (append recorded: {appended})", fmt_id(*id)),
            ));
        }
    }
    None
}

pub struct QueueChain;

impl Scenario for QueueChain {
    fn name(&self) -> &'static str {
        "queue_chain"
    }
    fn property(&self) -> &'static str {
        "C01"
    }
    fn weight(&self, _t: Tier) -> u32 {
        1
    }
    fn generate(&self, rng: &mut Rng, _tier: Tier) -> Value {
        let np = 1 + rng.below(2);
        let cap = 1 + rng.below(3);
        let producers: Vec<u64> = (0..np).map(|_| rng.below(4 * cap + 6)).collect();
        let total: u64 = producers.iter().sum();
        let mut main_ops = vec![];
        for _ in 0..rng.below(4) {
            match rng.below(2) {
                0 => main_ops.push(json!({"op":"sleep","ns": 1_000 * (1 + rng.below(5_000))})),
                _ => main_ops.push(json!({"op":"gate","n": 1 + rng.below(cap + 2)})),
            }
        }
        let sched = gen_sched(rng, &SchedOpts { est_choices: 60 + total * 20, threads: np + 2, jump_max_ns: 50_000_000, stall_clock_max_ns: 20_000_000, max_steps: 150_000 });
        json!({"scenario": "queue_chain", "sched": sched, "capacity": cap, "gate": *rng.pick(&[0i64, 0, 1, -1]), "flush_interval_ns": *rng.pick(&[2_000_000u64, 50_000_000, 1_000_000_000]), "producers": producers, "main_ops": main_ops})
    }
    fn run(&self, plan: &Value) -> Report {
        let sched = sched_from_plan(plan);
        let hist = History::new();
        let (h2, p2) = (hist.clone(), plan.clone());
        let (out, _) = detsim::run(sched, move || chain_main(&p2, h2));
        let h = hist.snapshot();
        let mut r = Report::default();
        r.nontrivial = out.threads >= 2 && out.preemptions >= 1;
        r.case_sig = mix(out.sig, hash_value(&json!([plan.get("producers"), plan.get("capacity"), plan.get("main_ops")])));
        let failure = out.failure.clone();
        let mp = out.main_panic.clone();
        absorb_outcome(&mut r, out);
        // where the chained entries were dropped
        let a_writer = detsim_thread_of(&h, 0);
        let mut displaced = 0u64;
        for e in &h {
            if let K::AppendBegin { id } = &e.k {
                if id_thread(*id) >= 500 && Some(e.tid) != a_writer {
                    displaced += 1;
                }
            }
        }
        r.probe("child_appended_inside_another_append", displaced);
        r.fault("capacity_pressure", displaced);
        r.states = vec![mix(displaced.min(8), (h.len() as u64 / 16).min(16))];
        // (a run that hit the step budget or aborted has no complete history to judge)
        if failure.is_none() && mp.is_none() {
            r.violation = check_chain(plan, &h);
        }
        r.sample = Some(json!({"producers": plan.get("producers"), "capacity": plan.get("capacity"), "history": history_json(&h, 50)}));
        if r.violation.is_none() {
            match failure {
                None => {}
                Some(f @ detsim::Failure::Deadlock { .. }) => r.violation = Some(Violation::new("deadlock", format!("{f:?}"))),
                Some(detsim::Failure::StepLimit { .. }) => r.inconclusive = true,
                Some(f) => r.harness_error = Some(format!("simulation failed: {f:?}")),
            }
            if let Some(p) = mp {
                if r.violation.is_none() {
                    match crate::driver::classify_uncaught_panic(&p) {
                        Ok(v) => r.violation = Some(v),
                        Err(e) => r.harness_error = Some(e),
                    }
                }
            }
        }
        r
    }
    fn probes(&self) -> Vec<&'static str> {
        vec!["child_appended_inside_another_append"]
    }
    fn components(&self) -> Value {
        queue_components()
    }
    fn rule(&self) -> &'static str {
        "each run: queue A (capacity 1-3, gated stream, so it overflows) carries entries whose destructor appends a child entry to queue B (large, never full); 1-2 producers; the children are appended from inside other threads' append() calls (displacement), from A's writer thread, or at A's shutdown. Oracle: B's stream receives every child exactly once. non-trivial / distinct as queue_fifo"
    }
}

/// The simulated thread that made the `next` calls of stream `no` (its writer), if any.
fn detsim_thread_of(h: &[Ev], no: u32) -> Option<usize> {
    h.iter().find_map(|e| if let K::NextBegin { stream, .. } = &e.k { if *stream == no { Some(e.tid) } else { None } } else { None })
}
