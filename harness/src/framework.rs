//! Scenario interface, per-run report, schedule-config generation, and JSON helpers.

use std::collections::BTreeMap;

use detsim::rng::Rng;
use detsim::{Decision, Outcome, SchedConfig, Stall, Strategy};
use serde_json::{json, Value};

#[derive(Clone, Copy, Debug, PartialEq, Eq)]
pub enum Tier {
    Quick,
    Thorough,
}

impl Tier {
    pub fn parse(s: &str) -> Tier {
        match s {
            "thorough" => Tier::Thorough,
            _ => Tier::Quick,
        }
    }
    pub fn name(&self) -> &'static str {
        match self {
            Tier::Quick => "quick",
            Tier::Thorough => "thorough",
        }
    }
}

#[derive(Clone, Debug)]
pub struct Violation {
    /// stable class name, e.g. "duplicate_delivery"; minimisation keeps the class fixed
    pub class: String,
    pub message: String,
}

impl Violation {
    pub fn new(class: &str, message: impl Into<String>) -> Violation {
        Violation { class: class.to_string(), message: message.into() }
    }
}

#[derive(Default)]
pub struct Report {
    pub outcome: Outcome,
    pub violation: Option<Violation>,
    /// fault kind -> number of times it actually fired in this run
    pub faults: BTreeMap<String, u64>,
    /// reach probe -> hits
    pub probes: BTreeMap<String, u64>,
    /// abstract-state fingerprints visited
    pub states: Vec<u64>,
    /// by the scenario's stated rule
    pub nontrivial: bool,
    /// identity of this case for the distinct count
    pub case_sig: u64,
    /// the plan was not executable (only happens for shrunk plans)
    pub invalid_plan: bool,
    /// leaves process-global state behind: the worker retires after it
    pub tainting: bool,
    /// a short rendering of what happened (for evidence samples / replay output)
    pub sample: Option<Value>,
    /// harness-level problem (not a property violation): exit 2
    pub harness_error: Option<String>,
    /// the run hit the step budget without an oracle verdict (counted, not reported)
    pub inconclusive: bool,
}

impl Report {
    pub fn fault(&mut self, kind: &str, n: u64) {
        if n > 0 {
            *self.faults.entry(kind.to_string()).or_insert(0) += n;
        }
    }
    pub fn probe(&mut self, name: &str, n: u64) {
        *self.probes.entry(name.to_string()).or_insert(0) += n;
    }
}

pub trait Scenario: Sync + Send {
    /// unique scenario name
    fn name(&self) -> &'static str;
    fn property(&self) -> &'static str;
    /// relative share of runs within its property
    fn weight(&self, _tier: Tier) -> u32 {
        1
    }
    /// generate a plan (a JSON object; must contain everything the run depends on, including
    /// the "sched" object)
    fn generate(&self, rng: &mut Rng, tier: Tier) -> Value;
    /// execute the plan
    fn run(&self, plan: &Value) -> Report;
    /// names of the reach probes this scenario maintains (reported as unreached when 0)
    fn probes(&self) -> Vec<&'static str> {
        vec![]
    }
    /// which components run real code / are stubs
    fn components(&self) -> Value {
        json!({})
    }
    /// how cases are generated and what makes one non-trivial / distinct
    fn rule(&self) -> &'static str;
}

// ------------------------------------------------------------------------------------------
// JSON helpers
// ------------------------------------------------------------------------------------------

pub fn ju(v: &Value, key: &str, default: u64) -> u64 {
    v.get(key).and_then(|x| x.as_u64()).unwrap_or(default)
}
pub fn ji(v: &Value, key: &str, default: i64) -> i64 {
    v.get(key).and_then(|x| x.as_i64()).unwrap_or(default)
}
pub fn jf(v: &Value, key: &str, default: f64) -> f64 {
    v.get(key).and_then(|x| x.as_f64()).unwrap_or(default)
}
pub fn jb(v: &Value, key: &str, default: bool) -> bool {
    v.get(key).and_then(|x| x.as_bool()).unwrap_or(default)
}
pub fn js<'a>(v: &'a Value, key: &str, default: &'a str) -> &'a str {
    v.get(key).and_then(|x| x.as_str()).unwrap_or(default)
}
pub fn ja<'a>(v: &'a Value, key: &str) -> &'a [Value] {
    static EMPTY: Vec<Value> = Vec::new();
    v.get(key).and_then(|x| x.as_array()).map(|a| a.as_slice()).unwrap_or(&EMPTY)
}

pub fn hash_value(v: &Value) -> u64 {
    detsim::rng::hash_str(&v.to_string())
}

// ------------------------------------------------------------------------------------------
// schedule configuration <-> JSON
// ------------------------------------------------------------------------------------------

pub struct SchedOpts {
    /// expected number of choice points in a run (for PCT change points / stall placement)
    pub est_choices: u64,
    /// number of simulated threads that usually exist (stall victim / slow thread choice)
    pub threads: u64,
    /// allow injected clock jumps; maximum single jump
    pub jump_max_ns: u64,
    /// maximum simulated time a stall may add
    pub stall_clock_max_ns: u64,
    pub max_steps: u64,
}

impl Default for SchedOpts {
    fn default() -> Self {
        SchedOpts { est_choices: 300, threads: 3, jump_max_ns: 0, stall_clock_max_ns: 0, max_steps: 50_000 }
    }
}

/// Swarm-style: every run draws its own strategy, switch probability, clock costs and faults.
pub fn gen_sched(rng: &mut Rng, o: &SchedOpts) -> Value {
    let seed = rng.next_u64() >> 1;
    let strat = rng.below(10);
    let strategy = if strat < 5 {
        let ps = [0.02, 0.05, 0.1, 0.2, 0.35, 0.5, 0.7, 0.9];
        let p = ps[rng.usize_below(ps.len())];
        json!({"kind": "random", "p": p})
    } else if strat < 7 {
        let ps = [0.05, 0.2, 0.5];
        let p = ps[rng.usize_below(ps.len())];
        let factor = [10u64, 30, 100][rng.usize_below(3)];
        json!({"kind": "weighted", "p": p, "slow": rng.below(o.threads.max(1) + 1), "factor": factor})
    } else {
        json!({"kind": "pct", "depth": 1 + rng.below(3), "est": o.est_choices})
    };
    // A fifth of the runs deschedule threads at a per-run random subset of code sites instead
    // (drawn from a generator of its own, keyed by the schedule seed, so that the plan's other
    // draws stay what they were before this strategy existed).
    let mut srng = Rng::new(detsim::rng::derive(seed, 7, 7));
    let strategy = if srng.chance(0.2) {
        let p = [0.02, 0.1, 0.3][srng.usize_below(3)];
        let key = srng.next_u64() >> 1;
        let density = [2u64, 4, 8, 16][srng.usize_below(4)];
        let hold = [3u64, 10, 40, 200, 1000][srng.usize_below(5)];
        let p_park = [0.2, 0.5, 1.0][srng.usize_below(3)];
        json!({"kind": "sitepark", "p": p, "key": key, "density": density, "hold": hold, "p_park": p_park})
    } else {
        strategy
    };
    let now_cost = [0u64, 100, 1_000, 20_000, 200_000][rng.usize_below(5)];
    let mut s = json!({
        "seed": seed,
        "strategy": strategy,
        "now_cost_ns": now_cost,
        "max_steps": o.max_steps,
    });
    if o.jump_max_ns > 0 && rng.chance(0.4) {
        // most runs with jumps see 0-3 of them
        let per_run = [0.5, 1.0, 3.0][rng.usize_below(3)];
        s["jump_prob"] = json!(per_run / o.est_choices.max(1) as f64);
        s["jump_max_ns"] = json!(o.jump_max_ns);
    }
    if rng.chance(0.25) {
        let from = rng.below(o.est_choices.max(1));
        let len = 1 + rng.below((o.est_choices / 2).max(2));
        let clock = if o.stall_clock_max_ns > 0 { rng.below(o.stall_clock_max_ns) } else { 0 };
        s["stall"] = json!({"victim": rng.below(o.threads.max(1) + 1), "from": from, "len": len, "clock_ns": clock});
    }
    s
}

pub fn sched_from_plan(plan: &Value) -> SchedConfig {
    let s = plan.get("sched").cloned().unwrap_or(json!({}));
    let st = s.get("strategy").cloned().unwrap_or(json!({"kind":"random","p":0.2}));
    let strategy = match js(&st, "kind", "random") {
        "weighted" => Strategy::Weighted {
            p_switch: jf(&st, "p", 0.2),
            slow_tid: ju(&st, "slow", 0) as usize,
            factor: ju(&st, "factor", 10) as u32,
        },
        "sitepark" => Strategy::SitePark {
            p_switch: jf(&st, "p", 0.1),
            key: ju(&st, "key", 1),
            density: ju(&st, "density", 4) as u32,
            hold: ju(&st, "hold", 10),
            p_park: jf(&st, "p_park", 0.5),
        },
        "pct" => Strategy::Pct { depth: ju(&st, "depth", 2) as u32, est_len: ju(&st, "est", 300) },
        _ => Strategy::Random { p_switch: jf(&st, "p", 0.2) },
    };
    let stall = s.get("stall").filter(|x| x.is_object()).map(|x| Stall {
        victim: ju(x, "victim", 0) as usize,
        from_choice: ju(x, "from", 0),
        len: ju(x, "len", 0),
        clock_ns: ju(x, "clock_ns", 0),
    });
    let replay = plan.get("decisions").and_then(|d| d.as_array()).map(|arr| {
        arr.iter()
            .filter_map(|d| {
                let at = ju(d, "at", 0);
                if let Some(t) = d.get("tid").and_then(|x| x.as_u64()) {
                    Some(Decision::Switch { at, tid: t as usize })
                } else {
                    d.get("jump_ns").and_then(|x| x.as_u64()).map(|ns| Decision::Jump { at, ns })
                }
            })
            .collect::<Vec<_>>()
    });
    SchedConfig {
        seed: ju(&s, "seed", 1),
        strategy,
        now_cost_ns: ju(&s, "now_cost_ns", 1_000),
        jump_prob: jf(&s, "jump_prob", 0.0),
        jump_max_ns: ju(&s, "jump_max_ns", 0),
        faults_until_choice: u64::MAX,
        stall,
        max_steps: ju(&s, "max_steps", 50_000),
        max_threads: 64,
        max_clock_ns: 10_000_000_000_000_000,
        replay,
        trace: jb(plan, "trace", false),
    }
}

pub fn decisions_json(ds: &[Decision]) -> Value {
    Value::Array(
        ds.iter()
            .map(|d| match d {
                Decision::Switch { at, tid } => json!({"at": at, "tid": tid}),
                Decision::Jump { at, ns } => json!({"at": at, "jump_ns": ns}),
            })
            .collect(),
    )
}

/// Fill the generic parts of a report from the simulator outcome.
pub fn absorb_outcome(r: &mut Report, out: Outcome) {
    r.fault("clock_jump", out.jumps);
    if out.stall_steps > 0 {
        r.fault("stall_thread", 1);
    }
    r.fault("site_park", out.site_parks);
    r.outcome = out;
}

pub fn trace_json(out: &Outcome, max: usize) -> Value {
    Value::Array(
        out.trace
            .iter()
            .take(max)
            .map(|t| {
                Value::String(format!(
                    "c{} t{}->t{} @{}ns {}",
                    t.choice,
                    t.tid,
                    t.chosen,
                    t.clock_ns,
                    detsim::site_name(t.site)
                ))
            })
            .collect(),
    )
}
