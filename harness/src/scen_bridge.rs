//! C20 — the metrics.rs bridge reports every increment and sample exactly once.
//! Real code: metrique_metricsrs::{MetricRecorder (registry, storage, readout, describe_*),
//! MetricAccumulatorEntry (Entry impl), metrics_histogram::Histogram, unit mapping}, the real
//! `metrics` 0.24 handles (Counter / Gauge / Histogram), metrics-util's registry.
//! Seams: counter / gauge cells are detsim atomics (a scheduling point before every atomic
//! operation), histogram record / drain are scheduling points, the readout timestamp comes from a
//! simulated `TimeSource`. The periodic tokio reporter task is replaced by a simulated reporter
//! thread calling `readout()` at points that race with the updates (scenario `bridge`), or runs
//! for real on a paused-clock current-thread tokio runtime inside a simulated thread (scenario
//! `bridge_reporter`).

use std::any::Any;
use std::borrow::Cow;
use std::collections::{BTreeMap, BTreeSet};
use std::sync::atomic::{AtomicI64, Ordering};
use std::sync::{Arc, Mutex};
use std::time::SystemTime;

use detsim::rng::{mix, Rng};
use metrics::{Key, KeyName, Label, Level, Metadata, Recorder};
use metrique_metricsrs::MetricRecorder;
use metrique_timesource::{set_time_source, TimeSource};
use metrique_writer::{Entry, EntryWriter, MetricFlags, Observation, Unit, ValidationError, ValueWriter};
use metrique_writer_core::entry::EntryConfig;
use serde_json::{json, Value};

use crate::framework::*;
use crate::scen_time::SimTime;

pub type Rec = MetricRecorder<dyn metrics::Recorder>;

// ------------------------------------------------------------------------------------------
// history
// ------------------------------------------------------------------------------------------

#[derive(Clone, Debug, PartialEq)]
pub enum Obs {
    U(u64),
    F(f64),
    R { total: f64, n: u64 },
}

#[derive(Clone, Debug, PartialEq)]
pub struct SeenMetric {
    pub name: String,
    pub dims: Vec<(String, String)>,
    pub unit: String,
    pub obs: Vec<Obs>,
    pub not_a_metric: bool,
}

#[derive(Clone, Debug, Default, PartialEq)]
pub struct Readout {
    /// ns since the epoch (None: no timestamp written; Some(Err) = written more than once)
    pub timestamps: Vec<i128>,
    pub split_cfg: bool,
    pub metrics: Vec<SeenMetric>,
}

#[derive(Clone, Debug)]
pub enum BK {
    /// the second bridge of the process reports something else than what was put into it
    DecoyWrong { key: usize, got: f64, want: f64 },
    RegEnd { key: usize },
    UpdBegin { key: usize, op: &'static str, v: f64, n: u64 },
    UpdEnd { key: usize, op: &'static str, v: f64, n: u64 },
    DescBegin { name: String, unit: String },
    DescEnd { name: String, unit: String },
    ReadBegin { rid: u64, wall_ns: i64 },
    ReadEnd { rid: u64, out: Readout },
    Note(&'static str),
    /// the shutdown handle given to the reporter was dropped when `at_drop` readouts had been appended; `total` were appended in all
    ShutdownProbe { at_drop: u64, total: u64 },
}

#[derive(Clone, Debug)]
pub struct BEv {
    pub seq: u64,
    pub tid: usize,
    pub k: BK,
}

#[derive(Clone, Default)]
pub struct BLog(Arc<Mutex<Vec<BEv>>>);
impl BLog {
    pub fn log(&self, k: BK) -> u64 {
        let seq = detsim::next_seq();
        self.0.lock().unwrap().push(BEv { seq, tid: detsim::current_tid().unwrap_or(0), k });
        seq
    }
    pub fn snapshot(&self) -> Vec<BEv> {
        self.0.lock().unwrap().clone()
    }
}

// ------------------------------------------------------------------------------------------
// replaying a readout entry into a recording writer
// ------------------------------------------------------------------------------------------

struct RecWriter<'r>(&'r mut Readout);

impl<'a> EntryWriter<'a> for RecWriter<'_> {
    fn timestamp(&mut self, timestamp: SystemTime) {
        let ns = match timestamp.duration_since(SystemTime::UNIX_EPOCH) {
            Ok(d) => d.as_nanos() as i128,
            Err(e) => -(e.duration().as_nanos() as i128),
        };
        self.0.timestamps.push(ns);
    }
    fn value(&mut self, name: impl Into<Cow<'a, str>>, value: &(impl metrique_writer::Value + ?Sized)) {
        let name: Cow<'a, str> = name.into();
        let mut m = SeenMetric { name: name.to_string(), dims: vec![], unit: String::new(), obs: vec![], not_a_metric: false };
        value.write(RecValue(&mut m));
        self.0.metrics.push(m);
    }
    fn config(&mut self, config: &'a dyn EntryConfig) {
        let any: &dyn Any = config;
        if any.is::<metrique_writer_core::config::AllowSplitEntries>() {
            self.0.split_cfg = true;
        }
    }
}

struct RecValue<'m>(&'m mut SeenMetric);
impl ValueWriter for RecValue<'_> {
    fn string(self, _value: &str) {
        self.0.not_a_metric = true;
    }
    fn metric<'a>(self, distribution: impl IntoIterator<Item = Observation>, unit: Unit, dimensions: impl IntoIterator<Item = (&'a str, &'a str)>, _flags: MetricFlags<'_>) {
        self.0.unit = unit.name().to_string();
        self.0.dims = dimensions.into_iter().map(|(k, v)| (k.to_string(), v.to_string())).collect();
        self.0.obs = distribution
            .into_iter()
            .map(|o| match o {
                Observation::Unsigned(u) => Obs::U(u),
                Observation::Floating(f) => Obs::F(f),
                Observation::Repeated { total, occurrences } => Obs::R { total, n: occurrences },
                #[allow(unreachable_patterns)]
                _ => Obs::F(f64::NAN),
            })
            .collect();
    }
    fn error(self, _error: ValidationError) {
        self.0.not_a_metric = true;
    }
}

pub fn replay_entry(e: &impl Entry) -> Readout {
    let mut out = Readout::default();
    e.write(&mut RecWriter(&mut out));
    out
}

// ------------------------------------------------------------------------------------------
// plan helpers
// ------------------------------------------------------------------------------------------

#[derive(Clone, Debug)]
pub struct KeySpec {
    pub kind: String, // "c" counter, "gs" multi-writer set-only gauge, "g" single-owner gauge, "h" histogram
    pub name: String,
    pub labels: Vec<(String, String)>,
}

pub fn keys_of(plan: &Value) -> Vec<KeySpec> {
    ja(plan, "keys")
        .iter()
        .map(|k| KeySpec {
            kind: js(k, "kind", "c").to_string(),
            name: js(k, "name", "m").to_string(),
            labels: ja(k, "labels").iter().map(|l| (l[0].as_str().unwrap_or("").to_string(), l[1].as_str().unwrap_or("").to_string())).collect(),
        })
        .collect()
}

fn mk_key(k: &KeySpec) -> Key {
    let labels: Vec<Label> = k.labels.iter().map(|(a, b)| Label::new(a.clone(), b.clone())).collect();
    Key::from_parts(k.name.clone(), labels)
}

pub const UNITS: [(&str, &str); 18] = [
    ("Nanoseconds", "Nanoseconds"),
    ("Tebibytes", "Tebibytes"),
    ("Gibibytes", "Gibibytes"),
    ("Mebibytes", "Mebibytes"),
    ("Kibibytes", "Kibibytes"),
    ("TerabitsPerSecond", "Terabits/Second"),
    ("GigabitsPerSecond", "Gigabits/Second"),
    ("KilobitsPerSecond", "Kilobits/Second"),
    ("CountPerSecond", "Count/Second"),
    ("Count", "Count"),
    ("Percent", "Percent"),
    ("Seconds", "Seconds"),
    ("Milliseconds", "Milliseconds"),
    ("Microseconds", "Microseconds"),
    ("Bytes", "Bytes"),
    ("BitsPerSecond", "Bits/Second"),
    ("MegabitsPerSecond", "Megabits/Second"),
    ("none", "None"),
];

fn metrics_unit(name: &str) -> Option<metrics::Unit> {
    Some(match name {
        "Count" => metrics::Unit::Count,
        "Percent" => metrics::Unit::Percent,
        "Seconds" => metrics::Unit::Seconds,
        "Milliseconds" => metrics::Unit::Milliseconds,
        "Microseconds" => metrics::Unit::Microseconds,
        "Bytes" => metrics::Unit::Bytes,
        "BitsPerSecond" => metrics::Unit::BitsPerSecond,
        "MegabitsPerSecond" => metrics::Unit::MegabitsPerSecond,
        "Nanoseconds" => metrics::Unit::Nanoseconds,
        "Tebibytes" => metrics::Unit::Tebibytes,
        "Gibibytes" => metrics::Unit::Gibibytes,
        "Mebibytes" => metrics::Unit::Mebibytes,
        "Kibibytes" => metrics::Unit::Kibibytes,
        "TerabitsPerSecond" => metrics::Unit::TerabitsPerSecond,
        "GigabitsPerSecond" => metrics::Unit::GigabitsPerSecond,
        "KilobitsPerSecond" => metrics::Unit::KilobitsPerSecond,
        "CountPerSecond" => metrics::Unit::CountPerSecond,
        _ => return None,
    })
}

fn expected_unit_name(described_as: &str) -> &'static str {
    UNITS.iter().find(|u| u.0 == described_as).map(|u| u.1).unwrap_or("None")
}

static METAS: [Metadata<'static>; 5] = [
    Metadata::new("verif", Level::INFO, Some("verif")),
    Metadata::new("verif", Level::TRACE, Some("verif")),
    Metadata::new("verif", Level::DEBUG, None),
    Metadata::new("verif::deep", Level::WARN, Some("verif")),
    Metadata::new("verif", Level::ERROR, Some("other")),
];
/// The call-site metadata of a registration: any verbosity level, target and module (a metric is a metric whatever the
/// call site says about itself). Chosen by the run's own choice counter.
fn meta() -> &'static Metadata<'static> {
    &METAS[(detsim::choices() % 5) as usize]
}

#[derive(Clone)]
enum Handle {
    C(metrics::Counter),
    G(metrics::Gauge),
    H(metrics::Histogram),
}

fn register(rec: &Rec, spec: &KeySpec) -> Handle {
    let key = mk_key(spec);
    match spec.kind.as_str() {
        "c" => Handle::C(rec.register_counter(&key, meta())),
        "h" => Handle::H(rec.register_histogram(&key, meta())),
        _ => Handle::G(rec.register_gauge(&key, meta())),
    }
}

/// `which`: 1 = the first description of the name (plan key "units"), 2 = a later re-description
/// with another unit (plan key "units2"): the latest description is the one that counts.
fn describe(rec: &Rec, log: &BLog, plan: &Value, name: &str, which: u64) {
    let kinds: Vec<String> = keys_of(plan).into_iter().filter(|k| k.name == name).map(|k| k.kind).collect();
    let unit_name = plan.get(if which == 2 { "units2" } else { "units" }).and_then(|u| u.get(name)).and_then(|x| x.as_str()).unwrap_or("none").to_string();
    let unit = metrics_unit(&unit_name);
    log.log(BK::DescBegin { name: name.to_string(), unit: unit_name.clone() });
    let kn = KeyName::from(name.to_string());
    match kinds.first().map(|s| s.as_str()) {
        Some("c") => rec.describe_counter(kn, unit, "a counter".into()),
        Some("h") => rec.describe_histogram(kn, unit, "a histogram".into()),
        _ => rec.describe_gauge(kn, unit, "a gauge".into()),
    }
    log.log(BK::DescEnd { name: name.to_string(), unit: unit_name });
}

/// metrics-util's registry holds a shard lock (a plain std RwLock, no seam) for the whole of
/// `visit_*`, i.e. across the scheduling points inside `readout`, and takes it exclusively when
/// a key is created. A simulated thread that runs into a *real* lock held by a descheduled thread
/// wedges the process, whatever mode either side uses, so the harness keeps every registry access
/// (first or repeated registration: shared among themselves) out of a readout (exclusive) with a
/// simulated lock. Updates through handles that are already held interleave freely with readouts.
#[derive(Clone, Default)]
pub struct RegistryGate {
    lock: Arc<detsim::sync::RwLock<()>>,
    created: Arc<Mutex<BTreeSet<usize>>>,
}

/// `held`: handles this thread already owns. In `bridge_reporter` every thread owns a handle of every key and never
/// goes back to the registry: the readouts are issued by the real reporter task, outside the RegistryGate, and a
/// registry lookup made while that task sits at a scheduling point inside a readout would block in the
/// registry's real lock if the readout ever held it exclusively.
/// Scenario `bridge`, plan key `decoy`: a second bridge lives in the same process (a scoped recorder next to the
/// service-wide one, say). Right before a thread registers a key on the bridge under test it registers the *same* key
/// on the decoy and updates it there with a distinctive value: nothing of that may show up in the bridge under test,
/// and nothing meant for the bridge under test may end up in the decoy.
#[derive(Clone, Default)]
struct Decoy {
    rec: Option<Rec>,
    /// per key index: updates made on the decoy
    updates: Arc<Mutex<BTreeMap<usize, u64>>>,
}
static DECOY: Mutex<Option<Decoy>> = Mutex::new(None);
const DECOY_INC: u64 = 1_000_003;

fn decoy_touch(spec: &KeySpec, ki: usize, via_local: bool) {
    let Some(d) = DECOY.lock().unwrap().clone() else { return };
    let Some(rec) = d.rec.clone() else { return };
    let h = if via_local {
        metrics::with_local_recorder(&rec, || metrics::with_recorder(|r| {
            let key = mk_key(spec);
            match spec.kind.as_str() {
                "c" => Handle::C(r.register_counter(&key, meta())),
                "h" => Handle::H(r.register_histogram(&key, meta())),
                _ => Handle::G(r.register_gauge(&key, meta())),
            }
        }))
    } else {
        register(&rec, spec)
    };
    match h {
        Handle::C(c) => c.increment(DECOY_INC),
        Handle::G(g) => g.set(555.0),
        Handle::H(h) => h.record(777.0),
    }
    *d.updates.lock().unwrap().entry(ki).or_insert(0) += 1;
}

fn updater(rec: Rec, log: BLog, plan: Value, ops: Vec<Value>, gate: RegistryGate, held: Option<BTreeMap<usize, Handle>>) {
    let keys = keys_of(&plan);
    let no_registry = held.is_some();
    let mut cache: BTreeMap<usize, Handle> = held.unwrap_or_default();
    let via_local = jb(&plan, "via_local", false);
    for op in &ops {
        let name = js(op, "op", "");
        match name {
            "yield" => detsim::yield_point(),
            "sleep" => detsim::sleep_ns(ju(op, "ns", 0)),
            "describe" => describe(&rec, &log, &plan, js(op, "name", ""), ju(op, "which", 1)),
            "register" | "inc" | "set" | "ginc" | "gdec" | "rec" | "recm" => {
                let ki = ju(op, "key", 0) as usize;
                let Some(spec) = keys.get(ki) else { continue };
                let fresh = jb(op, "fresh", false);
                if (fresh && !no_registry) || !cache.contains_key(&ki) {
                    let _excl = gate.lock.read().unwrap_or_else(|e| e.into_inner());
                    decoy_touch(spec, ki, via_local);
                    let h = if via_local {
                        // through the thread-local recorder, as the `metrics` macros do
                        metrics::with_local_recorder(&rec, || metrics::with_recorder(|r| {
                            let key = mk_key(spec);
                            match spec.kind.as_str() {
                                "c" => Handle::C(r.register_counter(&key, meta())),
                                "h" => Handle::H(r.register_histogram(&key, meta())),
                                _ => Handle::G(r.register_gauge(&key, meta())),
                            }
                        }))
                    } else {
                        register(&rec, spec)
                    };
                    gate.created.lock().unwrap().insert(ki);
                    drop(_excl);
                    log.log(BK::RegEnd { key: ki });
                    cache.insert(ki, h);
                }
                if name == "register" {
                    continue;
                }
                // `v`: the value as the oracle counts it; `v_call`: what is handed to the handle (a histogram sample
                // that is negative, NaN or -inf is recorded as 0, +inf as the largest value)
                let (v, v_call) = match js(op, "special", "") {
                    "nan" => (0.0, f64::NAN),
                    "ninf" => (0.0, f64::NEG_INFINITY),
                    "neg" => (0.0, -1.0 - jf(op, "v", 0.0).abs()),
                    "inf" => (1e300, f64::INFINITY),
                    _ => (jf(op, "v", 0.0), jf(op, "v", 0.0)),
                };
                let opn: &'static str = match name {
                    "inc" => "inc",
                    "set" => "set",
                    "ginc" => "ginc",
                    "gdec" => "gdec",
                    "recm" => "recm",
                    _ => "rec",
                };
                let n = if opn == "recm" { ju(op, "n", 1) } else { 1 };
                log.log(BK::UpdBegin { key: ki, op: opn, v, n });
                match (cache.get(&ki).unwrap(), opn) {
                    (Handle::C(c), "inc") => c.increment(v as u64),
                    (Handle::G(g), "set") => g.set(v),
                    (Handle::G(g), "ginc") => g.increment(v),
                    (Handle::G(g), "gdec") => g.decrement(v),
                    (Handle::H(h), "rec") => h.record(v_call),
                    (Handle::H(h), "recm") => h.record_many(v_call, n as usize),
                    _ => {}
                }
                log.log(BK::UpdEnd { key: ki, op: opn, v, n });
            }
            _ => {}
        }
    }
}

fn do_readout(rec: &Rec, log: &BLog, rid: u64, wall: &AtomicI64, gate: &RegistryGate) {
    log.log(BK::ReadBegin { rid, wall_ns: wall.load(Ordering::SeqCst) });
    let excl = gate.lock.write().unwrap_or_else(|e| e.into_inner());
    let mut entry = rec.readout();
    drop(excl);
    if STRIP_TS.load(Ordering::SeqCst) {
        // a readout embedded in another entry: the caller removes the timestamp, everything else stays
        assert!(entry.timestamp().is_some());
        entry.remove_timestamp();
    }
    let out = replay_entry(&entry);
    log.log(BK::ReadEnd { rid, out });
}

/// plan key `strip_timestamp` of the run in progress (scenario `bridge`)
static STRIP_TS: std::sync::atomic::AtomicBool = std::sync::atomic::AtomicBool::new(false);

fn bridge_main(plan: &Value, log: BLog) {
    STRIP_TS.store(jb(plan, "strip_timestamp", false), Ordering::SeqCst);
    let rec: Rec = MetricRecorder::new_with_emit_zero_counters(jb(plan, "emit_zero", false));
    for d in ja(plan, "describe_first") {
        if let Some(n) = d.as_str() {
            describe(&rec, &log, plan, n, 1);
        }
    }
    let gate = RegistryGate::default();
    let decoy = Decoy { rec: if jb(plan, "decoy", false) { Some(MetricRecorder::new_with_emit_zero_counters(false)) } else { None }, updates: Default::default() };
    *DECOY.lock().unwrap() = Some(decoy.clone());
    let mut hs = vec![];
    for (i, t) in ja(plan, "threads").iter().enumerate() {
        let ops: Vec<Value> = t.as_array().cloned().unwrap_or_default();
        let (r2, l2, p2, g2) = (rec.clone(), log.clone(), plan.clone(), gate.clone());
        hs.push(detsim::thread::spawn_named(&format!("u{}", i + 1), move || updater(r2, l2, p2, ops, g2, None)));
    }
    let rep_ops: Vec<Value> = ja(plan, "reporter").to_vec();
    let (r2, l2) = (rec.clone(), log.clone());
    let wall = Arc::new(AtomicI64::new(1_700_000_000_000_000_000));
    let w2 = wall.clone();
    let g2 = gate.clone();
    let rep = detsim::thread::spawn_named("reporter", move || {
        let _ts = set_time_source(TimeSource::custom(SimTime::plain(w2.clone())));
        let mut rid = 0u64;
        for op in &rep_ops {
            match js(op, "op", "") {
                "yield" => detsim::yield_point(),
                "sleep" => detsim::sleep_ns(ju(op, "ns", 0)),
                "wall" => w2.store(ji(op, "ns", 0), Ordering::SeqCst),
                "readout" => {
                    rid += 1;
                    do_readout(&r2, &l2, rid, &w2, &g2);
                }
                _ => {}
            }
        }
    });
    for h in hs {
        let _ = h.join();
    }
    let _ = rep.join();
    log.log(BK::Note("all_joined"));
    // the final readout (what the reporter does at shutdown)
    let _ts = set_time_source(TimeSource::custom(SimTime::plain(wall.clone())));
    do_readout(&rec, &log, 1_000_000, &wall, &gate);
    if jb(plan, "second_final", false) {
        do_readout(&rec, &log, 1_000_001, &wall, &gate);
    }
    // the decoy bridge holds exactly what was put into it
    *DECOY.lock().unwrap() = None;
    if let Some(drec) = &decoy.rec {
        let out = replay_entry(&drec.readout());
        let keys = keys_of(plan);
        let ups = decoy.updates.lock().unwrap().clone();
        for (ki, n) in ups {
            let Some(spec) = keys.get(ki) else { continue };
            if spec.kind != "c" {
                continue;
            }
            let mut labels = spec.labels.clone();
            labels.sort();
            let got: f64 = out.metrics.iter().filter(|m| m.name == spec.name && { let mut d = m.dims.clone(); d.sort(); d == labels }).map(|m| m.obs.iter().map(|o| match o { Obs::U(v) => *v as f64, Obs::F(v) => *v, Obs::R { total, .. } => *total }).sum::<f64>()).sum();
            if got != (n * DECOY_INC) as f64 {
                log.log(BK::DecoyWrong { key: ki, got, want: (n * DECOY_INC) as f64 });
            }
        }
    }
}

// ------------------------------------------------------------------------------------------
// oracle
// ------------------------------------------------------------------------------------------

struct Rd<'a> {
    rid: u64,
    inv: u64,
    ret: u64,
    wall_ns: i64,
    out: &'a Readout,
}

fn hist_expected(v: f64) -> f64 {
    // what the bridge records: the value as an unsigned 32-bit integer, capped
    if v > u32::MAX as f64 { u32::MAX as f64 } else { (v as u32) as f64 }
}

pub fn check_c20(plan: &Value, h: &[BEv]) -> Option<Violation> {
    let keys = keys_of(plan);
    if let Some(BK::DecoyWrong { key, got, want }) = h.iter().map(|e| &e.k).find(|k| matches!(k, BK::DecoyWrong { .. })) {
        return Some(Violation::new("counter_increment_misrouted", format!("a second bridge in the same process, whose counter {:?} was incremented by {want} in total, reports {got}: updates meant for one bridge ended up in the other", keys.get(*key).map(|k| k.name.clone()))));
    }
    let emit_zero = jb(plan, "emit_zero", false);
    // readouts
    let mut begins: BTreeMap<u64, (u64, i64)> = BTreeMap::new();
    let mut rds: Vec<Rd> = vec![];
    for e in h {
        match &e.k {
            BK::ReadBegin { rid, wall_ns } => {
                begins.insert(*rid, (e.seq, *wall_ns));
            }
            BK::ReadEnd { rid, out } => {
                let (inv, wall_ns) = begins.get(rid).copied().unwrap_or((0, 0));
                rds.push(Rd { rid: *rid, inv, ret: e.seq, wall_ns, out });
            }
            _ => {}
        }
    }
    rds.sort_by_key(|r| r.inv);
    let complete = h.iter().any(|e| matches!(e.k, BK::Note("all_joined")));

    // ---- per readout: shape, names, dimensions, units, timestamp
    for r in &rds {
        let strip = jb(plan, "strip_timestamp", false);
        if strip {
            if !r.out.timestamps.is_empty() {
                return Some(Violation::new("readout_timestamp", format!("readout {} wrote a timestamp although it had been removed", r.rid)));
            }
        } else if r.out.timestamps.len() != 1 {
            return Some(Violation::new("readout_timestamp", format!("readout {} wrote {} timestamps, expected exactly one", r.rid, r.out.timestamps.len())));
        }
        if !strip && r.out.timestamps[0] != r.wall_ns as i128 {
            return Some(Violation::new("readout_timestamp", format!("readout {} carries timestamp {} ns, the time source said {} ns when it was taken", r.rid, r.out.timestamps[0], r.wall_ns)));
        }
        if !r.out.split_cfg {
            return Some(Violation::new("readout_not_split_mode", format!("readout {} did not pass AllowSplitEntries to the writer (metrics with different label sets cannot be emitted)", r.rid)));
        }
        let mut seen: BTreeSet<usize> = BTreeSet::new();
        for m in &r.out.metrics {
            let Some(ki) = keys.iter().position(|k| k.name == m.name && k.labels == m.dims) else {
                return Some(Violation::new("unknown_metric", format!("readout {} writes metric {:?} with dimensions {:?}; no metric was registered under that name and label set", r.rid, m.name, m.dims)));
            };
            if m.not_a_metric {
                return Some(Violation::new("not_a_metric", format!("readout {}: {:?} was not written as a metric value", r.rid, m.name)));
            }
            if !seen.insert(ki) {
                return Some(Violation::new("metric_written_twice", format!("readout {} writes {:?}{:?} more than once", r.rid, m.name, m.dims)));
            }
            let shape_ok = match keys[ki].kind.as_str() {
                "c" => m.obs.len() == 1 && matches!(m.obs[0], Obs::U(_)),
                "h" => m.obs.iter().all(|o| matches!(o, Obs::R { .. })),
                _ => m.obs.len() == 1 && matches!(m.obs[0], Obs::F(_)),
            };
            if !shape_ok {
                return Some(Violation::new("wrong_observation_shape", format!("readout {}: {:?} (kind {}) written as {:?}", r.rid, m.name, keys[ki].kind, m.obs)));
            }
            // unit
            // the descriptions of this name, in time order (they are issued in one program order):
            // the latest one completed before the readout began counts; one that overlaps the
            // readout may or may not be seen
            let mut descs: Vec<(u64, u64, &str)> = vec![]; // (begin, end, unit)
            for e in h {
                match &e.k {
                    BK::DescBegin { name, unit } if *name == m.name => descs.push((e.seq, u64::MAX, expected_unit_name(unit))),
                    BK::DescEnd { name, .. } if *name == m.name => {
                        if let Some(d) = descs.iter_mut().rev().find(|d| d.1 == u64::MAX) {
                            d.1 = e.seq;
                        }
                    }
                    _ => {}
                }
            }
            // A value that shows an update (non-zero counter delta, histogram sample, non-zero gauge) was read after
            // that update began; a description completed before the key's *first* update began is therefore
            // older than the value and must be visible too, even if it completed after the readout began.
            let shows_update = m.obs.iter().any(|o| match o {
                Obs::U(v) => *v != 0,
                Obs::F(v) => *v != 0.0,
                Obs::R { n, .. } => *n > 0,
            });
            let first_upd = h.iter().find(|e| matches!(&e.k, BK::UpdBegin { key, .. } if *key == ki)).map(|e| e.seq);
            let mut reference = r.inv;
            if let (true, Some(fu)) = (shows_update, first_upd) {
                if let Some(d) = descs.iter().filter(|d| d.1 < fu).last() {
                    reference = reference.max(d.1 + 1);
                }
            }
            let mut allowed: Vec<&str> = vec![];
            match descs.iter().filter(|d| d.1 < reference).last() {
                Some(d) => allowed.push(d.2),
                None => allowed.push("None"),
            }
            for d in descs.iter().filter(|d| d.0 < r.ret && d.1 >= reference) {
                allowed.push(d.2);
            }
            if !allowed.contains(&m.unit.as_str()) {
                return Some(Violation::new("wrong_unit", format!("readout {}: {:?} written with unit {:?}; allowed {:?} (descriptions, in order: {:?})", r.rid, m.name, m.unit, allowed, descs.iter().map(|d| d.2).collect::<Vec<_>>())));
            }
        }
    }

    // ---- per key accounting
    for (ki, spec) in keys.iter().enumerate() {
        let reg_end = h.iter().find(|e| matches!(e.k, BK::RegEnd { key } if key == ki)).map(|e| e.seq);
        let find = |r: &Rd| -> Option<SeenMetric> { r.out.metrics.iter().find(|m| m.name == spec.name && m.dims == spec.labels).cloned() };
        // updates of this key: (inv, ret, op, v, tid)
        // (inv, ret, op, v, tid, occurrences)
        let mut upd: Vec<(u64, u64, &'static str, f64, usize, u64)> = vec![];
        {
            let mut open: BTreeMap<usize, (u64, &'static str, f64, u64)> = BTreeMap::new();
            for e in h {
                match &e.k {
                    BK::UpdBegin { key, op, v, n } if *key == ki => {
                        open.insert(e.tid, (e.seq, op, *v, *n));
                    }
                    BK::UpdEnd { key, .. } if *key == ki => {
                        if let Some((inv, op, v, n)) = open.remove(&e.tid) {
                            upd.push((inv, e.seq, op, v, e.tid, n));
                        }
                    }
                    _ => {}
                }
            }
            // updates that never returned (thread died): still "invoked"
            for (tid, (inv, op, v, n)) in open {
                upd.push((inv, u64::MAX, op, v, tid, n));
            }
        }
        match spec.kind.as_str() {
            "c" => {
                let mut reported: u128 = 0;
                for r in &rds {
                    let m = find(r);
                    let delta = match &m {
                        Some(m) => match m.obs[0] {
                            Obs::U(u) => u,
                            _ => 0,
                        },
                        None => 0,
                    };
                    if let Some(_) = &m {
                        if delta == 0 && !emit_zero {
                            return Some(Violation::new("zero_counter_emitted", format!("readout {}: counter {:?}{:?} reported with value 0 although emit_zero_counters is off", r.rid, spec.name, spec.labels)));
                        }
                    } else if emit_zero && reg_end.map(|s| s < r.inv).unwrap_or(false) {
                        return Some(Violation::new("zero_counter_missing", format!("readout {}: counter {:?}{:?} is registered but absent although emit_zero_counters is on", r.rid, spec.name, spec.labels)));
                    }
                    reported += delta as u128;
                    let lo: u128 = upd.iter().filter(|u| u.1 < r.inv).map(|u| u.3 as u128).sum();
                    let hi: u128 = upd.iter().filter(|u| u.0 < r.ret).map(|u| u.3 as u128).sum();
                    if reported < lo {
                        return Some(Violation::new("counter_increment_lost", format!("counter {:?}{:?}: after readout {} the readouts report {} in total, but increments totalling {} had returned before that readout began", spec.name, spec.labels, r.rid, reported, lo)));
                    }
                    if reported > hi {
                        return Some(Violation::new("counter_increment_reported_twice", format!("counter {:?}{:?}: after readout {} the readouts report {} in total, but only {} had been incremented by the time it returned", spec.name, spec.labels, r.rid, reported, hi)));
                    }
                }
                if complete {
                    let total: u128 = upd.iter().map(|u| u.3 as u128).sum();
                    if reported != total {
                        return Some(Violation::new("counter_total_mismatch", format!("counter {:?}{:?}: reported deltas sum to {reported}, increments sum to {total}", spec.name, spec.labels)));
                    }
                }
            }
            "h" => {
                let mut reported: u64 = 0;
                let mut all_rep: Vec<f64> = vec![];
                for r in &rds {
                    if let Some(m) = find(r) {
                        for o in &m.obs {
                            if let Obs::R { total, n } = o {
                                if *n == 0 {
                                    continue;
                                }
                                reported += *n;
                                let v = total / *n as f64;
                                if all_rep.len() < 200_000 {
                                    for _ in 0..*n {
                                        all_rep.push(v);
                                    }
                                }
                            }
                        }
                    }
                    let lo: u64 = upd.iter().filter(|u| u.1 < r.inv).map(|u| u.5).sum();
                    let hi: u64 = upd.iter().filter(|u| u.0 < r.ret).map(|u| u.5).sum();
                    if reported < lo {
                        return Some(Violation::new("histogram_sample_lost", format!("histogram {:?}{:?}: after readout {} the readouts count {} samples, but {} records had returned before that readout began", spec.name, spec.labels, r.rid, reported, lo)));
                    }
                    if reported > hi {
                        return Some(Violation::new("histogram_sample_reported_twice", format!("histogram {:?}{:?}: after readout {} the readouts count {} samples, but only {} had been recorded by the time it returned", spec.name, spec.labels, r.rid, reported, hi)));
                    }
                }
                if complete {
                    let recorded: u64 = upd.iter().map(|u| u.5).sum();
                    if reported != recorded {
                        return Some(Violation::new("histogram_total_mismatch", format!("histogram {:?}{:?}: readouts count {reported} samples, {recorded} were recorded", spec.name, spec.labels)));
                    }
                    let mut want: Vec<(f64, f64)> = upd.iter().flat_map(|u| std::iter::repeat_n((hist_expected(u.3), u.3), u.5 as usize)).collect();
                    want.sort_by(|a, b| a.0.partial_cmp(&b.0).unwrap());
                    all_rep.sort_by(|a, b| a.partial_cmp(b).unwrap());
                    for (w, got) in want.iter().zip(all_rep.iter()) {
                        // compared with the value as recorded (capped to u32); a fractional value may be
                        // truncated or rounded to an integer first
                        let orig = w.1.min(u32::MAX as f64);
                        let tol = orig * 0.0625 + if w.1.fract() != 0.0 { 1.0 } else { 1e-6 };
                        if (got - orig).abs() > tol {
                            return Some(Violation::new("histogram_value_outside_bucket_error", format!("histogram {:?}{:?}: sample {} (recorded as {}) is reported at {}, more than 6.25% away", spec.name, spec.labels, w.1, w.0, got)));
                        }
                    }
                }
            }
            "gs" => {
                // multi-writer gauge, `set` only, all values distinct
                for r in &rds {
                    let m = find(r);
                    let registered_before = reg_end.map(|s| s < r.inv).unwrap_or(false);
                    let Some(m) = m else {
                        if registered_before {
                            return Some(Violation::new("gauge_missing", format!("readout {}: gauge {:?}{:?} is registered but absent", r.rid, spec.name, spec.labels)));
                        }
                        continue;
                    };
                    let Obs::F(got) = m.obs[0] else { continue };
                    // a set is still a candidate unless another set began after it returned and itself
                    // returned before the readout began
                    let mut allowed: Vec<f64> = vec![];
                    for s in upd.iter().filter(|u| u.0 < r.ret) {
                        let overwritten = upd.iter().any(|t| t.0 > s.1 && t.1 < r.inv);
                        if !overwritten {
                            allowed.push(s.3);
                        }
                    }
                    if !upd.iter().any(|u| u.1 < r.inv) {
                        allowed.push(0.0);
                    }
                    if !allowed.iter().any(|a| a.to_bits() == got.to_bits()) {
                        return Some(Violation::new("gauge_not_last_value", format!("readout {}: gauge {:?}{:?} reports {got}; the values last set (or being set) at that time are {:?}", r.rid, spec.name, spec.labels, allowed)));
                    }
                }
            }
            _ => {
                // single-owner gauge: set / increment / decrement from one thread
                let mut vals: Vec<f64> = vec![0.0];
                let mut cur = 0.0f64;
                let mut su = upd.clone();
                su.sort_by_key(|u| u.0);
                for u in &su {
                    cur = match u.2 {
                        "set" => u.3,
                        "ginc" => cur + u.3,
                        "gdec" => cur - u.3,
                        _ => cur,
                    };
                    vals.push(cur);
                }
                for r in &rds {
                    let m = find(r);
                    let registered_before = reg_end.map(|s| s < r.inv).unwrap_or(false);
                    let Some(m) = m else {
                        if registered_before {
                            return Some(Violation::new("gauge_missing", format!("readout {}: gauge {:?}{:?} is registered but absent", r.rid, spec.name, spec.labels)));
                        }
                        continue;
                    };
                    let Obs::F(got) = m.obs[0] else { continue };
                    let lo = su.iter().filter(|u| u.1 < r.inv).count();
                    let hi = su.iter().filter(|u| u.0 < r.ret).count();
                    if !vals[lo..=hi].iter().any(|a| a.to_bits() == got.to_bits()) {
                        return Some(Violation::new("gauge_not_last_value", format!("readout {}: gauge {:?}{:?} reports {got}; its value at that time is one of {:?}", r.rid, spec.name, spec.labels, &vals[lo..=hi])));
                    }
                }
            }
        }
    }
    None
}

// ------------------------------------------------------------------------------------------
// generation
// ------------------------------------------------------------------------------------------

fn hist_value(rng: &mut Rng) -> f64 {
    match rng.below(8) {
        0 => rng.below(40) as f64,
        1 => {
            // a bucket boundary of the (4, 32) layout and its neighbours
            let p = 5 + rng.below(27);
            let sub = rng.below(16);
            let base = (1u64 << p) + sub * (1u64 << (p - 4));
            (base as i64 + rng.below(3) as i64 - 1).max(0) as f64
        }
        2 => (1u64 << rng.below(32)) as f64,
        3 => u32::MAX as f64 - rng.below(3) as f64,
        4 => u32::MAX as f64 + 1.0 + rng.below(1 << 20) as f64 * 4096.0,
        5 => rng.below(1 << 20) as f64 + 0.5,
        _ => rng.below(u32::MAX as u64) as f64,
    }
}

pub fn gen_c20(rng: &mut Rng, tier: Tier) -> Value {
    let nkeys = 1 + rng.below(4);
    let mut keys: Vec<Value> = vec![];
    let mut names: Vec<String> = vec![];
    let label_sets: [&[(&str, &str)]; 7] = [&[], &[("op", "get")], &[("op", "put")], &[("op", "get"), ("az", "a")], &[("az", "b")], &[("tenant", "")], &[("op", "get"), ("tenant", "")]];
    for i in 0..nkeys {
        let kind = *rng.pick(&["c", "c", "c", "h", "h", "gs", "g"]);
        // a second label set under an existing name of the same kind, or a new name
        let same: Vec<&Value> = keys.iter().filter(|k: &&Value| js(k, "kind", "") == kind).collect();
        let (name, used): (String, Vec<String>) = if !same.is_empty() && rng.chance(0.4) {
            let n = js(same[0], "name", "").to_string();
            let used = keys.iter().filter(|k| js(k, "name", "") == n).map(|k| k["labels"].to_string()).collect();
            (n, used)
        } else {
            // one name in twelve is long: 300, 1 100 or 5 000 bytes (peeked from a copy of the generator: no draw moves)
            let peek = rng.clone().next_u64();
            let pad = if peek % 12 == 0 { [300usize, 1_100, 5_000][(peek / 12 % 3) as usize] } else { 0 };
            (format!("{kind}{i}{}", "n".repeat(pad)), vec![])
        };
        let mut ls = label_sets[rng.usize_below(label_sets.len())];
        let mut tries = 0;
        while used.contains(&json!(ls.iter().map(|(a, b)| json!([a, b])).collect::<Vec<_>>()).to_string()) && tries < 10 {
            ls = label_sets[rng.usize_below(label_sets.len())];
            tries += 1;
        }
        let lj = json!(ls.iter().map(|(a, b)| json!([a, b])).collect::<Vec<_>>());
        if used.contains(&lj.to_string()) {
            continue;
        }
        if !names.contains(&name) {
            names.push(name.clone());
        }
        keys.push(json!({"kind": kind, "name": name, "labels": lj}));
    }
    // one plan in five: a gauge or histogram shares its *name* with a counter, under a label set of its own (one name,
    // metrics of different kinds: each (name, labels) pair is still a metric of its own). Peeked: no draw moves.
    {
        let peek = rng.clone().next_u64();
        if peek % 5 == 0 {
            let counter_name = keys.iter().find(|k| js(k, "kind", "") == "c" && js(k, "name", "").len() < 100).map(|k| js(k, "name", "").to_string());
            if let Some(cn) = counter_name {
                let used: Vec<String> = keys.iter().filter(|k| js(k, "name", "") == cn).map(|k| k["labels"].to_string()).collect();
                if let Some(k) = keys.iter_mut().find(|k| js(k, "kind", "") != "c" && !used.contains(&k["labels"].to_string())) {
                    // (only a name that no other key of its own kind shares, so that nothing else moves with it)
                    k["name"] = json!(cn);
                    k["shares_name_with_counter"] = json!(true);
                }
                names.retain(|n| keys.iter().any(|k| js(k, "name", "") == n));
            }
        }
    }
    let nthreads = 1 + rng.below(if tier == Tier::Thorough { 4 } else { 3 });
    // describe placement per name
    let mut units = serde_json::Map::new();
    let mut describe_first: Vec<Value> = vec![];
    let mut describe_later: Vec<String> = vec![];
    for n in &names {
        match rng.below(4) {
            0 => {}
            1 => {
                units.insert(n.clone(), json!(UNITS[rng.usize_below(UNITS.len())].0));
                describe_first.push(json!(n));
            }
            _ => {
                units.insert(n.clone(), json!(UNITS[rng.usize_below(UNITS.len())].0));
                describe_later.push(n.clone());
            }
        }
    }
    let mut threads: Vec<Vec<Value>> = (0..nthreads).map(|_| vec![]).collect();
    // single-owner gauges belong to one thread
    let owners: Vec<usize> = keys.iter().map(|_| rng.usize_below(nthreads as usize)).collect();
    let mut uniq = 1u64;
    let max_ops = if tier == Tier::Thorough { 14 } else { 9 };
    for (ti, t) in threads.iter_mut().enumerate() {
        let n = 1 + rng.below(max_ops);
        for _ in 0..n {
            let ki = rng.usize_below(keys.len());
            let kind = js(&keys[ki], "kind", "c").to_string();
            let fresh = rng.chance(0.3);
            match kind.as_str() {
                "c" => {
                    if rng.chance(0.1) {
                        t.push(json!({"op":"register","key":ki,"fresh":fresh}));
                    } else {
                        let n = *rng.pick(&[1u64, 1, 2, 7, 1000, 1 << 33]) + rng.below(3);
                        // (a third of the largest: beyond what a double represents exactly; no further draw)
                        // (multiples of 256: the plan stores the value as a double, exactly)
                        let n = if n >= 1 << 33 && fresh { (1u64 << 56) + (n & 3) * 256 } else { n };
                        t.push(json!({"op":"inc","key":ki,"v":n as f64,"fresh":fresh}));
                    }
                }
                "h" => {
                    // 6 %: a sample outside the histogram's domain (negative, NaN, infinite)
                    let special = if rng.chance(0.06) { *rng.pick(&["nan", "ninf", "neg", "inf"]) } else { "" };
                    if rng.chance(0.2) {
                        t.push(json!({"op":"recm","key":ki,"v":hist_value(rng),"n":*rng.pick(&[0u64, 1, 2, 3, 17]),"fresh":fresh,"special":special}));
                    } else {
                        t.push(json!({"op":"rec","key":ki,"v":hist_value(rng),"fresh":fresh,"special":special}));
                    }
                }
                "gs" => {
                    uniq += 1;
                    t.push(json!({"op":"set","key":ki,"v":(uniq as f64) + 0.25,"fresh":fresh}));
                }
                _ => {
                    if owners[ki] == ti {
                        uniq += 1;
                        let op = *rng.pick(&["set", "ginc", "gdec", "ginc"]);
                        t.push(json!({"op":op,"key":ki,"v":(uniq * 3) as f64,"fresh":fresh}));
                    }
                }
            }
            if rng.chance(0.2) {
                t.push(json!({"op":"yield"}));
            }
        }
    }
    let mut units2 = serde_json::Map::new();
    // a few runs: one histogram key sees well over a hundred distinct buckets within one interval
    if let (Some(hk), true) = (keys.iter().position(|k| js(k, "kind", "") == "h"), rng.chance(0.04)) {
        let mut all: Vec<u64> = vec![];
        for p in 5..32u64 {
            for sub in 0..16u64 {
                all.push((1u64 << p) + sub * (1u64 << (p - 4)));
            }
        }
        rng.shuffle(&mut all);
        let n = 105 + rng.usize_below(160);
        let ti = rng.usize_below(threads.len());
        for v in all.into_iter().take(n) {
            threads[ti].push(json!({"op":"rec","key":hk,"v":v as f64,"fresh":false}));
        }
    }
    for n in describe_later {
        let ti = rng.usize_below(threads.len());
        let at = rng.usize_below(threads[ti].len() + 1);
        threads[ti].insert(at, json!({"op":"describe","name":n,"which":1}));
        if rng.chance(0.3) {
            // described again, with another unit, later in the same thread
            units2.insert(n.clone(), json!(UNITS[rng.usize_below(UNITS.len())].0));
            let at2 = at + 1 + rng.usize_below(threads[ti].len() - at);
            threads[ti].insert(at2, json!({"op":"describe","name":n,"which":2}));
        }
    }
    for d in &describe_first {
        if let (Some(n), true) = (d.as_str(), rng.chance(0.3)) {
            units2.insert(n.to_string(), json!(UNITS[rng.usize_below(UNITS.len())].0));
            let ti = rng.usize_below(threads.len());
            let at = rng.usize_below(threads[ti].len() + 1);
            threads[ti].insert(at, json!({"op":"describe","name":n,"which":2}));
        }
    }
    let mut reporter: Vec<Value> = vec![];
    let nr = rng.below(if tier == Tier::Thorough { 6 } else { 4 });
    for _ in 0..nr {
        match rng.below(4) {
            0 => reporter.push(json!({"op":"yield"})),
            1 => reporter.push(json!({"op":"wall","ns": 1_700_000_000_000_000_000i64 + rng.below(1_000_000_000_000) as i64})),
            _ => {}
        }
        reporter.push(json!({"op":"readout"}));
    }
    let est = 40 + 12 * threads.iter().map(|t| t.len() as u64).sum::<u64>() + 10 * nr * keys.len() as u64;
    let sched = gen_sched(rng, &SchedOpts { est_choices: est, threads: nthreads + 1, jump_max_ns: 0, stall_clock_max_ns: 0, max_steps: 40_000 });
    // a quarter of the runs: a second bridge in the same process (decided from the schedule seed)
    let decoy = mix(ju(&sched, "seed", 0), 0xdec0) % 4 == 0;
    json!({
        "sched": sched, "emit_zero": rng.chance(0.4), "strip_timestamp": rng.chance(0.15), "via_local": rng.chance(0.3), "keys": keys, "units": units, "units2": units2,
        "describe_first": describe_first, "threads": threads, "reporter": reporter, "second_final": rng.chance(0.3), "decoy": decoy,
    })
}

fn fill_report(r: &mut Report, plan: &Value, h: &[BEv]) {
    let keys = keys_of(plan);
    if jb(plan, "decoy", false) {
        r.probe("second_bridge_in_the_process", 1);
    }
    let mut st = BTreeSet::new();
    let mut in_read = false;
    let mut open_upd = 0u64;
    let mut read_tid = usize::MAX;
    for e in h {
        match &e.k {
            BK::ReadBegin { .. } => {
                in_read = true;
                read_tid = e.tid;
                if open_upd > 0 {
                    r.probe("readout_begins_inside_update", 1);
                }
            }
            BK::ReadEnd { out, .. } => {
                in_read = false;
                if out.metrics.iter().any(|m| matches!(m.obs.first(), Some(Obs::U(0)))) {
                    r.probe("zero_counter_emitted_with_emit_zero", 1);
                }
            }
            BK::UpdBegin { key, .. } => {
                open_upd += 1;
                if in_read && e.tid != read_tid {
                    let kind = keys.get(*key).map(|k| k.kind.as_str()).unwrap_or("");
                    r.probe(match kind {
                        "c" => "increment_during_readout",
                        "h" => "record_during_readout",
                        _ => "gauge_update_during_readout",
                    }, 1);
                }
            }
            BK::UpdEnd { .. } => open_upd = open_upd.saturating_sub(1),
            BK::DescBegin { .. } => {
                if in_read {
                    r.probe("describe_during_readout", 1);
                }
            }
            _ => {}
        }
        st.insert(mix(detsim::rng::hash_str(&format!("{:?}", std::mem::discriminant(&e.k))), (in_read as u64) << 8 | open_upd.min(4)));
    }
    let mut names: BTreeMap<&str, u32> = BTreeMap::new();
    for k in &keys {
        *names.entry(k.name.as_str()).or_insert(0) += 1;
    }
    if names.values().any(|n| *n >= 2) {
        r.probe("several_label_sets_under_one_name", 1);
    }
    r.states = st.into_iter().collect();
}

pub struct Bridge;

impl Scenario for Bridge {
    fn name(&self) -> &'static str {
        "bridge"
    }
    fn property(&self) -> &'static str {
        "C20"
    }
    fn weight(&self, _tier: Tier) -> u32 {
        4
    }
    fn generate(&self, rng: &mut Rng, tier: Tier) -> Value {
        gen_c20(rng, tier)
    }
    fn run(&self, plan: &Value) -> Report {
        let mut sched = sched_from_plan(plan);
        sched.now_cost_ns = 0;
        let log = BLog::default();
        let (l2, p2) = (log.clone(), plan.clone());
        let (out, _) = detsim::run(sched, move || bridge_main(&p2, l2));
        let h = log.snapshot();
        let mut r = Report::default();
        r.nontrivial = out.threads >= 2 && out.preemptions >= 1;
        r.case_sig = mix(out.sig, hash_value(&json!([plan.get("threads"), plan.get("reporter"), plan.get("keys")])));
        let failure = out.failure.clone();
        let mp = out.main_panic.clone();
        absorb_outcome(&mut r, out);
        fill_report(&mut r, plan, &h);
        // a run cut off by the step budget has no complete history to judge
        if !matches!(failure, Some(detsim::Failure::StepLimit { .. })) {
            r.violation = check_c20(plan, &h);
        }
        r.sample = Some(json!({"keys": plan.get("keys"), "emit_zero": plan.get("emit_zero"), "history": h.iter().take(80).map(|e| format!("#{} t{} {:?}", e.seq, e.tid, e.k)).collect::<Vec<_>>()}));
        if r.violation.is_none() {
            match failure {
                None => {}
                Some(f @ detsim::Failure::Deadlock { .. }) => r.violation = Some(Violation::new("deadlock", format!("{f:?}"))),
                Some(detsim::Failure::StepLimit { .. }) => r.inconclusive = true,
                Some(f) => r.harness_error = Some(format!("simulation failed: {f:?}")),
            }
            if let Some(p) = mp {
                if r.violation.is_none() {
                    r.violation = Some(Violation::new("panic", format!("bridge code panicked: {p}")));
                }
            }
        }
        r
    }
    fn probes(&self) -> Vec<&'static str> {
        vec!["increment_during_readout", "record_during_readout", "gauge_update_during_readout", "describe_during_readout", "readout_begins_inside_update", "zero_counter_emitted_with_emit_zero", "several_label_sets_under_one_name"]
    }
    fn components(&self) -> Value {
        json!({
            "real": ["MetricRecorder (registry, AtomicStorageWithHistogram, describe_*, register_*, readout)", "MetricAccumulatorEntry::write (Entry impl)", "metrics_histogram::Histogram (record/drain/midpoint)", "unit mapping", "metrics 0.24 Counter/Gauge/Histogram handles, with_local_recorder", "metrics-util Registry (atomic step)", "histogram::AtomicHistogram (atomic step)"],
            "simulated_seams": ["counter/gauge cells = detsim atomics (scheduling point before every atomic operation)", "histogram record/drain scheduling points", "TimeSource (readout timestamp)"],
            "harness": ["updater threads, recording EntryWriter"],
            "stub": ["the periodic tokio reporter task of reporter.rs: replaced by a simulated reporter thread that calls readout() (its body) at seeded points; the final readout is taken after all updaters joined"],
        })
    }
    fn rule(&self) -> &'static str {
        "each run: 1-4 metric keys (counters, histograms, multi-writer and single-owner gauges; several label sets under one name), describe before / concurrently / never, 1-4 updater threads with 1-14 updates each through cached or freshly registered handles (directly or via with_local_recorder), a reporter thread taking 0-5 readouts that race with the updates, then a final readout. non-trivial = >= 2 simulated threads and >= 1 preemption; distinct = distinct (plan, context-switch signature)"
    }
}

// ------------------------------------------------------------------------------------------
// the real reporter task (reporter.rs) on a paused-clock tokio runtime inside a simulated thread
// ------------------------------------------------------------------------------------------

#[derive(Clone)]
struct ReadoutSink {
    log: BLog,
    n: Arc<std::sync::atomic::AtomicU64>,
    wall: i64,
}

impl metrique_writer::AnyEntrySink for ReadoutSink {
    fn append_any(&self, entry: impl Entry + Send + 'static) {
        // the entry was produced by `readout()` some time after the previous one was appended
        let rid = self.n.fetch_add(1, Ordering::SeqCst) + 1;
        let out = replay_entry(&entry);
        self.log.log(BK::ReadEnd { rid, out });
        self.log.log(BK::ReadBegin { rid: rid + 1, wall_ns: self.wall });
        detsim::yield_point();
    }
    fn flush_async(&self) -> metrique_writer::sink::FlushWait {
        metrique_writer::sink::FlushWait::ready()
    }
}

/// The "join handle" half of `metrics_sink((sink, handle))`: the reporter drops it (on tokio's
/// blocking pool, a real thread outside the simulator) to shut the sink down, which must happen
/// after the final readout has been appended.
struct ShutdownProbe {
    appended: Arc<std::sync::atomic::AtomicU64>,
    at_drop: Arc<std::sync::atomic::AtomicU64>,
}
impl Drop for ShutdownProbe {
    fn drop(&mut self) {
        self.at_drop.store(self.appended.load(Ordering::SeqCst), Ordering::SeqCst);
    }
}

/// `metrics_io_stream(stream)`: the reporter builds its own `BackgroundQueue` around the stream (the writer thread is
/// one more simulated thread) and shuts it down through the queue's join handle. The stream sees readout k some time
/// after it was taken, so the windows are opened by the time source instead: every readout reads the wall clock
/// exactly once, hence all reads of readout k+1 happen after the k-th clock read.
struct ReadoutStream {
    log: BLog,
    n: u64,
}

impl metrique_writer::stream::EntryIoStream for ReadoutStream {
    fn next(&mut self, entry: &impl Entry) -> Result<(), metrique_writer::stream::IoStreamError> {
        self.n += 1;
        let out = replay_entry(entry);
        self.log.log(BK::ReadEnd { rid: self.n, out });
        detsim::yield_point();
        Ok(())
    }
    fn flush(&mut self) -> std::io::Result<()> {
        detsim::yield_point();
        Ok(())
    }
}

impl Drop for ReadoutStream {
    fn drop(&mut self) {
        self.log.log(BK::Note("sink_shutdown"));
    }
}

struct StampTime {
    inner: SimTime,
    log: BLog,
    n: std::sync::atomic::AtomicU64,
    wall_ns: i64,
}

impl std::fmt::Debug for StampTime {
    fn fmt(&self, f: &mut std::fmt::Formatter<'_>) -> std::fmt::Result {
        f.write_str("StampTime")
    }
}

impl metrique_timesource::Time for StampTime {
    fn now(&self) -> std::time::SystemTime {
        let k = self.n.fetch_add(1, Ordering::SeqCst) + 1;
        self.log.log(BK::ReadBegin { rid: k + 1, wall_ns: self.wall_ns });
        self.inner.now()
    }
    fn instant(&self) -> std::time::Instant {
        self.inner.instant()
    }
}

fn reporter_main(plan: &Value, log: BLog) {
    let wall_ns = 1_700_000_000_000_000_000i64 + ji(plan, "wall_off", 0);
    let wall = Arc::new(AtomicI64::new(wall_ns));
    let io_stream = jb(plan, "io_stream", false);
    let _ts = if io_stream {
        set_time_source(TimeSource::custom(StampTime { inner: SimTime::plain(wall.clone()), log: log.clone(), n: std::sync::atomic::AtomicU64::new(0), wall_ns }))
    } else {
        set_time_source(TimeSource::custom(SimTime::plain(wall.clone())))
    };
    let rt = tokio::runtime::Builder::new_current_thread().enable_time().start_paused(true).build().expect("runtime");
    // (u64::MAX stands for Duration::MAX: "publish at shutdown only")
    let interval = match ju(plan, "interval_ms", 60_000) {
        u64::MAX => std::time::Duration::MAX,
        ms => std::time::Duration::from_millis(ms),
    };
    let sink = ReadoutSink { log: log.clone(), n: Arc::new(std::sync::atomic::AtomicU64::new(0)), wall: wall_ns };
    let keys = keys_of(plan);
    rt.block_on(async {
        let l2 = log.clone();
        let at_drop = Arc::new(std::sync::atomic::AtomicU64::new(u64::MAX));
        let sync_handle = jb(plan, "sync_handle", false);
        let b = metrique_metricsrs::MetricReporter::builder()
            .emit_zero_counters(jb(plan, "emit_zero", false))
            .metrics_publish_interval(interval)
            .metrics_rs_version::<dyn metrics::Recorder>();
        let (reporter, rec) = if io_stream {
            b.metrics_io_stream(ReadoutStream { log: log.clone(), n: 0 }).build_without_installing()
        } else if sync_handle {
            b.metrics_sink((sink.clone(), ShutdownProbe { appended: sink.n.clone(), at_drop: at_drop.clone() })).build_without_installing()
        } else {
            b.metrics_sink_async_shutdown(sink.clone(), async move {
                l2.log(BK::Note("sink_shutdown"));
            })
            .build_without_installing()
        };
        log.log(BK::ReadBegin { rid: 1, wall_ns });
        for d in ja(plan, "describe_first") {
            if let Some(n) = d.as_str() {
                describe(&rec, &log, plan, n, 1);
            }
        }
        // every key exists before the reporter task can run (see RegistryGate: creation must not
        // overlap a readout, and here the readouts are not under the harness's control)
        let gate = RegistryGate::default();
        let mut held: BTreeMap<usize, Handle> = BTreeMap::new();
        for (ki, spec) in keys.iter().enumerate() {
            held.insert(ki, register(&rec, spec));
            gate.created.lock().unwrap().insert(ki);
            log.log(BK::RegEnd { key: ki });
        }
        let mut hs = vec![];
        for (i, t) in ja(plan, "threads").iter().enumerate() {
            let ops: Vec<Value> = t.as_array().cloned().unwrap_or_default();
            let (r2, l2, p2, g2, h2) = (rec.clone(), log.clone(), plan.clone(), gate.clone(), held.clone());
            hs.push(detsim::thread::spawn_named(&format!("u{}", i + 1), move || updater(r2, l2, p2, ops, g2, Some(h2))));
        }
        for op in ja(plan, "driver") {
            match js(op, "op", "") {
                "tick" => tokio::time::sleep(std::time::Duration::from_millis(ju(op, "ms", 0))).await,
                // the handle "may be freely cloned": a clone handed to some helper comes and goes
                "clone_drop" => {
                    let c = reporter.clone();
                    detsim::yield_point();
                    drop(c);
                }
                "yield" => detsim::yield_point(),
                "tokio_yield" => tokio::task::yield_now().await,
                _ => {}
            }
        }
        for h in hs {
            let _ = h.join();
        }
        log.log(BK::Note("all_joined"));
        if jb(plan, "flush_before_shutdown", false) {
            reporter.flush().await;
        }
        reporter.shutdown().await;
        if sync_handle && !io_stream {
            log.log(BK::ShutdownProbe { at_drop: at_drop.load(Ordering::SeqCst), total: sink.n.load(Ordering::SeqCst) });
            log.log(BK::Note("sink_shutdown"));
        }
        log.log(BK::Note("shutdown_returned"));
    });
}

pub fn gen_c20_reporter(rng: &mut Rng, tier: Tier) -> Value {
    let mut plan = gen_c20(rng, tier);
    let interval_ms = *rng.pick(&[1u64, 1000, 60_000, 3_600_000, u64::MAX]);
    let tick_ms = if interval_ms == u64::MAX { 60_000 } else { interval_ms };
    let mut driver: Vec<Value> = vec![];
    for _ in 0..rng.below(5) {
        match rng.below(5) {
            4 => driver.push(json!({"op":"clone_drop"})),
            0 => driver.push(json!({"op":"yield"})),
            1 => driver.push(json!({"op":"tokio_yield"})),
            _ => {
                let k = *rng.pick(&[0u64, 1, 1, 2, 3]);
                let frac = *rng.pick(&[0u64, 0, 1, 2]);
                driver.push(json!({"op":"tick","ms": tick_ms * k + tick_ms * frac / 3}));
            }
        }
    }
    plan["driver"] = json!(driver);
    plan["interval_ms"] = json!(interval_ms);
    plan["wall_off"] = json!(rng.below(1_000_000_000_000));
    plan["flush_before_shutdown"] = json!(rng.chance(0.3));
    plan["sync_handle"] = json!(rng.chance(0.4));
    plan["strip_timestamp"] = json!(false);
    // a quarter of the runs: the reporter owns a BackgroundQueue around a stream (`metrics_io_stream`)
    plan["io_stream"] = json!(rng.chance(0.25));
    plan.as_object_mut().unwrap().remove("reporter");
    plan
}

pub struct BridgeReporter;

impl Scenario for BridgeReporter {
    fn name(&self) -> &'static str {
        "bridge_reporter"
    }
    fn property(&self) -> &'static str {
        "C20"
    }
    fn weight(&self, _tier: Tier) -> u32 {
        1
    }
    fn generate(&self, rng: &mut Rng, tier: Tier) -> Value {
        gen_c20_reporter(rng, tier)
    }
    fn run(&self, plan: &Value) -> Report {
        let mut sched = sched_from_plan(plan);
        sched.now_cost_ns = 0;
        let log = BLog::default();
        let (l2, p2) = (log.clone(), plan.clone());
        let (out, _) = detsim::run(sched, move || reporter_main(&p2, l2));
        let mut h = log.snapshot();
        // the sink opens a window for the *next* readout each time it receives one; the last
        // window never closes
        if let Some(pos) = h.iter().rposition(|e| matches!(e.k, BK::ReadBegin { .. })) {
            h.remove(pos);
        }
        let mut r = Report::default();
        r.nontrivial = out.threads >= 2 && out.preemptions >= 1;
        r.case_sig = mix(out.sig, hash_value(&json!([plan.get("threads"), plan.get("driver"), plan.get("keys")])));
        let failure = out.failure.clone();
        let mp = out.main_panic.clone();
        absorb_outcome(&mut r, out);
        fill_report(&mut r, plan, &h);
        let periodic = h.iter().filter(|e| matches!(e.k, BK::ReadEnd { .. })).count();
        if periodic >= 2 {
            r.probe("periodic_readout_by_real_reporter_task", periodic as u64 - 1);
        }
        if jb(plan, "io_stream", false) && periodic >= 1 {
            r.probe("readout_through_reporter_owned_background_queue", periodic as u64);
        }
        // a run cut off by the step budget has no complete history to judge
        if !matches!(failure, Some(detsim::Failure::StepLimit { .. })) {
            r.violation = check_c20(plan, &h);
        }
        if r.violation.is_none() {
            if let Some((at_drop, total)) = h.iter().find_map(|e| if let BK::ShutdownProbe { at_drop, total } = &e.k { Some((*at_drop, *total)) } else { None }) {
                r.probe("sync_shutdown_handle", 1);
                if at_drop != total {
                    r.violation = Some(Violation::new("shutdown_before_final_readout", if at_drop == u64::MAX { "MetricReporter::shutdown returned but the sink's shutdown handle was never dropped".to_string() } else { format!("the sink's shutdown handle was dropped when {at_drop} readouts had been appended, but {total} were appended in all: the sink was being shut down before the final readout reached it") }));
                }
            }
        }
        if r.violation.is_none() && failure.is_none() && mp.is_none() {
            let joined = h.iter().find(|e| matches!(e.k, BK::Note("all_joined"))).map(|e| e.seq);
            let shut = h.iter().find(|e| matches!(e.k, BK::Note("sink_shutdown"))).map(|e| e.seq);
            let ret = h.iter().find(|e| matches!(e.k, BK::Note("shutdown_returned"))).map(|e| e.seq);
            let last_read = h.iter().filter(|e| matches!(e.k, BK::ReadEnd { .. })).map(|e| e.seq).max();
            match (joined, shut, ret, last_read) {
                (Some(j), Some(s), Some(rt), Some(lr)) => {
                    if !(j < lr && lr < s && s < rt) {
                        r.violation = Some(Violation::new("shutdown_order", format!("MetricReporter::shutdown: expected final readout (seq {lr}) after the last update (joined at {j}), then the sink shutdown ({s}), then return ({rt})")));
                    }
                }
                _ => r.violation = Some(Violation::new("shutdown_incomplete", format!("MetricReporter::shutdown returned without a final readout / sink shutdown (joined {joined:?}, sink_shutdown {shut:?}, returned {ret:?}, last readout {last_read:?})"))),
            }
        }
        r.sample = Some(json!({"keys": plan.get("keys"), "driver": plan.get("driver"), "history": h.iter().take(80).map(|e| format!("#{} t{} {:?}", e.seq, e.tid, e.k)).collect::<Vec<_>>()}));
        if r.violation.is_none() {
            match failure {
                None => {}
                Some(f @ detsim::Failure::Deadlock { .. }) => r.violation = Some(Violation::new("deadlock", format!("{f:?}"))),
                Some(detsim::Failure::StepLimit { .. }) => r.inconclusive = true,
                Some(f) => r.harness_error = Some(format!("simulation failed: {f:?}")),
            }
            if let Some(p) = mp {
                if r.violation.is_none() {
                    r.violation = Some(Violation::new("panic", format!("bridge code panicked: {p}")));
                }
            }
        }
        r
    }
    fn probes(&self) -> Vec<&'static str> {
        vec!["increment_during_readout", "record_during_readout", "gauge_update_during_readout", "periodic_readout_by_real_reporter_task", "sync_shutdown_handle", "readout_through_reporter_owned_background_queue"]
    }
    fn components(&self) -> Value {
        json!({
            "real": ["MetricReporter builder / spawn_metric_reporter task (periodic readout loop, final readout at shutdown, async sink shutdown)", "tokio current-thread runtime with paused clock (timers auto-advance; runs on one simulated thread)", "everything listed under scenario `bridge`"],
            "simulated_seams": ["as in `bridge`"],
            "harness": ["recording AnyEntrySink as the reporter's destination; updater threads"],
            "stub": ["tokio's clock is tokio's own paused clock, not the simulator's (readouts happen when the driver task sleeps); spawn_blocking shutdown path (SyncHandle) not exercised"],
        })
    }
    fn rule(&self) -> &'static str {
        "each run: the plan of `bridge` with all keys registered up front, the real MetricReporter task publishing every interval on a paused-clock tokio runtime that lives on one simulated thread, a driver sleeping 0-3.67 intervals at a time, updater threads racing with the task's readouts, then join + shutdown (final readout). Readout windows are conservative: from the previous append to this append. non-trivial / distinct as in `bridge`"
    }
}
