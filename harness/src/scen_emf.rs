//! C14 (formatter statelessness over call histories) and C16 (partial writes / I/O errors).
//! Real code: Emf / EmfBuilder / SampledEmf / EntryWriter / write_all_vectored / PrefixedStringBuf,
//! FlushImmediately / AnyFlushImmediately, tee, output_to. Harness: generated entries, the
//! fault-scripted io::Write, recording streams. The formatter-level scenarios are single-threaded:
//! the simulated "network and disk" is the writer argument; no scheduler is involved.

use std::borrow::Cow;
use std::collections::{BTreeMap, BTreeSet};
use std::io;
use std::sync::{Arc, Mutex};
use std::time::{Duration, SystemTime};

use detsim::rng::{mix, Rng};
use metrique_writer::format::Format;
use metrique_writer::sink::FlushImmediately;
use metrique_writer::{AnyEntrySink, Entry, EntryIoStream, EntryIoStreamExt, EntrySink, EntryWriter, FormatExt, IoStreamError, MetricFlags, Observation, Unit, Value, ValueWriter};
use metrique_writer_core::config::MetriqueValidationError;
use metrique_writer_core::sample::SampledFormat;
use metrique_writer_core::unit::{NegativeScale, PositiveScale};
use metrique_writer_format_emf::{AllowSplitEntries, Emf, EntryDimensions, HighStorageResolution, NoMetric};
use serde_json::{json, Value as J};

use crate::common::*;
use crate::framework::*;

// ------------------------------------------------------------------------------------------
// generated entries
// ------------------------------------------------------------------------------------------

pub struct GenEntry {
    items: Vec<J>,
    split: AllowSplitEntries,
    entry_dims: Vec<EntryDimensions>,
    huge: String,
    /// (metric name, value of its one dimension) of the `many_metrics` item
    wide: Vec<(String, String)>,
}

struct WideMetric<'a>(&'a str, u64);
impl Value for WideMetric<'_> {
    fn write(&self, writer: impl ValueWriter) {
        writer.metric([Observation::Unsigned(self.1)], Unit::Count, [("shard", self.0)], MetricFlags::empty());
    }
}

impl GenEntry {
    pub fn from_spec(spec: &J) -> GenEntry {
        let items: Vec<J> = ja(spec, "items").to_vec();
        let mut entry_dims = vec![];
        for it in &items {
            if js(it, "k", "") == "entry_dims" {
                let sets: Vec<Cow<'static, [Cow<'static, str>]>> = ja(it, "sets")
                    .iter()
                    .map(|s| Cow::Owned(s.as_array().map(|a| a.iter().map(|x| Cow::Owned(x.as_str().unwrap_or("").to_string())).collect::<Vec<Cow<'static, str>>>()).unwrap_or_default()))
                    .collect();
                entry_dims.push(EntryDimensions::new(Cow::Owned(sets)));
            }
        }
        let huge_len = items.iter().filter(|i| js(i, "k", "") == "huge").map(|i| ju(i, "len", 0)).max().unwrap_or(0);
        let wide = items.iter().filter(|i| js(i, "k", "") == "many_metrics").map(|i| (ju(i, "n", 0), ju(i, "tag", 0))).next().map(|(n, tag)| (0..n).map(|i| (format!("W{i}"), format!("w{tag}x{i}"))).collect()).unwrap_or_default();
        GenEntry { items, split: AllowSplitEntries::new(), entry_dims, huge: "h".repeat(huge_len as usize), wide }
    }
}

struct GenMetric<'a> {
    obs: &'a [J],
    unit: u64,
    dims: &'a [J],
}

fn unit_of(u: u64) -> Unit {
    match u % 8 {
        0 => Unit::None,
        1 => Unit::Count,
        2 => Unit::Percent,
        3 => Unit::Second(NegativeScale::Milli),
        4 => Unit::Byte(PositiveScale::Kilo),
        5 => Unit::BitPerSecond(PositiveScale::Mega),
        6 => Unit::Custom("Widgets"),
        _ => Unit::Second(NegativeScale::Micro),
    }
}

fn obs_of(o: &J) -> Observation {
    match js(o, "t", "u") {
        "f" => Observation::Floating(match js(o, "special", "") {
            "nan" => f64::NAN,
            "inf" => f64::INFINITY,
            "ninf" => f64::NEG_INFINITY,
            "zero" => 0.0,
            "nzero" => -0.0,
            _ => jf(o, "v", 0.0),
        }),
        "r" => Observation::Repeated { total: jf(o, "total", 0.0), occurrences: ju(o, "n", 0) },
        // fault: user code inside the entry panics while the formatter is in the middle of a metric
        "panic" => std::panic::panic_any("harness: the value's observation iterator panics"),
        _ => Observation::Unsigned(ju(o, "v", 0)),
    }
}

impl Value for GenMetric<'_> {
    fn write(&self, writer: impl ValueWriter) {
        // a value that reports a validation error of its own instead of a metric
        if self.obs.iter().any(|o| js(o, "t", "") == "err") {
            return writer.error(metrique_writer_core::ValidationError::invalid("the value says it is invalid"));
        }
        let dims: Vec<(&str, &str)> = self.dims.iter().filter_map(|d| d.as_array()).filter(|a| a.len() == 2).map(|a| (a[0].as_str().unwrap_or(""), a[1].as_str().unwrap_or(""))).collect();
        // {"t":"range","from":f,"n":n}: n distinct unsigned observations f, f+1, ... (a metric whose record is huge)
        let all = self.obs.iter().flat_map(|o| -> Box<dyn Iterator<Item = Observation> + '_> {
            if js(o, "t", "") == "range" {
                let from = ju(o, "from", 0);
                Box::new((0..ju(o, "n", 0)).map(move |i| Observation::Unsigned(from + i)))
            } else {
                Box::new(std::iter::once_with(move || obs_of(o)))
            }
        });
        writer.metric(all, unit_of(self.unit), dims, MetricFlags::empty());
    }
}

struct GenStr<'a>(&'a str);
impl Value for GenStr<'_> {
    fn write(&self, writer: impl ValueWriter) {
        writer.string(self.0)
    }
}

impl Entry for GenEntry {
    fn write<'a>(&'a self, w: &mut impl EntryWriter<'a>) {
        let mut ed = 0;
        for it in &self.items {
            match js(it, "k", "") {
                "ts" => w.timestamp(SystemTime::UNIX_EPOCH + Duration::from_millis(ju(it, "ms", 0))),
                "str" => w.value(js(it, "name", "").to_string(), &GenStr(js(it, "text", ""))),
                "huge" => w.value(js(it, "name", "Huge").to_string(), &GenStr(&self.huge)),
                "metric" => {
                    let m = GenMetric { obs: ja(it, "obs"), unit: ju(it, "unit", 0), dims: ja(it, "dims") };
                    match ju(it, "flag", 0) {
                        1 => w.value(js(it, "name", "").to_string(), &HighStorageResolution::from(m)),
                        2 => w.value(js(it, "name", "").to_string(), &NoMetric::from(m)),
                        // nested flags: the options of both wrappers are merged
                        3 => w.value(js(it, "name", "").to_string(), &HighStorageResolution::from(NoMetric::from(m))),
                        4 => w.value(js(it, "name", "").to_string(), &NoMetric::from(HighStorageResolution::from(m))),
                        5 => w.value(js(it, "name", "").to_string(), &HighStorageResolution::<HighStorageResolution<GenMetric>>::from(HighStorageResolution::from(m))),
                        _ => w.value(js(it, "name", "").to_string(), &m),
                    }
                }
                "split" => w.config(&self.split),
                // {"k":"many_metrics","n":N,"tag":t}: N metrics, each under a dimension set of its own (with "split": N records)
                "many_metrics" => {
                    for i in 0..ju(it, "n", 0) as usize {
                        if let Some((name, dim)) = self.wide.get(i) {
                            w.value(name.as_str(), &WideMetric(dim.as_str(), i as u64));
                        }
                    }
                }
                "entry_dims" => {
                    if let Some(d) = self.entry_dims.get(ed) {
                        w.config(d);
                    }
                    ed += 1;
                }
                _ => {}
            }
        }
    }
}

const WEIRD: [&str; 8] = ["plain", "with \"quotes\"", "back\\slash", "tab\tnew\nline", "uni\u{e9}\u{4e16}\u{1F600}", "", "ctl\u{1}\u{1f}", "</script>"];

/// Generate (formatter config, entry spec). `defect` adds one validation defect.
pub fn gen_config(rng: &mut Rng) -> J {
    let dimsets = match rng.below(5) {
        0 => json!([[]]),
        1 => json!([["az"]]),
        2 => json!([["az"], ["az", "op"]]),
        3 => json!([[], ["op"]]),
        _ => json!([["az", "op", "host"]]),
    };
    let nns = 1 + rng.below(3);
    json!({
        "namespaces": (0..nns).map(|i| format!("Ns{i}")).collect::<Vec<_>>(),
        "dims": dimsets,
        "skip_validations": rng.chance(0.25),
        "allow_ignored_dimensions": rng.chance(0.3),
        "log_group": if rng.chance(0.3) { json!("my/log group") } else { J::Null },
        "sampled": rng.chance(0.3),
        "extra_directive": rng.chance(0.25),
    })
}

pub fn build_emf(cfg: &J) -> Emf {
    let ns: Vec<String> = ja(cfg, "namespaces").iter().map(|x| x.as_str().unwrap_or("Ns").to_string()).collect();
    let dims: Vec<Vec<String>> = ja(cfg, "dims").iter().map(|s| s.as_array().map(|a| a.iter().map(|x| x.as_str().unwrap_or("").to_string()).collect()).unwrap_or_default()).collect();
    let dims = if dims.is_empty() { vec![vec![]] } else { dims };
    let mut b = Emf::builder(ns.first().cloned().unwrap_or_else(|| "Ns".into()), dims);
    for n in ns.iter().skip(1) {
        b = b.add_namespace(n.clone());
    }
    if jb(cfg, "skip_validations", false) {
        b = b.skip_all_validations(true);
    }
    if jb(cfg, "allow_ignored_dimensions", false) {
        b = b.allow_ignored_dimensions(true);
    }
    if let Some(lg) = cfg.get("log_group").and_then(|x| x.as_str()) {
        b = b.log_group_name(lg.to_string());
    }
    if jb(cfg, "extra_directive", false) {
        use metrique_writer_format_emf::{MetricDefinition, MetricDirective, StorageResolution};
        b = b.directive(MetricDirective {
            dimensions: vec![vec!["az"], vec![]],
            metrics: vec![
                MetricDefinition { name: "Extra", unit: Unit::Count, storage_resolution: None },
                MetricDefinition { name: "ExtraFast", unit: Unit::Second(NegativeScale::Milli), storage_resolution: Some(StorageResolution::Second) },
            ],
            namespace: "ExtraNs",
        });
    }
    b.build()
}

fn cfg_dim_names(cfg: &J) -> Vec<String> {
    let mut s = BTreeSet::new();
    for set in ja(cfg, "dims") {
        for d in set.as_array().map(|a| a.as_slice()).unwrap_or(&[]) {
            if let Some(d) = d.as_str() {
                s.insert(d.to_string());
            }
        }
    }
    s.into_iter().collect()
}

pub fn gen_entry(rng: &mut Rng, cfg: &J, allow_defect: bool, allow_huge: bool) -> J {
    let mut items: Vec<J> = vec![];
    // always a timestamp: without one the formatter falls back to SystemTime::now(), which has no
    // seam (DESIGN.md section 3.3), and byte-exact comparison would be meaningless
    items.push(json!({"k":"ts","ms": 1_700_000_000_000u64 + rng.below(1_000_000)}));
    for d in cfg_dim_names(cfg) {
        items.push(json!({"k":"str","name":d,"text": *rng.pick(&["us-east-1a", "Get", "h-1", "x y"])}));
    }
    let split = rng.chance(0.3);
    if split {
        items.push(json!({"k":"split"}));
    }
    if rng.chance(0.3) {
        items.push(json!({"k":"entry_dims","sets": if rng.chance(0.5) { json!([["tenant"]]) } else { json!([[], ["tenant"]]) }}));
        // defects that only concern the entry's own dimensions: the dimension field is missing,
        // or a metric is written under the dimension's name (the same EntryDimensions value
        // recurs across the entries of a history, valid and invalid)
        match if allow_defect { rng.below(8) } else { 7 } {
            0 => {}
            1 => items.push(json!({"k":"metric","name":"tenant","obs":[{"t":"u","v":1}],"unit":0,"dims":[],"flag":0})),
            _ => items.push(json!({"k":"str","name":"tenant","text": *rng.pick(&["t1", "t1", "t2"])})),
        }
    }
    let nm = 1 + rng.below(5);
    for i in 0..nm {
        let nobs = rng.below(4);
        let mut obs = vec![];
        for _ in 0..nobs {
            obs.push(match if allow_defect && rng.chance(0.02) { 99 } else { rng.below(8) } {
                99 => json!({"t":"panic"}),
                0 => json!({"t":"f","v": rng.f64() * 1e6}),
                1 => json!({"t":"f","special": *rng.pick(&["nan", "inf", "ninf"])}),
                2 => json!({"t":"r","total": rng.f64() * 100.0, "n": rng.below(5)}),
                3 => json!({"t":"f","v": -1.5}),
                _ => json!({"t":"u","v": rng.below(1_000_000)}),
            });
        }
        if nobs == 0 && rng.chance(0.7) {
            obs.push(json!({"t":"u","v": rng.below(100)}));
        }
        let dims = if split && rng.chance(0.6) { json!([["shard", format!("s{}", rng.below(3))]]) } else if !split && rng.chance(0.08) { json!([["shard", "s0"]]) } else { json!([]) };
        items.push(json!({"k":"metric","name": format!("M{i}"),"obs":obs,"unit": rng.below(8),"dims":dims,"flag": *rng.pick(&[0u64, 0, 0, 0, 1, 2, 3, 4, 5])}));
    }
    for i in 0..rng.below(3) {
        items.push(json!({"k":"str","name": format!("S{i}"),"text": *rng.pick(&WEIRD)}));
    }
    if allow_huge && rng.chance(0.03) {
        items.push(json!({"k":"huge","name":"Huge","len": 2_000_000 + rng.below(1_000_000)}));
    }
    if allow_defect && rng.chance(0.2) {
        match rng.below(11) {
            7 => items.push(json!({"k":"str","name":"S0","text":"again"})), // a string field written twice (or once, if there is no S0)
            8 => items.push(json!({"k":"str","name":"M0","text":"a string under a metric's name"})),
            9 => items.push(json!({"k":"metric","name":"Bad","obs":[{"t":"err"}],"unit":0,"dims":[],"flag":0})), // the value itself reports an error
            10 => {
                // a declared dimension written twice
                if let Some(d) = cfg_dim_names(cfg).first() {
                    items.push(json!({"k":"str","name":d,"text":"twice"}));
                }
            }
            0 => items.push(json!({"k":"metric","name":"M0","obs":[{"t":"u","v":1}],"unit":0,"dims":[],"flag":0})), // duplicate name
            1 => items.push(json!({"k":"ts","ms": 5})),                                                                // second timestamp
            2 => items.push(json!({"k":"metric","name":"","obs":[{"t":"u","v":1}],"unit":0,"dims":[],"flag":0})),    // empty name
            3 => items.push(json!({"k":"str","name":"_aws","text":"x"})),                                              // reserved name
            4 => {
                // drop a declared dimension
                if let Some(p) = items.iter().position(|i| js(i, "k", "") == "str" && cfg_dim_names(cfg).contains(&js(i, "name", "").to_string())) {
                    items.remove(p);
                }
            }
            5 => items.push(json!({"k":"entry_dims","sets": []})), // empty entry-dimension configuration
            _ => {
                // metric under a dimension name
                if let Some(d) = cfg_dim_names(cfg).first() {
                    items.push(json!({"k":"metric","name":d,"obs":[{"t":"u","v":1}],"unit":0,"dims":[],"flag":0}));
                }
            }
        }
    }
    json!({"items": items})
}

// ------------------------------------------------------------------------------------------
// the fault-scripted writer
// ------------------------------------------------------------------------------------------

#[derive(Clone, Debug, PartialEq)]
pub enum WFault {
    None,
    /// accept only `k` bytes of this call
    Short(usize),
    Interrupted,
    Zero,
    Hard(io::ErrorKind),
}

pub struct FaultyWriter {
    pub received: Vec<u8>,
    pub calls: usize,
    /// max bytes accepted per call (0 = unlimited)
    pub chunk: usize,
    /// fault at a given call index
    pub at_call: BTreeMap<usize, WFault>,
    /// one short write when the cumulative offset would cross `k`
    pub short_at_offset: Option<usize>,
    pub vectored: bool,
    pub fired: BTreeMap<&'static str, u64>,
    pub flush_err: bool,
    /// more write calls than this for one entry = the formatter is not making progress
    pub call_budget: usize,
    pub stalled: bool,
    /// indices of `flush` calls that fail (besides `flush_err` = all of them)
    pub flush_fail_at: BTreeSet<usize>,
    pub flush_calls: usize,
    /// global sequence number of the last write call, and (sequence number, ok) of every flush call
    pub last_write_seq: u64,
    pub flushes: Vec<(u64, bool)>,
}

impl FaultyWriter {
    pub fn perfect() -> Self {
        FaultyWriter { received: vec![], calls: 0, chunk: 0, at_call: BTreeMap::new(), short_at_offset: None, vectored: true, fired: BTreeMap::new(), flush_err: false, call_budget: 50_000_000, stalled: false, flush_fail_at: BTreeSet::new(), flush_calls: 0, last_write_seq: 0, flushes: vec![] }
    }
    fn fire(&mut self, k: &'static str) {
        *self.fired.entry(k).or_insert(0) += 1;
    }
    fn step(&mut self, bufs: &[&[u8]]) -> io::Result<usize> {
        let idx = self.calls;
        self.calls += 1;
        if detsim::in_sim() {
            self.last_write_seq = detsim::next_seq();
        }
        if self.calls > self.call_budget {
            self.stalled = true;
            return Err(io::Error::other("harness: write-call budget exhausted"));
        }
        let total: usize = bufs.iter().map(|b| b.len()).sum();
        let mut allow = total;
        match self.at_call.get(&idx).cloned().unwrap_or(WFault::None) {
            WFault::None => {}
            WFault::Short(k) => {
                allow = allow.min(k.max(1));
                self.fire("writer_short");
            }
            WFault::Interrupted => {
                self.fire("writer_interrupted");
                return Err(io::ErrorKind::Interrupted.into());
            }
            WFault::Zero => {
                self.fire("writer_zero");
                return Ok(0);
            }
            WFault::Hard(k) => {
                self.fire("writer_hard_err");
                return Err(k.into());
            }
        }
        if self.chunk > 0 && allow > self.chunk {
            allow = self.chunk;
            self.fire("writer_short");
        }
        if let Some(k) = self.short_at_offset {
            let off = self.received.len();
            if off < k && off + allow > k {
                allow = k - off;
                self.short_at_offset = None;
                self.fire("writer_short");
            }
        }
        let mut left = allow;
        for b in bufs {
            let n = left.min(b.len());
            self.received.extend_from_slice(&b[..n]);
            left -= n;
            if left == 0 {
                break;
            }
        }
        Ok(allow)
    }
}

impl io::Write for FaultyWriter {
    fn write(&mut self, buf: &[u8]) -> io::Result<usize> {
        self.step(&[buf])
    }
    fn write_vectored(&mut self, bufs: &[io::IoSlice<'_>]) -> io::Result<usize> {
        if self.vectored {
            let v: Vec<&[u8]> = bufs.iter().map(|b| &**b).collect();
            self.step(&v)
        } else {
            // a writer that only implements `write`: std's default picks the first non-empty slice
            let first = bufs.iter().find(|b| !b.is_empty()).map(|b| &**b).unwrap_or(&[]);
            self.step(&[first])
        }
    }
    fn flush(&mut self) -> io::Result<()> {
        let idx = self.flush_calls;
        self.flush_calls += 1;
        let ok = !self.flush_err && !self.flush_fail_at.contains(&idx);
        if detsim::in_sim() {
            self.flushes.push((detsim::next_seq(), ok));
        }
        if !ok {
            self.fire("writer_flush_err");
            return Err(io::Error::other("scripted flush error"));
        }
        Ok(())
    }
}

fn result_class(r: &Result<(), IoStreamError>) -> String {
    match r {
        Ok(()) => "ok".into(),
        Err(IoStreamError::Validation(_)) => "validation".into(),
        Err(IoStreamError::Io(e)) => format!("io:{:?}", e.kind()),
    }
}

pub struct ConstRng(pub u64);
impl rand_core::RngCore for ConstRng {
    fn next_u32(&mut self) -> u32 {
        (self.0 >> 32) as u32
    }
    fn next_u64(&mut self) -> u64 {
        self.0
    }
    fn fill_bytes(&mut self, dst: &mut [u8]) {
        for (i, b) in dst.iter_mut().enumerate() {
            *b = (self.0 >> ((i % 8) * 8)) as u8;
        }
    }
}

/// RNG whose next value the harness sets before each call.
#[derive(Clone)]
pub struct CellRng(pub Arc<std::sync::atomic::AtomicU64>);
impl rand_core::RngCore for CellRng {
    fn next_u32(&mut self) -> u32 {
        (self.next_u64() >> 32) as u32
    }
    fn next_u64(&mut self) -> u64 {
        self.0.load(std::sync::atomic::Ordering::SeqCst)
    }
    fn fill_bytes(&mut self, dst: &mut [u8]) {
        let v = self.next_u64();
        for (i, b) in dst.iter_mut().enumerate() {
            *b = (v >> ((i % 8) * 8)) as u8;
        }
    }
}

enum Fmt {
    Plain(Emf),
    Sampled(metrique_writer_format_emf::SampledEmf<CellRng>, Arc<std::sync::atomic::AtomicU64>),
}

impl Fmt {
    fn build(cfg: &J) -> Fmt {
        let e = build_emf(cfg);
        if jb(cfg, "sampled", false) {
            let cell = Arc::new(std::sync::atomic::AtomicU64::new(0));
            Fmt::Sampled(e.with_sampling_and_rng(CellRng(cell.clone())), cell)
        } else {
            Fmt::Plain(e)
        }
    }
    fn call(&mut self, entry: &impl Entry, out: &mut impl io::Write, sampled: Option<(f32, u64)>) -> Result<(), IoStreamError> {
        match self {
            Fmt::Plain(e) => e.format(entry, out),
            Fmt::Sampled(s, cell) => match sampled {
                Some((rate, draw)) => {
                    cell.store(draw, std::sync::atomic::Ordering::SeqCst);
                    s.format_with_sample_rate(entry, out, rate)
                }
                None => s.format(entry, out),
            },
        }
    }
}

/// Format one entry with the (cloned) formatter, sampled or not.
fn fmt_once(emf: &mut Emf, sampled: Option<(f32, u64)>, entry: &GenEntry, out: &mut impl io::Write) -> Result<(), IoStreamError> {
    match sampled {
        None => emf.format(entry, out),
        Some((rate, draw)) => {
            let mut s = emf.clone().with_sampling_and_rng(ConstRng(draw));
            let r = s.format_with_sample_rate(entry, out, rate);
            r
        }
    }
}

/// The writer handed to the format -> stream glue: every call goes to whatever FaultyWriter is in
/// the cell at that moment (so the harness can swap in a perfect writer for the follow-up entry).
pub struct CellW<'c>(pub &'c std::cell::RefCell<FaultyWriter>);
impl io::Write for CellW<'_> {
    fn write(&mut self, buf: &[u8]) -> io::Result<usize> {
        self.0.borrow_mut().write(buf)
    }
    fn write_vectored(&mut self, bufs: &[io::IoSlice<'_>]) -> io::Result<usize> {
        self.0.borrow_mut().write_vectored(bufs)
    }
    fn flush(&mut self) -> io::Result<()> {
        self.0.borrow_mut().flush()
    }
}

/// How the formatter is bound to its output: called directly, through `FormatExt::output_to`
/// (one long-lived writer) or through `FormatExt::output_to_makewriter` (a writer per entry).
enum Glue<'c> {
    Direct(Emf),
    OutputTo(metrique_writer::format::FormattedEntryIoStream<Emf, CellW<'c>>),
    MakeWriter(metrique_writer::format::FormattedMakeWriterEntryIoStream<Emf, Box<dyn Fn() -> CellW<'c> + 'c>>),
}

impl<'c> Glue<'c> {
    fn new(kind: &str, emf: Emf, cell: &'c std::cell::RefCell<FaultyWriter>) -> Glue<'c> {
        match kind {
            "output_to" => Glue::OutputTo(emf.output_to(CellW(cell))),
            "makewriter" => Glue::MakeWriter(emf.output_to_makewriter(Box::new(move || CellW(cell)) as Box<dyn Fn() -> CellW<'c> + 'c>)),
            _ => Glue::Direct(emf),
        }
    }
    fn call(&mut self, sampled: Option<(f32, u64)>, entry: &GenEntry, cell: &std::cell::RefCell<FaultyWriter>) -> Result<(), IoStreamError> {
        match self {
            Glue::Direct(emf) => fmt_once(emf, sampled, entry, &mut CellW(cell)),
            Glue::OutputTo(st) => st.next(entry),
            Glue::MakeWriter(st) => st.next(entry),
        }
    }
}

// ------------------------------------------------------------------------------------------
// C16 (a): fault enumeration at formatter level
// ------------------------------------------------------------------------------------------

/// Every kind but `Interrupted` is a hard error for the formatter (surfaced as an I/O error for that entry).
const HARD_KINDS: [io::ErrorKind; 14] = [
    io::ErrorKind::BrokenPipe,
    io::ErrorKind::StorageFull,
    io::ErrorKind::Other,
    io::ErrorKind::InvalidInput,
    io::ErrorKind::InvalidData,
    io::ErrorKind::WouldBlock,
    io::ErrorKind::TimedOut,
    io::ErrorKind::WriteZero,
    io::ErrorKind::UnexpectedEof,
    io::ErrorKind::PermissionDenied,
    io::ErrorKind::ConnectionReset,
    io::ErrorKind::OutOfMemory,
    io::ErrorKind::Unsupported,
    io::ErrorKind::NotFound,
];

pub struct EmfWriterFaults;

fn check_faulty(expect: &[u8], w: &FaultyWriter, r: &Result<(), IoStreamError>, what: &str) -> Option<Violation> {
    if w.stalled {
        return Some(Violation::new("formatter_stalls", format!("{what}: after {} write calls for a record of {} bytes the formatter was still writing ({} bytes handed over so far): it repeats or never finishes", w.calls, expect.len(), w.received.len())));
    }
    match r {
        Ok(()) => {
            if w.received != expect {
                let pos = w.received.iter().zip(expect.iter()).position(|(a, b)| a != b).unwrap_or(w.received.len().min(expect.len()));
                let lo = pos.saturating_sub(60);
                let snip = |b: &[u8]| String::from_utf8_lossy(&b[lo.min(b.len())..(pos + 60).min(b.len())]).to_string();
                return Some(Violation::new("bytes_differ_on_success", format!("{what}: formatter reported success but the writer received {} bytes, expected {}; first difference at byte {pos}: expected ...{}... got ...{}...", w.received.len(), expect.len(), snip(expect), snip(&w.received))));
            }
        }
        Err(IoStreamError::Io(e)) => {
            if e.kind() == io::ErrorKind::Interrupted {
                return Some(Violation::new("interrupted_surfaced", format!("{what}: ErrorKind::Interrupted was surfaced instead of retried")));
            }
            if !expect.starts_with(&w.received) {
                return Some(Violation::new("not_a_prefix_on_error", format!("{what}: after the I/O error the writer holds {} bytes that are not a prefix of the entry's records", w.received.len())));
            }
        }
        Err(IoStreamError::Validation(v)) => {
            return Some(Violation::new("spurious_validation_error", format!("{what}: fault-free formatting succeeded but under writer faults the entry was rejected: {v}")));
        }
    }
    None
}

impl Scenario for EmfWriterFaults {
    fn name(&self) -> &'static str {
        "emf_writer_faults"
    }
    fn property(&self) -> &'static str {
        "C16"
    }
    fn weight(&self, _t: Tier) -> u32 {
        3
    }
    fn generate(&self, rng: &mut Rng, _tier: Tier) -> J {
        let cfg = gen_config(rng);
        let mut entry = gen_entry(rng, &cfg, false, false);
        let rate = if jb(&cfg, "sampled", false) { json!([*rng.pick(&[1.0, 0.5, 0.3, 0.01]), rng.next_u64()]) } else { J::Null };
        let seed = rng.next_u64() >> 1;
        // One plan in forty: a split entry one of whose records is huge (1 - 2.5 MB: a metric with 10^5+ distinct
        // observations), either the record without per-metric dimensions (written last) or one with them, next to small
        // records. Only a small set of fault scripts is run for it (`big_line`).
        let hb = mix(seed, 0xb16);
        let big = hb % 40 == 0;
        if big {
            if let Some(items) = entry.get_mut("items").and_then(|i| i.as_array_mut()) {
                if !items.iter().any(|i| js(i, "k", "") == "split") {
                    items.insert(1, json!({"k":"split"}));
                }
                let n = 120_000 + (hb / 40) % 200_000;
                let big_dims = if (hb / 80) % 3 == 0 { json!([["shard", "sbig"]]) } else { json!([]) };
                items.push(json!({"k":"metric","name":"Big","obs":[{"t":"range","from":1_000_000,"n":n}],"unit":1,"dims":big_dims,"flag":0}));
                items.push(json!({"k":"metric","name":"SmallA","obs":[{"t":"u","v":7}],"unit":1,"dims":[["shard","sa"]],"flag":0}));
                items.push(json!({"k":"metric","name":"SmallB","obs":[{"t":"u","v":8}],"unit":1,"dims":[["shard","sb"]],"flag":0}));
                items.push(json!({"k":"metric","name":"SmallC","obs":[{"t":"u","v":9}],"unit":1,"dims":[],"flag":0}));
            }
        }
        json!({"sched": {"seed": seed}, "config": cfg, "entry": entry, "sample": rate, "random_mixtures": 8, "mix_seed": rng.next_u64() >> 1, "glue": *rng.pick(&["direct", "direct", "output_to", "makewriter"]), "big_line": big})
    }
    fn run(&self, plan: &J) -> Report {
        let mut r = Report::default();
        detsim::hash::set_run_seed(ju(&plan["sched"], "seed", 1));
        let cfg = &plan["config"];
        let base = build_emf(cfg);
        let entry = GenEntry::from_spec(&plan["entry"]);
        let sampled = plan.get("sample").and_then(|s| s.as_array()).map(|a| (a[0].as_f64().unwrap_or(1.0) as f32, a[1].as_u64().unwrap_or(0)));
        // fault-free reference, from a clone taken right before (same hasher, same table geometry)
        let mut reference = base.clone();
        let mut pw = FaultyWriter::perfect();
        let r0 = fmt_once(&mut reference, sampled, &entry, &mut pw);
        let expect = pw.received.clone();
        let fault_free_calls = pw.calls;
        let mut cases = 0u64;
        let mut sig = hash_value(plan);
        if r0.is_err() {
            // generated without defects, but e.g. NaN-only entries may legitimately be rejected: nothing to enumerate
            r.nontrivial = false;
            r.case_sig = sig;
            r.sample = Some(json!({"entry": plan["entry"], "fault_free": result_class(&r0)}));
            if !pw.received.is_empty() {
                r.violation = Some(Violation::new("output_on_rejected_entry", "the formatter rejected the entry but wrote bytes"));
            }
            return r;
        }
        // clone and original agree byte for byte
        {
            let mut again = base.clone();
            let mut w = FaultyWriter::perfect();
            let _ = fmt_once(&mut again, sampled, &entry, &mut w);
            if w.received != expect {
                r.violation = Some(Violation::new("clone_disagrees", "two clones of one formatter produced different bytes for the same entry"));
                return r;
            }
        }
        let lines = expect.iter().filter(|b| **b == b'\n').count();
        r.probe(if lines > 1 { "multi_line_record" } else { "single_line_record" }, 1);
        if ja(cfg, "namespaces").len() > 1 {
            r.probe("multi_namespace", 1);
        }
        let glue_kind = if sampled.is_some() { "direct" } else { js(plan, "glue", "direct") };
        r.probe(&format!("glue_{glue_kind}"), 1);
        let mut run_case = |w: FaultyWriter, what: String, r: &mut Report| -> bool {
            let mut w = w;
            // a formatter that makes progress needs at most one call per byte plus the injected faults
            w.call_budget = 4 * expect.len() + 1024;
            let cell = std::cell::RefCell::new(w);
            let mut f = Glue::new(glue_kind, base.clone(), &cell);
            let res = f.call(sampled, &entry, &cell);
            let w = cell.replace(FaultyWriter::perfect());
            cases += 1;
            for (k, v) in &w.fired {
                r.fault(k, *v);
            }
            sig = mix(sig, detsim::rng::hash_str(&what));
            if let Some(v) = check_faulty(&expect, &w, &res, &what) {
                r.violation = Some(v);
                return false;
            }
            // "... for that entry only": after a failed call the same formatter must produce the
            // exact records for the next entry
            if res.is_err() {
                let again = f.call(sampled, &entry, &cell);
                let pw = cell.replace(FaultyWriter::perfect());
                // (the records of a split entry come out in the order of the formatter's hash table, which depends on
                // how the table grew in earlier calls: the follow-up entry is compared as a set of complete lines)
                let same_lines = |a: &[u8], b: &[u8]| {
                    let mut la: Vec<&[u8]> = a.split_inclusive(|c| *c == b'\n').collect();
                    let mut lb: Vec<&[u8]> = b.split_inclusive(|c| *c == b'\n').collect();
                    la.sort();
                    lb.sort();
                    la == lb
                };
                if again.is_err() || (pw.received != expect && !same_lines(&pw.received, &expect)) {
                    r.violation = Some(Violation::new(
                        "io_error_affects_next_entry",
                        format!("{what}: the call failed with {}; the next entry on the same formatter then gave {} / {} bytes instead of the expected {} bytes", result_class(&res), result_class(&again), pw.received.len(), expect.len()),
                    ));
                    return false;
                }
            }
            // specific expectations
            if w.fired.contains_key("writer_zero") {
                match &res {
                    Err(IoStreamError::Io(e)) if e.kind() == io::ErrorKind::WriteZero => {}
                    other => {
                        r.violation = Some(Violation::new("write_zero_not_reported", format!("{what}: the writer returned Ok(0) but the result was {}", result_class(other))));
                        return false;
                    }
                }
            } else if let Some(kind) = w.at_call.values().find_map(|f| if let WFault::Hard(k) = f { Some(*k) } else { None }) {
                if w.fired.contains_key("writer_hard_err") {
                    match &res {
                        Err(IoStreamError::Io(e)) if e.kind() == kind => {}
                        other => {
                            r.violation = Some(Violation::new("hard_error_not_surfaced", format!("{what}: the writer failed with {kind:?} but the result was {}", result_class(other))));
                            return false;
                        }
                    }
                }
            } else if res.is_err() {
                r.violation = Some(Violation::new("error_without_hard_fault", format!("{what}: only short writes / interruptions were injected but the result was {}", result_class(&res))));
                return false;
            }
            true
        };
        let n = expect.len();
        // every chunk size up to 64, plus a few larger
        let mut chunks: Vec<usize> = (1..=n.min(64)).collect();
        chunks.extend([97, 128, 255, 1000].iter().filter(|c| **c < n));
        'outer: {
            if jb(plan, "big_line", false) {
                // a record of megabytes: whole-record writes, two large chunk sizes, a hard error / an interruption / a
                // zero-length write at each of the first calls (with whole-record writes: at each record of the entry),
                // a short write in the middle and at the very end
                r.probe("record_over_1_mib", 1);
                for (c, vectored) in [(0usize, true), (0, false), (65_536, true), (1_000_003, false)] {
                    let mut w = FaultyWriter::perfect();
                    w.chunk = c;
                    w.vectored = vectored;
                    if !run_case(w, format!("chunk={c} vectored={vectored}"), &mut r) {
                        break 'outer;
                    }
                }
                for i in 0..fault_free_calls.min(8) {
                    for f in [WFault::Hard(io::ErrorKind::BrokenPipe), WFault::Interrupted, WFault::Zero] {
                        let mut w = FaultyWriter::perfect();
                        let what = format!("{f:?}@{i} chunk=0");
                        w.at_call.insert(i, f);
                        if !run_case(w, what, &mut r) {
                            break 'outer;
                        }
                    }
                }
                for k in [n / 2, n - 1] {
                    let mut w = FaultyWriter::perfect();
                    w.short_at_offset = Some(k);
                    if !run_case(w, format!("short_at_offset={k}"), &mut r) {
                        break 'outer;
                    }
                }
                break 'outer;
            }
            for c in chunks {
                for vectored in [true, false] {
                    let mut w = FaultyWriter::perfect();
                    w.chunk = c;
                    w.vectored = vectored;
                    if !run_case(w, format!("chunk={c} vectored={vectored}"), &mut r) {
                        break 'outer;
                    }
                }
            }
            // one short write at every byte offset
            for k in 0..n {
                let mut w = FaultyWriter::perfect();
                w.short_at_offset = Some(k);
                if k == 0 {
                    w.at_call.insert(0, WFault::Short(1));
                }
                if !run_case(w, format!("short_at_offset={k}"), &mut r) {
                    break 'outer;
                }
            }
            // Interrupted / Ok(0) / hard error at every call index, under two chunkings
            for (chunk, ncalls) in [(0usize, fault_free_calls), (7, n.div_ceil(7) + fault_free_calls)] {
                for i in 0..ncalls.min(400) {
                    let mut w = FaultyWriter::perfect();
                    w.chunk = chunk;
                    w.at_call.insert(i, WFault::Interrupted);
                    if !run_case(w, format!("interrupted@{i} chunk={chunk}"), &mut r) {
                        break 'outer;
                    }
                    let mut w = FaultyWriter::perfect();
                    w.chunk = chunk;
                    w.at_call.insert(i, WFault::Interrupted);
                    w.at_call.insert(i + 1, WFault::Interrupted);
                    if !run_case(w, format!("interrupted@{i},{} chunk={chunk}", i + 1), &mut r) {
                        break 'outer;
                    }
                    let mut w = FaultyWriter::perfect();
                    w.chunk = chunk;
                    w.at_call.insert(i, WFault::Zero);
                    if !run_case(w, format!("zero@{i} chunk={chunk}"), &mut r) {
                        break 'outer;
                    }
                    // every kind at the first call; three kinds per later call index, rotating through all of them
                    let kinds: Vec<io::ErrorKind> = if i == 0 { HARD_KINDS.to_vec() } else { (0..3).map(|j| HARD_KINDS[(i * 3 + j) % HARD_KINDS.len()]).collect() };
                    for kind in kinds {
                        let mut w = FaultyWriter::perfect();
                        w.chunk = chunk;
                        w.at_call.insert(i, WFault::Hard(kind));
                        if !run_case(w, format!("hard({kind:?})@{i} chunk={chunk}"), &mut r) {
                            break 'outer;
                        }
                    }
                }
            }
            // storms of Interrupted: long runs at the start / middle / end of the record, and "every other call
            // is interrupted" for the whole record (progress between interruptions): always retried, never surfaced
            for (chunk, ncalls) in [(0usize, fault_free_calls), (7, n.div_ceil(7) + fault_free_calls)] {
                for start in [0usize, ncalls / 2, ncalls.saturating_sub(1)] {
                    for len in [9usize, 33, 200] {
                        let mut w = FaultyWriter::perfect();
                        w.chunk = chunk;
                        for i in start..start + len {
                            w.at_call.insert(i, WFault::Interrupted);
                        }
                        if !run_case(w, format!("interrupted x{len} from call {start} chunk={chunk}"), &mut r) {
                            break 'outer;
                        }
                    }
                }
                for period in [2usize, 3] {
                    let mut w = FaultyWriter::perfect();
                    w.chunk = chunk;
                    for i in (0..period * ncalls + 8).step_by(period) {
                        w.at_call.insert(i, WFault::Interrupted);
                    }
                    if !run_case(w, format!("interrupted at every {period}th call chunk={chunk}"), &mut r) {
                        break 'outer;
                    }
                }
            }
            // seeded random mixtures
            let mut rng = Rng::new(ju(plan, "mix_seed", 1));
            for m in 0..ju(plan, "random_mixtures", 0) {
                let mut w = FaultyWriter::perfect();
                w.chunk = [0usize, 1, 3, 16][rng.usize_below(4)];
                w.vectored = rng.chance(0.7);
                let mut desc = format!("mix#{m} chunk={} vectored={}", w.chunk, w.vectored);
                let hard = rng.chance(0.3);
                for _ in 0..(1 + rng.below(4)) {
                    let at = rng.usize_below(n.max(1));
                    let f = match rng.below(3) {
                        0 => WFault::Short(1 + rng.usize_below(9)),
                        _ => WFault::Interrupted,
                    };
                    desc.push_str(&format!(" {f:?}@{at}"));
                    w.at_call.insert(at, f);
                }
                if hard {
                    let at = rng.usize_below(n.max(1));
                    desc.push_str(&format!(" hard@{at}"));
                    w.at_call.insert(at, WFault::Hard(io::ErrorKind::BrokenPipe));
                }
                if !run_case(w, desc, &mut r) {
                    break 'outer;
                }
            }
        }
        r.nontrivial = true;
        r.case_sig = sig;
        *r.probes.entry("fault_scripts_enumerated".into()).or_insert(0) += cases;
        r.states = vec![mix(lines as u64, (n / 64) as u64)];
        r.sample = Some(json!({"config": cfg, "entry": plan["entry"], "record_bytes": n, "lines": lines, "fault_free_write_calls": fault_free_calls, "fault_scripts": cases}));
        r
    }
    fn probes(&self) -> Vec<&'static str> {
        vec!["multi_line_record", "single_line_record", "multi_namespace", "fault_scripts_enumerated", "glue_direct", "glue_output_to", "glue_makewriter"]
    }
    fn components(&self) -> J {
        json!({"real": ["Emf / EmfBuilder / SampledEmf", "EntryWriter::finish", "buf::write_all_vectored / advance_slices", "PrefixedStringBuf"], "simulated_seams": ["io::Write (fault-scripted)", "RngCore (constant)", "hash-map hasher (seeded)"], "harness": ["generated entries", "FaultyWriter"], "stub": []})
    }
    fn rule(&self) -> &'static str {
        "each run: one seeded (formatter config, entry) pair - single line, multi-namespace or split into several lines, optionally sampled - against which the single-fault families are ENUMERATED: every chunk size 1..min(len,64) (+97,128,255,1000) with and without write_vectored, one short write at every byte offset, Interrupted (once and twice in a row) / Ok(0) / hard errors (14 kinds, all at the first call, three rotating per later call) at every write-call index under two chunkings, storms of 9/33/200 consecutive Interrupted at the start/middle/end and every 2nd/3rd call interrupted throughout, plus 8 seeded mixtures. non-trivial = the entry is accepted fault-free; distinct = distinct (config, entry, fault-script list)"
    }
}

// ------------------------------------------------------------------------------------------
// C16 (b): sinks keep going after errors; tee'd streams each get every entry
// ------------------------------------------------------------------------------------------

pub struct SinkFaults;

fn sink_main(plan: &J, hist: History) {
    let kind = js(plan, "kind", "immediate").to_string();
    let nthreads = ju(plan, "threads", 1).max(1);
    let per = ju(plan, "per_thread", 4);
    let overlap = jb(plan, "overlapping_appends", false) && detsim::foreign_block_monitor_available();
    let mk_stream = |no: u32, key: &str, yields: bool| {
        let (mut s, _ctl) = RecStream::new(no, hist.clone(), -1);
        s.yields = yields || overlap;
        for sc in ja(plan, key) {
            if let Some(a) = sc.as_array() {
                if a.len() == 3 {
                    s.script.insert(entry_id(a[0].as_u64().unwrap_or(0), a[1].as_u64().unwrap_or(0)), Res::from_str(a[2].as_str().unwrap_or("O")));
                }
            }
        }
        s.flush_fail = ja(plan, "flush_fail").iter().filter_map(|x| x.as_u64()).collect();
        let ad = ju(plan, "adapter", 0);
        s.expect_adapter = Some((ad == 1 || ad == 3, (ad == 2 || ad == 3) as u32));
        s
    };
    let adapter = ju(plan, "adapter", 0);
    enum H {
        Imm(Arc<FlushImmediately<IdEntry, Adapted>>),
        Any(metrique_writer::BoxEntrySink),
        Queue(metrique_writer::sink::BackgroundQueue<IdEntry>, Option<metrique_writer::sink::BackgroundQueueJoinHandle>),
    }
    let h = match kind.as_str() {
        "immediate_tee" => H::Imm(Arc::new(FlushImmediately::new(Adapted::new(adapter, mk_stream(0, "script_a", false).tee(mk_stream(1, "script_b", false)))))),
        "any_immediate_tee" => H::Any(FlushImmediately::new_boxed(Adapted::new(adapter, mk_stream(0, "script_a", false).tee(mk_stream(1, "script_b", false))))),
        _ => {
            let (q, j) = metrique_writer::sink::BackgroundQueueBuilder::new()
                .capacity(1024)
                .thread_name("bgq")
                .flush_interval(Duration::from_nanos(ju(plan, "flush_interval_ns", 1_000_000).max(1000)))
                .shutdown_timeout(Duration::from_secs(1_000_000))
                .build::<IdEntry>(Adapted::new(adapter, mk_stream(0, "script_a", true).tee(mk_stream(1, "script_b", true))));
            H::Queue(q, Some(j))
        }
    };
    let h = Arc::new(detsim::sync::Mutex::new(h));
    let append = {
        let hist = hist.clone();
        move |h: &Arc<detsim::sync::Mutex<H>>, id: u64| {
            hist.log(K::AppendBegin { id });
            crate::driver::IN_APPEND.fetch_add(1, std::sync::atomic::Ordering::SeqCst);
            let r = std::panic::catch_unwind(std::panic::AssertUnwindSafe(|| {
                // take a cheap handle without holding our own lock across the append
                enum C {
                    Imm(Arc<FlushImmediately<IdEntry, Adapted>>),
                    Any(metrique_writer::BoxEntrySink),
                    Queue(metrique_writer::sink::BackgroundQueue<IdEntry>),
                }
                let c = match &*h.lock().unwrap() {
                    H::Imm(s) => C::Imm(s.clone()),
                    H::Any(s) => C::Any(s.clone()),
                    H::Queue(q, _) => C::Queue(q.clone()),
                };
                match c {
                    C::Imm(s) => s.append(IdEntry(id)),
                    C::Any(s) => s.append_any(IdEntry(id)),
                    C::Queue(q) => q.append(IdEntry(id)),
                }
            }));
            crate::driver::IN_APPEND.fetch_sub(1, std::sync::atomic::Ordering::SeqCst);
            hist.log(K::AppendEnd { id, blocked: false, panicked: r.is_err() });
        }
    };
    let reentrant = jb(plan, "reentrant_subscriber", false);
    let mut ts = vec![];
    for t in 0..nthreads {
        let h2 = h.clone();
        let ap = append.clone();
        ts.push(detsim::thread::spawn_named(&format!("p{}", t + 1), move || {
            // plan key `reentrant_subscriber`: this thread's tracing subscriber turns every warning / error event into
            // a metric entry of its own, appended to the *same* sink (an "errors seen" metric): whatever the sink
            // reports while it handles an entry comes back to it as another append, on the same thread
            let _scoped = reentrant.then(|| {
                let (h3, ap3) = (h2.clone(), ap.clone());
                let n = std::sync::atomic::AtomicU64::new(0);
                tracing::dispatcher::set_default(&tracing::Dispatch::new(ReentrantSubscriber(Box::new(move || {
                    let k = n.fetch_add(1, std::sync::atomic::Ordering::SeqCst);
                    ap3(&h3, entry_id(50 + t + 1, k));
                }))))
            });
            for s in 0..per {
                ap(&h2, entry_id(t + 1, s));
                detsim::yield_point();
            }
        }));
    }
    for t in ts {
        let _ = t.join();
    }
    // shut the queue down (drains); immediate sinks have already written everything
    let j = match &mut *h.lock().unwrap() {
        H::Queue(_, j) => j.take(),
        _ => None,
    };
    drop(j);
}

/// What an application puts in front of its output stream: nothing, `merge_globals`, `merge_global_dimensions`, both.
struct VerifGlobals;
impl Entry for VerifGlobals {
    fn write<'a>(&'a self, w: &mut impl EntryWriter<'a>) {
        w.value("verif_global", &7u64);
    }
}
type TeeRR = metrique_writer::stream::Tee<RecStream, RecStream>;
enum Adapted {
    Plain(TeeRR),
    Globals(metrique_writer::stream::MergeGlobals<TeeRR, VerifGlobals>),
    Dims(metrique_writer::stream::MergeGlobalDimensions<TeeRR, 1>),
    Both(metrique_writer::stream::MergeGlobals<metrique_writer::stream::MergeGlobalDimensions<TeeRR, 1>, VerifGlobals>),
}
impl Adapted {
    fn new(kind: u64, t: TeeRR) -> Adapted {
        let dims = || smallvec::smallvec![(Cow::Borrowed("verif_dim"), Cow::Borrowed("d"))];
        match kind {
            1 => Adapted::Globals(t.merge_globals(VerifGlobals)),
            2 => Adapted::Dims(t.merge_global_dimensions(dims(), None)),
            3 => Adapted::Both(t.merge_global_dimensions(dims(), None).merge_globals(VerifGlobals)),
            _ => Adapted::Plain(t),
        }
    }
}
impl EntryIoStream for Adapted {
    fn next(&mut self, entry: &impl Entry) -> Result<(), IoStreamError> {
        match self {
            Adapted::Plain(s) => s.next(entry),
            Adapted::Globals(s) => s.next(entry),
            Adapted::Dims(s) => s.next(entry),
            Adapted::Both(s) => s.next(entry),
        }
    }
    fn flush(&mut self) -> io::Result<()> {
        match self {
            Adapted::Plain(s) => s.flush(),
            Adapted::Globals(s) => s.flush(),
            Adapted::Dims(s) => s.flush(),
            Adapted::Both(s) => s.flush(),
        }
    }
}

/// A subscriber that reacts to warning / error events by calling back into the application (tracing itself keeps the
/// events raised *inside* the callback away from it, so there is no recursion).
struct ReentrantSubscriber(Box<dyn Fn() + Send + Sync>);
impl tracing::Subscriber for ReentrantSubscriber {
    fn enabled(&self, metadata: &tracing::Metadata<'_>) -> bool {
        metadata.is_event() && *metadata.level() <= tracing::Level::WARN
    }
    fn new_span(&self, _span: &tracing::span::Attributes<'_>) -> tracing::span::Id {
        tracing::span::Id::from_u64(1)
    }
    fn record(&self, _span: &tracing::span::Id, _values: &tracing::span::Record<'_>) {}
    fn record_follows_from(&self, _span: &tracing::span::Id, _follows: &tracing::span::Id) {}
    fn event(&self, _event: &tracing::Event<'_>) {
        (self.0)()
    }
    fn enter(&self, _span: &tracing::span::Id) {}
    fn exit(&self, _span: &tracing::span::Id) {}
}

/// One stream: every appended entry exactly once, per-producer order, no panicking append.
fn check_one_stream(h: &[Ev], stream: u32) -> Option<Violation> {
    let mut appended: Vec<u64> = vec![];
    for e in h {
        if let K::AppendEnd { id, panicked, .. } = &e.k {
            if *panicked {
                return Some(Violation::new("append_panicked", format!("append of entry {}#{} panicked", id_thread(*id), id_seq(*id))));
            }
            appended.push(*id);
        }
    }
    let mut seen: BTreeMap<u64, u32> = BTreeMap::new();
    let mut last: BTreeMap<u64, u64> = BTreeMap::new();
    for e in h {
        if let K::NextBegin { stream: s, id: Some(id), report: false } = &e.k {
            if *s != stream {
                continue;
            }
            *seen.entry(*id).or_insert(0) += 1;
            if let Some(p) = last.get(&id_thread(*id)) {
                if *p > id_seq(*id) {
                    return Some(Violation::new("stream_order_broken", format!("stream {stream} received entries of producer {} out of order", id_thread(*id))));
                }
            }
            last.insert(id_thread(*id), id_seq(*id));
        }
    }
    for id in &appended {
        match seen.get(id).copied().unwrap_or(0) {
            1 => {}
            0 => return Some(Violation::new("tee_branch_missed_entry", format!("entry p{}#{} was appended but stream {stream} never received it (errors of earlier entries or of the other stream must not matter)", id_thread(*id), id_seq(*id)))),
            n => return Some(Violation::new("entry_duplicated", format!("entry p{}#{} was handed to stream {stream} {n} times", id_thread(*id), id_seq(*id)))),
        }
    }
    None
}

fn check_sink_faults(plan: &J, h: &[Ev]) -> Option<Violation> {
    if let Some(n) = h.iter().find_map(|e| match &e.k { K::Note(n) if n.starts_with("adapter_lost") => Some(n.clone()), _ => None }) {
        return Some(Violation::new("stream_adapter_skipped", n));
    }
    // per stream: every appended entry exactly once, per-thread order
    let mut appended: Vec<u64> = vec![];
    for e in h {
        match &e.k {
            K::AppendEnd { id, panicked, .. } => {
                if *panicked {
                    return Some(Violation::new("append_panicked", format!("append of entry {}#{} panicked", id_thread(*id), id_seq(*id))));
                }
                appended.push(*id);
            }
            _ => {}
        }
    }
    // nothing but the appended entries reaches the streams of a flush-immediately sink (the in-band error report is the
    // background queue's alone)
    if js(plan, "kind", "").contains("immediate") {
        if let Some(e) = h.iter().find(|e| matches!(e.k, K::NextBegin { report: true, .. })) {
            return Some(Violation::new("unexpected_entry", format!("the flush-immediately sink handed its stream an entry that nobody appended (an error report, event #{})", e.seq)));
        }
    }
    // a flush-immediately sink: whatever a stream was handed during an append is flushed before the append returns,
    // also when the other leg of the tee (or this one) answered with an error - output must not sit in a buffer
    // until some later entry happens to succeed
    if js(plan, "kind", "").contains("immediate") {
        let mut open: BTreeMap<usize, (u64, BTreeMap<u32, bool>)> = BTreeMap::new(); // tid -> (id, stream -> flushed since its next)
        for e in h {
            match &e.k {
                K::AppendBegin { id } => {
                    open.insert(e.tid, (*id, BTreeMap::new()));
                }
                K::NextEnd { stream, report: false, .. } => {
                    if let Some((_, m)) = open.get_mut(&e.tid) {
                        m.insert(*stream, false);
                    }
                }
                K::FlushBegin { stream } => {
                    if let Some((_, m)) = open.get_mut(&e.tid) {
                        if let Some(f) = m.get_mut(stream) {
                            *f = true;
                        }
                    }
                }
                K::AppendEnd { id, .. } => {
                    if let Some((aid, m)) = open.remove(&e.tid) {
                        if aid == *id {
                            if let Some((s, _)) = m.iter().find(|(_, f)| !**f) {
                                return Some(Violation::new(
                                    "immediate_sink_did_not_flush",
                                    format!("the flush-immediately sink returned from the append of p{}#{} without flushing stream {s}, which had been handed the entry", id_thread(*id), id_seq(*id)),
                                ));
                            }
                        }
                    }
                }
                _ => {}
            }
        }
    }
    for stream in [0u32, 1] {
        let mut seen: BTreeMap<u64, u32> = BTreeMap::new();
        let mut last: BTreeMap<u64, u64> = BTreeMap::new();
        for e in h {
            if let K::NextBegin { stream: s, id: Some(id), report: false } = &e.k {
                if *s != stream {
                    continue;
                }
                *seen.entry(*id).or_insert(0) += 1;
                if let Some(p) = last.get(&id_thread(*id)) {
                    if *p > id_seq(*id) {
                        return Some(Violation::new("stream_order_broken", format!("stream {stream} received entries of producer {} out of order", id_thread(*id))));
                    }
                }
                last.insert(id_thread(*id), id_seq(*id));
            }
        }
        for id in &appended {
            match seen.get(id).copied().unwrap_or(0) {
                1 => {}
                0 => {
                    return Some(Violation::new(
                        "tee_branch_missed_entry",
                        format!("entry p{}#{} was appended but stream {stream} never received it (errors of earlier entries or of the other stream must not matter)", id_thread(*id), id_seq(*id)),
                    ))
                }
                n => return Some(Violation::new("entry_duplicated", format!("entry p{}#{} was handed to stream {stream} {n} times", id_thread(*id), id_seq(*id)))),
            }
        }
    }
    None
}

impl Scenario for SinkFaults {
    fn name(&self) -> &'static str {
        "sink_faults"
    }
    fn property(&self) -> &'static str {
        "C16"
    }
    fn weight(&self, _t: Tier) -> u32 {
        2
    }
    fn generate(&self, rng: &mut Rng, _tier: Tier) -> J {
        let threads = 1 + rng.below(3);
        let per = 1 + rng.below(8);
        let p = *rng.pick(&[0.0, 0.2, 0.5, 1.0]);
        let mut mk = |rng: &mut Rng| {
            let mut v = vec![];
            for t in 1..=threads {
                for s in 0..per {
                    if rng.chance(p) {
                        v.push(json!([t, s, if rng.chance(0.5) { "V" } else { "I" }]));
                    }
                }
            }
            J::Array(v)
        };
        let a = mk(rng);
        let b = mk(rng);
        let sched = gen_sched(rng, &SchedOpts { est_choices: 200, threads: threads + 1, jump_max_ns: 5_000_000_000, stall_clock_max_ns: 1_000_000_000, max_steps: 60_000 });
        // a long outage: one tee leg rejects 40 - 140 entries per thread in a row with I/O errors (every sink kind);
        // decided from the schedule seed, so that the other draws stay where they were
        let ho = mix(ju(&sched, "seed", 0), 0x0a7a6e);
        let (per, a) = if ho % 12 == 0 {
            let per = 40 + (ho / 12) % 100;
            let mut v = vec![];
            for t in 1..=threads {
                for s in 0..per {
                    v.push(json!([t, s, "I"]));
                }
            }
            (per, J::Array(v))
        } else {
            (per, a)
        };
        json!({
            "sched": sched,
            "kind": *rng.pick(&["immediate_tee", "any_immediate_tee", "queue_tee", "queue_tee"]),
            "threads": threads, "per_thread": per,
            "script_a": a, "script_b": b,
            "flush_fail": if rng.chance(0.3) { json!([rng.below(4), rng.below(9)]) } else { json!([]) },
            "flush_interval_ns": *rng.pick(&[50_000u64, 5_000_000, 1_000_000_000]),
            "reentrant_subscriber": mix(ju(&sched, "seed", 0), 0x5ab) % 4 == 0,
            // what sits between the sink and the tee: nothing (half), merge_globals, merge_global_dimensions, both
            "adapter": (mix(ju(&sched, "seed", 0), 0xada) % 6).saturating_sub(2),
            // immediate sinks, a few runs: the device is slow *inside* `next` / `flush` (scheduling points there), so a
            // second thread arrives at the sink while the first is in the middle of its entry. The sink's lock is a real
            // one: the thread that waits for it is found asleep by the simulator's monitor and the run goes on without
            // it until the lock is released (real milliseconds per overlap, hence few runs)
            "overlapping_appends": threads >= 2 && mix(ju(&sched, "seed", 0), 0x0e71) % 40 == 0,
        })
    }
    fn run(&self, plan: &J) -> Report {
        let sched = sched_from_plan(plan);
        let hist = History::new();
        let h2 = hist.clone();
        let p2 = plan.clone();
        let overlap = jb(plan, "overlapping_appends", false) && js(plan, "kind", "") != "queue_tee" && detsim::foreign_block_monitor_available();
        if overlap {
            detsim::set_foreign_block_patience_ms(40);
        }
        let (out, _) = detsim::run(sched, move || sink_main(&p2, h2));
        detsim::set_foreign_block_patience_ms(300);
        let h = hist.snapshot();
        let mut r = Report::default();
        r.nontrivial = out.threads >= 2 && out.preemptions >= 1;
        r.case_sig = mix(out.sig, hash_value(&json!([plan.get("kind"), plan.get("script_a"), plan.get("script_b"), plan.get("threads"), plan.get("per_thread")])));
        let failure = out.failure.clone();
        let mp = out.main_panic.clone();
        absorb_outcome(&mut r, out);
        for e in &h {
            match &e.k {
                K::NextEnd { res: Res::Validation, .. } => r.fault("stream_validation_err", 1),
                K::NextEnd { res: Res::Io, .. } => r.fault("stream_io_err", 1),
                K::FlushEnd { ok: false, .. } => r.fault("stream_flush_err", 1),
                _ => {}
            }
        }
        r.probe(&format!("kind_{}", js(plan, "kind", "")), 1);
        if overlap {
            r.fault("thread_arrives_at_the_immediate_sink_while_another_is_inside_it", r.outcome.foreign_blocks);
        }
        r.states = vec![mix(detsim::rng::hash_str(js(plan, "kind", "")), h.len() as u64 / 8)];
        if !matches!(failure, Some(detsim::Failure::StepLimit { .. })) {
            r.violation = check_sink_faults(plan, &h);
        }
        r.sample = Some(json!({"kind": plan.get("kind"), "history": history_json(&h, 40)}));
        if r.violation.is_none() {
            match failure {
                None => {}
                Some(f @ detsim::Failure::Deadlock { .. }) => r.violation = Some(Violation::new("deadlock", format!("{f:?}"))),
                Some(detsim::Failure::StepLimit { .. }) => r.inconclusive = true,
                Some(f) => r.harness_error = Some(format!("simulation failed: {f:?}")),
            }
            if let Some(p) = mp {
                if r.violation.is_none() {
                    match crate::driver::classify_uncaught_panic(&p) {
                        Ok(v) => r.violation = Some(v),
                        Err(e) => r.harness_error = Some(e),
                    }
                }
            }
        }
        r
    }
    fn probes(&self) -> Vec<&'static str> {
        vec!["kind_immediate_tee", "kind_any_immediate_tee", "kind_queue_tee"]
    }
    fn components(&self) -> J {
        json!({"real": ["FlushImmediately / AnyFlushImmediately", "BackgroundQueue", "stream::Tee"], "simulated_seams": ["thread, Parker, Instant (queue)"], "harness": ["RecStream x2 with independent Ok/Validation/Io scripts (non-yielding under FlushImmediately, which holds a std Mutex across next)"], "stub": []})
    }
    fn rule(&self) -> &'static str {
        "each run: sink kind in {FlushImmediately, boxed FlushImmediately, BackgroundQueue} over a tee of two recording streams with independent per-entry Ok/Validation/Io scripts and flush errors, 1-3 appending threads x 1-8 entries; oracle: each stream receives every appended entry exactly once in per-producer order, append never panics, a flush-immediately sink flushes every stream it handed the entry to before the append returns (whatever the results). non-trivial = >= 2 threads and >= 1 preemption; distinct = distinct (context-switch signature, scripts)"
    }
}

// ------------------------------------------------------------------------------------------
// C16 (c): end to end -- sink -> tee(real Emf -> fault-scripted writer, recording stream)
// ------------------------------------------------------------------------------------------

/// An id-carrying entry with a fixed timestamp (so that its EMF record is a pure function of the id).
pub struct TsEntry(pub u64);
impl Entry for TsEntry {
    fn write<'a>(&'a self, w: &mut impl EntryWriter<'a>) {
        w.timestamp(std::time::UNIX_EPOCH + Duration::from_millis(1_700_000_000_000 + (self.0 & 0xFFFF)));
        w.value("id", &self.0);
        w.value("Operation", "Get");
    }
}

/// `.1`: a scheduling point per write call (only under the queue: FlushImmediately holds a
/// plain std Mutex across `stream.next`, and a thread descheduled inside it would wedge the others)
#[derive(Clone)]
pub struct SharedW(pub Arc<Mutex<FaultyWriter>>, pub bool);
impl io::Write for SharedW {
    fn write(&mut self, buf: &[u8]) -> io::Result<usize> {
        if self.1 {
            detsim::yield_point();
        }
        self.0.lock().unwrap().write(buf)
    }
    fn write_vectored(&mut self, bufs: &[io::IoSlice<'_>]) -> io::Result<usize> {
        if self.1 {
            detsim::yield_point();
        }
        self.0.lock().unwrap().write_vectored(bufs)
    }
    fn flush(&mut self) -> io::Result<()> {
        self.0.lock().unwrap().flush()
    }
}

fn pipeline_emf() -> Emf {
    Emf::builder("Pipe".to_string(), vec![vec![], vec!["Operation".to_string()]]).build()
}

fn pipeline_main(plan: &J, hist: History, w: Arc<Mutex<FaultyWriter>>) {
    let nthreads = ju(plan, "threads", 1).max(1);
    let per = ju(plan, "per_thread", 4);
    let (mut rec, _ctl) = RecStream::new(1, hist.clone(), -1);
    let queue = js(plan, "kind", "queue") == "queue";
    rec.yields = queue;
    let stream = pipeline_emf().output_to(SharedW(w, queue)).tee(rec);
    enum H {
        Imm(Arc<metrique_writer::BoxEntrySink>),
        Queue(metrique_writer::sink::BackgroundQueue<TsEntry>, Option<metrique_writer::sink::BackgroundQueueJoinHandle>),
    }
    let h = if queue {
        let (q, j) = metrique_writer::sink::BackgroundQueueBuilder::new()
            .capacity(1024)
            .thread_name("bgq")
            .flush_interval(Duration::from_nanos(ju(plan, "flush_interval_ns", 1_000_000).max(1000)))
            .shutdown_timeout(Duration::from_secs(1_000_000))
            .build::<TsEntry>(stream);
        H::Queue(q, Some(j))
    } else {
        H::Imm(Arc::new(FlushImmediately::new_boxed(stream)))
    };
    let mut ts = vec![];
    for t in 0..nthreads {
        let hist = hist.clone();
        enum C {
            Imm(Arc<metrique_writer::BoxEntrySink>),
            Queue(metrique_writer::sink::BackgroundQueue<TsEntry>),
        }
        let c = match &h {
            H::Imm(s) => C::Imm(s.clone()),
            H::Queue(q, _) => C::Queue(q.clone()),
        };
        ts.push(detsim::thread::spawn_named(&format!("p{}", t + 1), move || {
            for s in 0..per {
                let id = entry_id(t + 1, s);
                hist.log(K::AppendBegin { id });
                let r = std::panic::catch_unwind(std::panic::AssertUnwindSafe(|| match &c {
                    C::Imm(s) => s.append_any(TsEntry(id)),
                    C::Queue(q) => q.append(TsEntry(id)),
                }));
                hist.log(K::AppendEnd { id, blocked: false, panicked: r.is_err() });
                detsim::yield_point();
            }
        }));
    }
    for t in ts {
        let _ = t.join();
    }
    if let H::Queue(q, j) = h {
        // idle for a while first: the periodic flushes of an idle queue happen now
        detsim::sleep_ns(ju(plan, "idle_before_shutdown_ns", 0));
        hist.log(K::DropHandleBegin);
        drop(j);
        hist.log(K::DropHandleEnd { writer_finished: true });
        drop(q);
    }
}

/// Can `got` be read as: for each entry in order, either its complete record, or -- at most
/// `torn_left` times -- a (possibly empty) proper prefix of it?
fn parses(got: &[u8], recs: &[Vec<u8>], i: usize, pos: usize, torn_left: usize, memo: &mut std::collections::HashSet<(usize, usize, usize)>) -> bool {
    if i == recs.len() {
        return pos == got.len();
    }
    if !memo.insert((i, pos, torn_left)) {
        return false;
    }
    let rest = &got[pos..];
    let e = &recs[i];
    if rest.starts_with(e) && parses(got, recs, i + 1, pos + e.len(), torn_left, memo) {
        return true;
    }
    if torn_left > 0 {
        let lcp = rest.iter().zip(e.iter()).take_while(|(a, b)| a == b).count().min(e.len().saturating_sub(1));
        for p in (0..=lcp).rev() {
            if parses(got, recs, i + 1, pos + p, torn_left - 1, memo) {
                return true;
            }
        }
    }
    false
}

pub struct Pipeline;

impl Scenario for Pipeline {
    fn name(&self) -> &'static str {
        "pipeline"
    }
    fn property(&self) -> &'static str {
        "C16"
    }
    fn weight(&self, _t: Tier) -> u32 {
        2
    }
    fn generate(&self, rng: &mut Rng, _tier: Tier) -> J {
        let threads = 1 + rng.below(3);
        let per = 1 + rng.below(7);
        let mut faults = vec![];
        for _ in 0..rng.below(5) {
            let at = rng.below(12 * threads * per + 4);
            faults.push(match rng.below(6) {
                5 => json!({"at": at, "f": "flush_fail"}),
                0 => json!({"at": at, "f": "hard", "kind": rng.below(HARD_KINDS.len() as u64)}),
                1 => json!({"at": at, "f": "zero"}),
                2 => json!({"at": at, "f": "short", "k": 1 + rng.below(40)}),
                _ => json!({"at": at, "f": "intr"}),
            });
        }
        let sched = gen_sched(rng, &SchedOpts { est_choices: 300, threads: threads + 1, jump_max_ns: 5_000_000_000, stall_clock_max_ns: 1_000_000_000, max_steps: 120_000 });
        json!({
            "sched": sched, "kind": *rng.pick(&["queue", "queue", "immediate"]), "threads": threads, "per_thread": per,
            "chunk": *rng.pick(&[0u64, 0, 1, 5, 64]), "vectored": rng.chance(0.7), "faults": faults,
            "flush_interval_ns": *rng.pick(&[50_000u64, 5_000_000, 1_000_000_000]),
            "idle_before_shutdown_ns": *rng.pick(&[0u64, 0, 20_000_000, 3_000_000_000]),
        })
    }
    fn run(&self, plan: &J) -> Report {
        let sched = sched_from_plan(plan);
        detsim::hash::set_run_seed(sched.seed);
        let hist = History::new();
        let mut fw = FaultyWriter::perfect();
        fw.chunk = ju(plan, "chunk", 0) as usize;
        fw.vectored = jb(plan, "vectored", true);
        fw.call_budget = 2_000_000;
        for f in ja(plan, "faults") {
            let at = ju(f, "at", 0) as usize;
            let wf = match js(f, "f", "") {
                "hard" => WFault::Hard(HARD_KINDS[ju(f, "kind", 0) as usize % HARD_KINDS.len()]),
                "zero" => WFault::Zero,
                "short" => WFault::Short(ju(f, "k", 1) as usize),
                "flush_fail" => {
                    fw.flush_fail_at.insert(at % 6);
                    continue;
                }
                _ => WFault::Interrupted,
            };
            fw.at_call.insert(at, wf);
        }
        let w = Arc::new(Mutex::new(fw));
        let (h2, p2, w2) = (hist.clone(), plan.clone(), w.clone());
        let (out, _) = detsim::run(sched, move || pipeline_main(&p2, h2, w2));
        let h = hist.snapshot();
        let mut r = Report::default();
        r.nontrivial = out.threads >= 2 && out.preemptions >= 1;
        r.case_sig = mix(out.sig, hash_value(&json!([plan.get("kind"), plan.get("faults"), plan.get("threads"), plan.get("per_thread"), plan.get("chunk")])));
        let failure = out.failure.clone();
        let mp = out.main_panic.clone();
        absorb_outcome(&mut r, out);
        let fw = w.lock().unwrap();
        for (k, v) in &fw.fired {
            r.fault(k, *v);
        }
        r.probe(&format!("pipeline_{}", js(plan, "kind", "queue")), 1);
        r.states = vec![mix(detsim::rng::hash_str(js(plan, "kind", "")), (fw.fired.len() as u64) << 8 | (h.len() as u64 / 8).min(32))];
        // the recording leg of the tee: every appended entry once, in per-producer order
        if !matches!(failure, Some(detsim::Failure::StepLimit { .. })) {
            r.violation = check_one_stream(&h, 1);
        }
        if r.violation.is_none() && failure.is_none() {
            // the bytes: in the order the entries went through the tee, each entry's complete
            // record, or a proper prefix of it for at most as many entries as hard / zero-length
            // faults fired
            let order: Vec<u64> = h.iter().filter_map(|e| if let K::NextBegin { stream: 1, id: Some(id), report: false } = &e.k { Some(*id) } else { None }).collect();
            let mut reference = pipeline_emf();
            let recs: Vec<Vec<u8>> = order
                .iter()
                .map(|id| {
                    let mut pw = FaultyWriter::perfect();
                    let _ = reference.format(&TsEntry(*id), &mut pw);
                    pw.received
                })
                .collect();
            let torn = (fw.fired.get("writer_hard_err").copied().unwrap_or(0) + fw.fired.get("writer_zero").copied().unwrap_or(0)) as usize;
            if fw.stalled {
                r.violation = Some(Violation::new("formatter_stalls", format!("the writer was called {} times for {} entries: the formatter repeats or never finishes", fw.calls, order.len())));
            } else if js(plan, "kind", "queue") == "queue" && fw.last_write_seq > 0 && {
                // bytes that were written must not be left behind a failed flush: either a flush
                // succeeded after the last write, or the shutdown tried once more
                let ok_after = fw.flushes.iter().any(|(s, ok)| *ok && *s > fw.last_write_seq);
                let b = h.iter().find(|e| matches!(e.k, K::DropHandleBegin)).map(|e| e.seq).unwrap_or(u64::MAX);
                let x = h.iter().find(|e| matches!(e.k, K::DropHandleEnd { .. })).map(|e| e.seq).unwrap_or(0);
                let tried_at_shutdown = fw.flushes.iter().any(|(s, _)| *s > b && *s < x);
                !ok_after && !tried_at_shutdown
            } {
                r.violation = Some(Violation::new("written_bytes_never_flushed", format!("the writer received its last bytes at #{} but no flush succeeded after that and the shutdown of the queue did not try to flush it either (flush calls: {:?})", fw.last_write_seq, fw.flushes)));
            } else if !parses(&fw.received, &recs, 0, 0, torn, &mut std::collections::HashSet::new()) {
                let want: usize = recs.iter().map(|r| r.len()).sum();
                r.violation = Some(Violation::new(
                    "pipeline_bytes_torn_or_duplicated",
                    format!("the writer behind sink -> tee -> Emf received {} bytes that are not the records of the {} entries in delivery order ({} bytes), with at most {torn} torn records allowed by the hard / zero-length faults that fired; tail: {:?}", fw.received.len(), order.len(), want, String::from_utf8_lossy(&fw.received[fw.received.len().saturating_sub(120)..])),
                ));
            }
        }
        r.sample = Some(json!({"kind": plan.get("kind"), "faults": plan.get("faults"), "bytes": fw.received.len(), "write_calls": fw.calls, "history": history_json(&h, 30)}));
        if r.violation.is_none() {
            match failure {
                None => {}
                Some(f @ detsim::Failure::Deadlock { .. }) => r.violation = Some(Violation::new("deadlock", format!("{f:?}"))),
                Some(detsim::Failure::StepLimit { .. }) => r.inconclusive = true,
                Some(f) => r.harness_error = Some(format!("simulation failed: {f:?}")),
            }
            if let Some(p) = mp {
                if r.violation.is_none() {
                    match crate::driver::classify_uncaught_panic(&p) {
                        Ok(v) => r.violation = Some(v),
                        Err(e) => r.harness_error = Some(e),
                    }
                }
            }
        }
        r
    }
    fn probes(&self) -> Vec<&'static str> {
        vec!["pipeline_queue", "pipeline_immediate"]
    }
    fn components(&self) -> J {
        json!({"real": ["BackgroundQueue / boxed FlushImmediately", "stream::Tee", "FormatExt::output_to (FormattedEntryIoStream)", "Emf (two dimension sets), write_all_vectored"], "simulated_seams": ["thread, Parker, Instant (queue)", "io::Write (fault-scripted, shared, a scheduling point per write call)"], "harness": ["recording stream as the second tee leg", "reference Emf for the expected records"], "stub": []})
    }
    fn rule(&self) -> &'static str {
        "each run: 1-3 threads append 1-7 id-carrying entries each to a BackgroundQueue or a boxed FlushImmediately whose stream is tee(Emf.output_to(fault-scripted writer), recording stream); writer script: chunk size 0/1/5/64, vectored or not, 0-4 faults (hard error of three kinds, zero-length write, short write, Interrupted) at seeded call indices; oracle: the recording leg sees every entry once in order, and the writer's bytes parse as the entries' reference records in delivery order with at most one torn (proper-prefix) record per hard / zero-length fault that fired, nothing duplicated or omitted. non-trivial / distinct as sink_faults"
    }
}

// ------------------------------------------------------------------------------------------
// C14: statelessness over call histories
// ------------------------------------------------------------------------------------------

pub struct EmfHistory;

/// Multiset of output lines. `mask_ts`: the entry carries no timestamp (error reports), the
/// formatter then reads SystemTime::now() (no seam), so the Timestamp member is blanked.
fn lines_multiset(b: &[u8], mask_ts: bool) -> BTreeMap<Vec<u8>, u32> {
    let mut m = BTreeMap::new();
    for l in b.split_inclusive(|c| *c == b'\n') {
        let mut v = l.to_vec();
        if mask_ts {
            let pat = b"\"Timestamp\":";
            if let Some(p) = v.windows(pat.len()).position(|w| w == pat) {
                let start = p + pat.len();
                let mut end = start;
                while end < v.len() && v[end].is_ascii_digit() {
                    end += 1;
                }
                v.splice(start..end, b"0".iter().copied());
            }
        }
        *m.entry(v).or_insert(0) += 1;
    }
    m
}

impl Scenario for EmfHistory {
    fn name(&self) -> &'static str {
        "emf_history"
    }
    fn property(&self) -> &'static str {
        "C14"
    }
    fn generate(&self, rng: &mut Rng, tier: Tier) -> J {
        let cfg = gen_config(rng);
        let n = 5 + rng.below(if tier == Tier::Thorough { 56 } else { 26 });
        let faulty = rng.chance(0.5);
        let mut calls = vec![];
        for _ in 0..n {
            let kind = rng.below(20);
            let entry = if kind == 0 { json!({"report": *rng.pick(&["boom", "x \"y\""]), "with_dims": rng.chance(0.5)}) } else { gen_entry(rng, &cfg, true, true) };
            let fault = if faulty && rng.chance(0.15) {
                match rng.below(3) {
                    0 => json!({"hard_after_bytes": rng.below(300)}),
                    1 => json!({"zero_at_call": rng.below(3)}),
                    _ => json!({"interrupted_at_call": rng.below(3), "chunk": 1 + rng.below(40)}),
                }
            } else {
                J::Null
            };
            let sample = if jb(&cfg, "sampled", false) && rng.chance(0.7) { json!([*rng.pick(&[1.0, 0.5, 0.25, 0.001, 0.001, 0.0, -0.5, 5.960_464_5e-8, 2.980_232_2e-8, 1e-8, 1e-30, 0.999_999_9]), rng.next_u64()]) } else { J::Null };
            // now and then the long-lived formatter is replaced by its own clone (same configuration, a history)
            calls.push(json!({"entry": entry, "fault": fault, "sample": sample, "clone_first": rng.chance(0.06)}));
            // (a fifth of the calls, in runs of two or three: the entry has no timestamp of its own; from a copy of
            // the generator)
            let pk = rng.clone().next_u64();
            let n_now = calls.len();
            if pk % 5 == 0 {
                calls[n_now - 1]["drop_ts"] = json!(true);
                if n_now >= 2 && pk % 2 == 0 {
                    calls[n_now - 2]["drop_ts"] = json!(true);
                }
            }
        }
        // a tenth of the histories: two entries in a row whose only floating-point observation is a zero, positive in
        // the first and negative in the second (equal as numbers, different as text); from a copy of the generator
        let mut r2 = rng.clone();
        if r2.next_u64() % 10 == 0 {
            let mk = |r2: &mut Rng, special: &str| {
                let mut e = gen_entry(r2, &cfg, false, false);
                if let Some(items) = e.get_mut("items").and_then(|i| i.as_array_mut()) {
                    for it in items.iter_mut().filter(|i| js(i, "k", "") == "metric") {
                        it["obs"] = json!([{"t":"u","v":3}]);
                    }
                    items.push(json!({"k":"metric","name":"Zero","obs":[{"t":"f","special":special}],"unit":0,"dims":[],"flag":0}));
                }
                json!({"entry": e, "fault": J::Null, "sample": J::Null, "clone_first": false})
            };
            let at = (r2.next_u64() as usize) % (calls.len() + 1);
            let (a, b) = if r2.next_u64() % 2 == 0 { ("zero", "nzero") } else { ("nzero", "zero") };
            let first = mk(&mut r2, a);
            let mut second = first.clone();
            if let Some(items) = second["entry"].get_mut("items").and_then(|i| i.as_array_mut()) {
                if let Some(last) = items.last_mut() {
                    last["obs"] = json!([{"t":"f","special":b}]);
                }
            }
            calls.insert(at, second);
            calls.insert(at, first);
        }
        // one history in 700: a split entry with 3 000 - 7 000 per-metric dimension sets, and later one with 1 030 - 1 600
        // (the formatter's tables have grown by then; the narrower entry must come out as from a fresh formatter)
        let wd = r2.next_u64();
        if wd % 700 == 0 {
            let mk = |n: u64, tag: u64| json!({"entry": {"items": [{"k":"ts","ms": 1_700_000_000_000u64 + tag}, {"k":"split"}, {"k":"many_metrics","n": n, "tag": tag}]}, "fault": J::Null, "sample": J::Null, "clone_first": false});
            let at = ((wd / 700) as usize) % (calls.len() + 1);
            calls.insert(at, mk(3_000 + (wd / 7) % 4_000, 1));
            let at2 = at + 1 + ((wd / 11) as usize) % (calls.len() - at);
            calls.insert(at2, mk(1_030 + (wd / 13) % 570, 2));
        }
        // one history in 1 500 starts on a formatter that has already formatted 5 000 - 12 000 entries
        let pre = r2.next_u64();
        let prehistory = if pre % 1_500 == 0 { json!(5_000 + (pre / 1_500) % 7_000) } else { J::Null };
        json!({"sched": {"seed": rng.next_u64() >> 1}, "config": cfg, "calls": calls, "fault_free_stratum": !faulty, "prehistory": prehistory})
    }
    fn run(&self, plan: &J) -> Report {
        let mut r = Report::default();
        detsim::hash::set_run_seed(ju(&plan["sched"], "seed", 1));
        let cfg = &plan["config"];
        let mut long_lived = Fmt::build(cfg);
        let mut classes: Vec<String> = vec![];
        let mut st = BTreeSet::new();
        // plan key `prehistory`: before the history proper the long-lived formatter has already formatted thousands of
        // (split, accepted) entries - a formatter that has been in service for a while
        if let (Some(n), Some(first)) = (plan.get("prehistory").and_then(|x| x.as_u64()), ja(plan, "calls").first()) {
            if first["entry"].get("report").is_none() && !first["entry"].to_string().contains("\"t\":\"panic\"") {
                let e = GenEntry::from_spec(&first["entry"]);
                for _ in 0..n {
                    let mut sink = FaultyWriter::perfect();
                    let _ = long_lived.call(&e, &mut sink, None);
                }
                r.probe("formatter_with_a_long_history", 1);
            }
        }
        for (i, call) in ja(plan, "calls").iter().enumerate() {
            // the wall clock moves from call to call (an entry without a timestamp gets it); both formatters of one
            // call see the same instant
            detsim::time::set_wall_override_ns(Some(1_700_000_000_000_000_000 + (i as u64 + 1) * 37_000_000));
            // plan key `drop_ts` of a call: the entry writes no timestamp of its own
            let spec_owned;
            let spec = if jb(call, "drop_ts", false) {
                let mut e = call["entry"].clone();
                if let Some(items) = e.get_mut("items").and_then(|x| x.as_array_mut()) {
                    if let Some(p) = items.iter().position(|it| js(it, "k", "") == "ts") {
                        items.remove(p);
                    }
                }
                r.probe("entry_without_a_timestamp", 1);
                spec_owned = e;
                &spec_owned
            } else {
                &call["entry"]
            };
            let sampled = call.get("sample").and_then(|s| s.as_array()).map(|a| (a[0].as_f64().unwrap_or(1.0) as f32, a[1].as_u64().unwrap_or(0)));
            // writer for the long-lived formatter
            let mut w = FaultyWriter::perfect();
            let f = &call["fault"];
            let mut faulted = false;
            if let Some(k) = f.get("hard_after_bytes").and_then(|x| x.as_u64()) {
                w.chunk = (k as usize).max(1);
                w.at_call.insert(1, WFault::Hard(io::ErrorKind::BrokenPipe));
                faulted = true;
            }
            if let Some(k) = f.get("zero_at_call").and_then(|x| x.as_u64()) {
                w.at_call.insert(k as usize, WFault::Zero);
                faulted = true;
            }
            if let Some(k) = f.get("interrupted_at_call").and_then(|x| x.as_u64()) {
                w.at_call.insert(k as usize, WFault::Interrupted);
                w.chunk = ju(f, "chunk", 0) as usize;
            }
            if jb(call, "clone_first", false) {
                if let Fmt::Plain(e) = &long_lived {
                    let c = e.clone();
                    long_lived = Fmt::Plain(c);
                    *r.probes.entry("used_formatter_cloned".into()).or_insert(0) += 1;
                }
            }
            let mut fresh = Fmt::build(cfg);
            let mut fw = FaultyWriter::perfect();
            let (res_long, res_fresh) = if let Some(msg) = spec.get("report").and_then(|x| x.as_str()) {
                // an in-band error report, optionally merged with globals that define the
                // configured dimensions (what `merge_globals` does to every entry, reports included)
                struct ReportWithGlobals<'m> {
                    dims: Vec<String>,
                    inner: MetriqueValidationError<'m>,
                }
                impl Entry for ReportWithGlobals<'_> {
                    fn write<'a>(&'a self, w: &mut impl EntryWriter<'a>) {
                        for d in &self.dims {
                            w.value(d.as_str(), "g");
                        }
                        self.inner.write(w);
                    }
                }
                let dims = if jb(spec, "with_dims", false) { cfg_dim_names(cfg) } else { vec![] };
                let e = ReportWithGlobals { dims, inner: MetriqueValidationError::new(msg) };
                (long_lived.call(&e, &mut w, sampled), fresh.call(&e, &mut fw, sampled))
            } else {
                let e = GenEntry::from_spec(spec);
                if ja(spec, "items").iter().any(|i| js(i, "k", "") == "huge") {
                    r.probe("multi_megabyte_entry", 1);
                }
                if spec.to_string().contains("\"t\":\"panic\"") {
                    // the entry's own code panics half-way through (caught by the caller, as a
                    // task boundary would): the formatter must be as good as new afterwards
                    r.fault("panic_in_user_value", 1);
                    let a = std::panic::catch_unwind(std::panic::AssertUnwindSafe(|| long_lived.call(&e, &mut w, sampled)));
                    let b = std::panic::catch_unwind(std::panic::AssertUnwindSafe(|| fresh.call(&e, &mut fw, sampled)));
                    if a.is_err() || b.is_err() {
                        classes.push("panicked".into());
                        continue;
                    }
                    (a.unwrap(), b.unwrap())
                } else {
                    (long_lived.call(&e, &mut w, sampled), fresh.call(&e, &mut fw, sampled))
                }
            };
            for (k, v) in &w.fired {
                r.fault(k, *v);
            }
            let cl = result_class(&res_long);
            let cf = result_class(&res_fresh);
            st.insert(mix(detsim::rng::hash_str(&cf), classes.last().map(|c| detsim::rng::hash_str(c)).unwrap_or(0)));
            classes.push(cf.clone());
            let writer_failed = faulted && w.fired.keys().any(|k| *k == "writer_hard_err" || *k == "writer_zero");
            if writer_failed {
                if cf == "ok" && !cl.starts_with("io:") {
                    r.violation = Some(Violation::new("writer_failure_not_reported", format!("call {i}: the writer failed but the formatter returned {cl}")));
                    break;
                }
                continue; // the calls after it must match again
            }
            if cl != cf {
                r.violation = Some(Violation::new(
                    "decision_depends_on_history",
                    format!("call {i}: the long-lived formatter returned {cl}, a freshly built formatter returns {cf} for the same entry (earlier calls: {:?})", &classes[..classes.len() - 1]),
                ));
                break;
            }
            // (no masking any more: the fallback clock is the simulator's)
            let mask = false;
            if lines_multiset(&w.received, mask) != lines_multiset(&fw.received, mask) {
                r.violation = Some(Violation::new(
                    "output_depends_on_history",
                    format!("call {i}: {} bytes from the long-lived formatter differ from the {} bytes of a freshly built one (earlier calls: {:?})", w.received.len(), fw.received.len(), &classes[..classes.len() - 1]),
                ));
                break;
            }
        }
        let rejected = classes.iter().filter(|c| *c == "validation").count() as u64;
        r.probe("rejected_entries_in_history", rejected);
        r.probe("accepted_entries_in_history", classes.iter().filter(|c| *c == "ok").count() as u64);
        r.nontrivial = classes.len() >= 2;
        r.case_sig = hash_value(plan);
        r.states = st.into_iter().collect();
        r.sample = Some(json!({"config": cfg, "calls": ja(plan, "calls").len(), "result_classes": classes}));
        r
    }
    fn probes(&self) -> Vec<&'static str> {
        vec!["rejected_entries_in_history", "accepted_entries_in_history", "multi_megabyte_entry", "used_formatter_cloned"]
    }
    fn components(&self) -> J {
        json!({"real": ["Emf (one long-lived instance per run) / SampledEmf", "EntryWriter", "PrefixedStringBuf::clear/shrink_to", "validation maps"], "simulated_seams": ["io::Write (fault-scripted)", "RngCore (constant)", "hash-map hasher (seeded)"], "harness": ["generated entries incl. each validation defect, split mode, entry dimensions, unroutable error reports, 2-3 MB strings"], "stub": []})
    }
    fn rule(&self) -> &'static str {
        "each run: one long-lived Emf (config drawn per run) driven through a history of 5-60 calls (valid, each validation defect, split, entry-dimension, report_error, multi-megabyte, sampled, hard-failing / zero-length / interrupted writer); after every call whose writer did not fail the result class and the multiset of output lines must equal those of a formatter freshly built from the same config; fault-free histories are their own stratum. non-trivial = >= 2 calls; distinct = distinct plans"
    }
}

