//! C11 — histograms conserve observation counts and stay within their stated error.
//! Real code: metrique_aggregation::histogram::{Histogram, SharedHistogram, HistogramClosed,
//! ExponentialAggregationStrategy, AtomicExponentialAggregationStrategy, SortAndMerge,
//! AggregateValue<HistogramClosed<T>>}, the Value impls of u64 / f64 / Duration / WithUnit.
//! The schedule dimension is concurrent `add_value` on one SharedHistogram from 1-4 simulated
//! threads (scheduling point before every atomic record); the rest of the strength is seeded
//! value generation (bucket boundaries, sub-1/32 region, repeated observations).

use std::collections::BTreeSet;
use std::sync::{Arc, Mutex};
use std::time::Duration;

use detsim::rng::{mix, Rng};
use metrique::CloseValue;
use metrique_aggregation::histogram::{AtomicExponentialAggregationStrategy, ExponentialAggregationStrategy, Histogram, HistogramClosed, SharedHistogram, SortAndMerge};
use metrique_aggregation::traits::AggregateValue;
use metrique_writer::unit::{AsMicroseconds, AsSeconds};
use metrique_writer::{MetricFlags, MetricValue, Observation, Unit, ValidationError, ValueWriter};
use serde_json::{json, Value};

use crate::framework::*;

/// A metric value that writes one `Repeated` observation.
#[derive(Clone, Copy, Debug)]
pub struct Rep {
    pub total: f64,
    pub n: u64,
}

impl metrique_writer::Value for Rep {
    fn write(&self, writer: impl ValueWriter) {
        writer.metric([Observation::Repeated { total: self.total, occurrences: self.n }], Unit::None, [], MetricFlags::empty())
    }
}
impl MetricValue for Rep {
    type Unit = metrique_writer::unit::None;
}

/// A metric value that writes several observations of mixed kinds in one distribution.
#[derive(Clone, Debug)]
pub struct Multi(pub Vec<Observation>);

impl metrique_writer::Value for Multi {
    fn write(&self, writer: impl ValueWriter) {
        writer.metric(self.0.iter().copied(), Unit::None, [], MetricFlags::empty())
    }
}
impl MetricValue for Multi {
    type Unit = metrique_writer::unit::None;
}

fn multi_obs(v: &Value) -> Vec<(f64, u64, Observation)> {
    ja(v, "obs")
        .iter()
        .map(|o| match js(o, "k", "f") {
            "u" => {
                let u = ju(o, "v", 0);
                (u as f64, 1, Observation::Unsigned(u))
            }
            "r" => {
                let (t, n) = (jf(o, "t", 0.0), ju(o, "n", 0));
                (if n > 0 { t / n as f64 } else { 0.0 }, n, Observation::Repeated { total: t, occurrences: n })
            }
            _ => {
                let f = jf(o, "v", 0.0);
                (f, 1, Observation::Floating(f))
            }
        })
        .collect()
}

/// One input as the oracle sees it: value in the histogram's unit, and how many times.
#[derive(Clone, Copy, Debug)]
pub struct In {
    pub x: f64,
    pub n: u64,
}

#[derive(Clone, Debug, Default, PartialEq)]
pub struct Closed {
    pub unit: String,
    /// (total, occurrences) in the order written
    pub obs: Vec<(f64, u64)>,
    pub other: u32,
}

struct Cap<'a>(&'a mut Closed);
impl ValueWriter for Cap<'_> {
    fn string(self, _value: &str) {
        self.0.other += 1;
    }
    fn metric<'a>(self, distribution: impl IntoIterator<Item = Observation>, unit: Unit, _dimensions: impl IntoIterator<Item = (&'a str, &'a str)>, _flags: MetricFlags<'_>) {
        self.0.unit = unit.name().to_string();
        for o in distribution {
            match o {
                Observation::Repeated { total, occurrences } => self.0.obs.push((total, occurrences)),
                Observation::Unsigned(u) => self.0.obs.push((u as f64, 1)),
                Observation::Floating(f) => self.0.obs.push((f, 1)),
                #[allow(unreachable_patterns)]
                _ => self.0.other += 1,
            }
        }
    }
    fn error(self, _error: ValidationError) {
        self.0.other += 1;
    }
}

fn capture<T: MetricValue>(c: &HistogramClosed<T>) -> Closed {
    let mut out = Closed::default();
    metrique_writer::Value::write(c, Cap(&mut out));
    out
}

#[derive(Default, Clone, Debug)]
pub struct HistRun {
    pub shared: Closed,
    pub seq_exp: Closed,
    pub seq_sort: Closed,
    pub re_exp: Closed,
    pub re_sort: Closed,
    pub merged_exp: Closed,
    pub merged_sort: Closed,
    /// the `Distribution` aggregation strategy (documented as sort-and-merge without naming T)
    pub distribution: Closed,
    pub with_sort: bool,
    /// strategies used directly and *reused* after a drain: (strategy, drain of a reused one, drain of a fresh one)
    pub reuse: Vec<(&'static str, Vec<(f64, u64)>, Vec<(f64, u64)>)>,
    /// histograms built around an already populated strategy: (strategy, more values added afterwards?, what the
    /// closed histogram reports, what the strategy itself drains)
    pub prefilled: Vec<(&'static str, bool, Vec<(f64, u64)>, Vec<(f64, u64)>)>,
    /// the shared strategy drained while recorders were running: (occurrences over all drains, occurrences recorded)
    pub concurrent_drain: Option<(u128, u128)>,
    pub done: bool,
}

fn run_typed<T>(threads: Vec<Vec<T>>, order: Vec<(usize, usize)>, split: usize, with_sort: bool) -> HistRun
where
    T: MetricValue + Clone + Send + Sync + 'static,
    <metrique_aggregation::value::Distribution as AggregateValue<T>>::Aggregated: Default + CloseValue<Closed = HistogramClosed<T>>,
{
    let mut out = HistRun::default();
    // (1) concurrent recording into one shared (atomic, exponential) histogram
    let shared: Arc<SharedHistogram<T, AtomicExponentialAggregationStrategy>> = Arc::new(SharedHistogram::default());
    let mut hs = vec![];
    for (i, vals) in threads.iter().cloned().enumerate() {
        let sh = shared.clone();
        hs.push(detsim::thread::spawn_named(&format!("rec{}", i + 1), move || {
            for v in vals {
                sh.add_value(v);
            }
        }));
    }
    for h in hs {
        let _ = h.join();
    }
    let Ok(shared) = Arc::try_unwrap(shared) else { return out };
    out.shared = capture(&shared.close());
    // (2) the same multiset, sequentially, in a seeded order
    let all: Vec<T> = order.iter().map(|(t, i)| threads[*t][*i].clone()).collect();
    let mut he: Histogram<T, ExponentialAggregationStrategy> = Histogram::new(ExponentialAggregationStrategy::default());
    let mut hsrt: Histogram<T, SortAndMerge> = Histogram::new(SortAndMerge::default());
    for v in &all {
        he.add_value(v);
        if with_sort {
            hsrt.add_value(v.clone());
        }
    }
    if with_sort {
        type D = metrique_aggregation::value::Distribution;
        let mut d: <D as AggregateValue<T>>::Aggregated = Default::default();
        for v in &all {
            <D as AggregateValue<T>>::insert(&mut d, v.clone());
        }
        out.distribution = capture(&d.close());
    }
    let ce = he.close();
    let cs = hsrt.close();
    out.seq_exp = capture(&ce);
    out.seq_sort = capture(&cs);
    // (3) re-aggregation of a closed histogram into a fresh one of the same strategy
    let mut re: Histogram<T, ExponentialAggregationStrategy> = Histogram::new(ExponentialAggregationStrategy::default());
    <Histogram<T, ExponentialAggregationStrategy> as AggregateValue<HistogramClosed<T>>>::insert(&mut re, ce);
    out.re_exp = capture(&re.close());
    let mut rs: Histogram<T, SortAndMerge> = Histogram::new(SortAndMerge::default());
    <Histogram<T, SortAndMerge> as AggregateValue<HistogramClosed<T>>>::insert(&mut rs, cs);
    out.re_sort = capture(&rs.close());
    // (4) two closed histograms merged into one
    let split = split.min(all.len());
    let mut me: Histogram<T, ExponentialAggregationStrategy> = Histogram::new(ExponentialAggregationStrategy::default());
    let mut ms: Histogram<T, SortAndMerge> = Histogram::new(SortAndMerge::default());
    for part in [&all[..split], &all[split..]] {
        let mut pe: Histogram<T, ExponentialAggregationStrategy> = Histogram::new(ExponentialAggregationStrategy::default());
        let mut ps: Histogram<T, SortAndMerge> = Histogram::new(SortAndMerge::default());
        for v in part {
            pe.add_value(v);
            if with_sort {
                ps.add_value(v);
            }
        }
        <Histogram<T, ExponentialAggregationStrategy> as AggregateValue<HistogramClosed<T>>>::insert(&mut me, pe.close());
        <Histogram<T, SortAndMerge> as AggregateValue<HistogramClosed<T>>>::insert(&mut ms, ps.close());
    }
    out.merged_exp = capture(&me.close());
    out.merged_sort = capture(&ms.close());
    out.with_sort = with_sort;
    out.done = true;
    out
}

/// The inputs of a plan as the oracle sees them, per thread.
pub fn inputs_of(plan: &Value) -> Vec<Vec<In>> {
    let ty = js(plan, "ty", "f64");
    ja(plan, "threads")
        .iter()
        .map(|t| {
            t.as_array()
                .map(|a| a.as_slice())
                .unwrap_or(&[])
                .iter()
                .flat_map(|v| match ty {
                    "u64" => vec![In { x: ju(v, "v", 0) as f64, n: 1 }],
                    "dur_ms" => vec![In { x: ju(v, "v", 0) as f64 / 1e6, n: 1 }],
                    "dur_us" => vec![In { x: ju(v, "v", 0) as f64 / 1e3, n: 1 }],
                    "dur_s" => vec![In { x: ju(v, "v", 0) as f64 / 1e9, n: 1 }],
                    "rep" => {
                        let n = ju(v, "n", 0);
                        vec![In { x: if n > 0 { jf(v, "t", 0.0) / n as f64 } else { 0.0 }, n }]
                    }
                    "multi" => multi_obs(v).into_iter().map(|(x, n, _)| In { x, n }).collect(),
                    _ => vec![In { x: jf(v, "v", 0.0), n: 1 }],
                })
                .collect()
        })
        .collect()
}

fn hist_main(plan: &Value, slot: Arc<Mutex<Option<HistRun>>>) {
    let ty = js(plan, "ty", "f64").to_string();
    let raw: Vec<Vec<Value>> = ja(plan, "threads").iter().map(|t| t.as_array().cloned().unwrap_or_default()).collect();
    let mut order: Vec<(usize, usize)> = vec![];
    for (t, vs) in raw.iter().enumerate() {
        for i in 0..vs.len() {
            order.push((t, i));
        }
    }
    let mut r = Rng::new(ju(plan, "order_seed", 1));
    r.shuffle(&mut order);
    let split = ju(plan, "split", 0) as usize;
    // sort-and-merge keeps every single occurrence in memory (by design): repeated observations
    // with huge occurrence counts are only fed to the bucketing strategies
    let ws = !raw.iter().flatten().any(|v| ju(v, "n", 0) > 200_000 || ja(v, "obs").iter().any(|o| ju(o, "n", 0) > 200_000));
    let run = match ty.as_str() {
        "u64" if jb(plan, "dimensioned", false) => run_typed::<metrique_writer::value::WithDimensions<u64, 1>>(raw.iter().map(|t| t.iter().map(|v| metrique_writer::value::WithDimensions::new(ju(v, "v", 0), "Operation", "GetItem")).collect()).collect(), order, split, ws),
        "dur_ms" if jb(plan, "dimensioned", false) => run_typed::<metrique_writer::value::WithDimensions<Duration, 1>>(raw.iter().map(|t| t.iter().map(|v| metrique_writer::value::WithDimensions::new(Duration::from_nanos(ju(v, "v", 0)), "Operation", "GetItem")).collect()).collect(), order, split, ws),
        "u64" => run_typed::<u64>(raw.iter().map(|t| t.iter().map(|v| ju(v, "v", 0)).collect()).collect(), order, split, ws),
        "dur_ms" => run_typed::<Duration>(raw.iter().map(|t| t.iter().map(|v| Duration::from_nanos(ju(v, "v", 0))).collect()).collect(), order, split, ws),
        "dur_us" => run_typed::<AsMicroseconds<Duration>>(raw.iter().map(|t| t.iter().map(|v| Duration::from_nanos(ju(v, "v", 0)).into()).collect()).collect(), order, split, ws),
        "dur_s" => run_typed::<AsSeconds<Duration>>(raw.iter().map(|t| t.iter().map(|v| Duration::from_nanos(ju(v, "v", 0)).into()).collect()).collect(), order, split, ws),
        "multi" => run_typed::<Multi>(raw.iter().map(|t| t.iter().map(|v| Multi(multi_obs(v).into_iter().map(|o| o.2).collect())).collect()).collect(), order, split, ws),
        "rep" => run_typed::<Rep>(raw.iter().map(|t| t.iter().map(|v| Rep { total: jf(v, "t", 0.0), n: ju(v, "n", 0) }).collect()).collect(), order, split, ws),
        _ => run_typed::<f64>(raw.iter().map(|t| t.iter().map(|v| jf(v, "v", 0.0)).collect()).collect(), order, split, ws),
    };
    // the strategies through their own (public) trait, reused across a drain: a drain resets
    let mut run = run;
    if run.done {
        use metrique_aggregation::histogram::{AggregationStrategy, SharedAggregationStrategy};
        let ins: Vec<In> = inputs_of(plan).into_iter().flatten().filter(|i| i.n <= 200_000).collect();
        let cut = (ju(plan, "split", 0) as usize).min(ins.len());
        let obs = |v: Vec<Observation>| -> Vec<(f64, u64)> { v.into_iter().map(|o| match o { Observation::Repeated { total, occurrences } => (total, occurrences), Observation::Unsigned(u) => (u as f64, 1), Observation::Floating(f) => (f, 1), #[allow(unreachable_patterns)] _ => (f64::NAN, 0) }).collect() };
        macro_rules! reuse {
            ($name:literal, $mk:expr, $rec:ident) => {{
                let mut a = $mk;
                for i in &ins[..cut] {
                    a.$rec(i.x, i.n);
                }
                let _ = a.drain();
                for i in &ins[cut..] {
                    a.$rec(i.x, i.n);
                }
                let reused = obs(a.drain());
                let mut b = $mk;
                for i in &ins[cut..] {
                    b.$rec(i.x, i.n);
                }
                run.reuse.push(($name, reused, obs(b.drain())));
            }};
        }
        // a histogram built around a strategy that already holds observations (recorded through the strategy's own
        // public trait): closing it - at once, or after more values were added - reports them all
        macro_rules! prefilled {
            ($name:literal, $mk:expr, $S:ty) => {{
                for add_rest in [false, true] {
                    let mut st = $mk;
                    for i in &ins[..cut] {
                        st.record_many(i.x, i.n);
                    }
                    let mut h: Histogram<f64, $S> = Histogram::new(st);
                    let mut reference = $mk;
                    for i in &ins[..cut] {
                        reference.record_many(i.x, i.n);
                    }
                    if add_rest {
                        for i in ins[cut..].iter().filter(|i| i.n == 1) {
                            h.add_value(i.x);
                            reference.record_many(i.x, 1);
                        }
                    }
                    run.prefilled.push(($name, add_rest, capture(&h.close()).obs, obs(reference.drain())));
                }
            }};
        }
        prefilled!("SortAndMerge", SortAndMerge::<32>::default(), SortAndMerge<32>);
        prefilled!("ExponentialAggregationStrategy", ExponentialAggregationStrategy::default(), ExponentialAggregationStrategy);
        // the shared strategy drained *while* other threads record into it (what a periodic reporter does): every
        // observation is in exactly one drain
        {
            let shared = Arc::new(AtomicExponentialAggregationStrategy::default());
            let parts: Vec<Vec<In>> = vec![ins[..cut].to_vec(), ins[cut..].to_vec()];
            let mut hs = vec![];
            for (k, part) in parts.into_iter().enumerate() {
                let sh = shared.clone();
                hs.push(detsim::thread::spawn_named(&format!("srec{}", k + 1), move || {
                    for i in part {
                        sh.record_many(i.x, i.n);
                    }
                }));
            }
            let mut drained: u128 = 0;
            for _ in 0..3 {
                detsim::yield_point();
                drained += shared.drain().iter().map(|o| match o { Observation::Repeated { occurrences, .. } => *occurrences as u128, _ => 1 }).sum::<u128>();
            }
            for h in hs {
                let _ = h.join();
            }
            drained += shared.drain().iter().map(|o| match o { Observation::Repeated { occurrences, .. } => *occurrences as u128, _ => 1 }).sum::<u128>();
            run.concurrent_drain = Some((drained, ins.iter().map(|i| i.n as u128).sum()));
        }
        reuse!("SortAndMerge", SortAndMerge::<32>::default(), record_many);
        reuse!("ExponentialAggregationStrategy", ExponentialAggregationStrategy::default(), record_many);
        reuse!("AtomicExponentialAggregationStrategy", AtomicExponentialAggregationStrategy::default(), record_many);
    }
    *slot.lock().unwrap() = Some(run);
}

// ------------------------------------------------------------------------------------------
// oracle
// ------------------------------------------------------------------------------------------

const REL_EPS: f64 = 1e-12;

fn check_exponential(what: &str, inputs: &[In], c: &Closed, want_unit: &str) -> Option<Violation> {
    if c.other != 0 {
        return Some(Violation::new("not_a_distribution", format!("{what}: closed histogram wrote something that is not a metric distribution")));
    }
    if c.unit != want_unit {
        return Some(Violation::new("wrong_unit", format!("{what}: closed histogram carries unit {:?}, its value type's unit is {:?}", c.unit, want_unit)));
    }
    let want_total: u128 = inputs.iter().map(|i| i.n as u128).sum();
    let got_total: u128 = c.obs.iter().map(|o| o.1 as u128).sum();
    if want_total != got_total {
        return Some(Violation::new("count_not_conserved", format!("{what}: {want_total} observations were recorded, the closed distribution counts {got_total}")));
    }
    // reported values ascending, one observation per bucket
    let mut rep: Vec<(f64, u64)> = c.obs.iter().filter(|o| o.1 > 0).map(|o| (o.0 / o.1 as f64, o.1)).collect();
    for w in rep.windows(2) {
        if !(w[0].0 < w[1].0) {
            return Some(Violation::new("buckets_not_ascending", format!("{what}: reported values are not strictly ascending: {} then {}", w[0].0, w[1].0)));
        }
    }
    // bucketing is monotone, so matching sorted inputs to sorted buckets in order is forced
    let mut ins: Vec<In> = inputs.iter().copied().filter(|i| i.n > 0).collect();
    ins.sort_by(|a, b| a.x.partial_cmp(&b.x).unwrap());
    let (mut i, mut j) = (0usize, 0usize);
    while i < ins.len() && j < rep.len() {
        let x = ins[i].x;
        let r = rep[j].0;
        let tol = if x < 1.0 / 32.0 { 1.0 / 1024.0 } else { x * 0.0625 } + x.abs() * REL_EPS;
        if (r - x).abs() > tol {
            return Some(Violation::new("outside_stated_error", format!("{what}: observation {x} is reported at {r} (|error| {} > allowed {tol})", (r - x).abs())));
        }
        let k = ins[i].n.min(rep[j].1);
        ins[i].n -= k;
        rep[j].1 -= k;
        if ins[i].n == 0 {
            i += 1;
        }
        if rep[j].1 == 0 {
            j += 1;
        }
    }
    None
}

/// Exact form for sources without unit conversion: the distinct recorded values (bitwise), in
/// ascending order, each with its multiplicity; the written total is value x count up to one
/// rounding. Two values one ulp apart are two values.
fn check_sorted_exact(what: &str, inputs: &[In], c: &Closed) -> Option<Violation> {
    let mut ins: Vec<In> = inputs.iter().copied().filter(|i| i.n > 0).collect();
    ins.sort_by(|a, b| a.x.partial_cmp(&b.x).unwrap());
    let mut want: Vec<(f64, u128)> = vec![];
    for i in &ins {
        match want.last_mut() {
            Some(l) if i.x == l.0 => l.1 += i.n as u128,
            _ => want.push((i.x, i.n as u128)),
        }
    }
    let got: Vec<(f64, u64)> = c.obs.iter().copied().filter(|o| o.1 > 0).collect();
    if want.len() != got.len() {
        return Some(Violation::new("sorted_values_differ", format!("{what}: {} distinct values were recorded, {} are reported; recorded {:?} reported (total, count) {:?}", want.len(), got.len(), &want[..want.len().min(8)], &got[..got.len().min(8)])));
    }
    for (w, g) in want.iter().zip(got.iter()) {
        let want_total = w.0 * w.1 as f64;
        if w.1 != g.1 as u128 || (g.0 - want_total).abs() > want_total.abs() * 2.3e-16 + 1e-323 {
            return Some(Violation::new("sorted_values_differ", format!("{what}: recorded value {:e} x{} is reported as total {:e} x{} (expected total {:e})", w.0, w.1, g.0, g.1, want_total)));
        }
    }
    None
}

fn check_sorted(what: &str, inputs: &[In], c: &Closed, want_unit: &str, tol_rel: f64) -> Option<Violation> {
    if c.unit != want_unit {
        return Some(Violation::new("wrong_unit", format!("{what}: closed histogram carries unit {:?}, its value type's unit is {:?}", c.unit, want_unit)));
    }
    let mut ins: Vec<In> = inputs.iter().copied().filter(|i| i.n > 0).collect();
    ins.sort_by(|a, b| a.x.partial_cmp(&b.x).unwrap());
    // expected: distinct values ascending with multiplicities (values closer than the
    // floating-point tolerance count as equal)
    let mut want: Vec<(f64, u128)> = vec![];
    for i in &ins {
        match want.last_mut() {
            Some(l) if (i.x - l.0).abs() <= l.0.abs() * tol_rel => l.1 += i.n as u128,
            _ => want.push((i.x, i.n as u128)),
        }
    }
    let mut got: Vec<(f64, u128)> = vec![];
    let mut strictly_merged = true;
    for o in c.obs.iter().filter(|o| o.1 > 0) {
        let v = o.0 / o.1 as f64;
        match got.last_mut() {
            Some(l) if (v - l.0).abs() <= l.0.abs() * tol_rel => {
                if v == l.0 {
                    strictly_merged = false;
                }
                l.1 += o.1 as u128
            }
            Some(l) if v < l.0 => {
                return Some(Violation::new("sorted_not_ascending", format!("{what}: reported values are not ascending: {} then {v}", l.0)));
            }
            _ => got.push((v, o.1 as u128)),
        }
    }
    // (for unit-less sources two values one ulp apart are legitimately separate; the exact form
    // below decides merging there)
    if !strictly_merged && want_unit != "None" {
        return Some(Violation::new("equal_values_not_merged", format!("{what}: two observations with exactly the same value were reported separately")));
    }
    if want.len() != got.len() {
        return Some(Violation::new("sorted_values_differ", format!("{what}: {} distinct values recorded, {} reported; recorded {:?} reported {:?}", want.len(), got.len(), &want[..want.len().min(8)], &got[..got.len().min(8)])));
    }
    for (w, g) in want.iter().zip(got.iter()) {
        if (w.0 - g.0).abs() > w.0.abs() * tol_rel || w.1 != g.1 {
            return Some(Violation::new("sorted_values_differ", format!("{what}: recorded value {} x{} is reported as {} x{}", w.0, w.1, g.0, g.1)));
        }
    }
    None
}

pub fn check_c11(plan: &Value, run: &HistRun) -> Option<Violation> {
    let per_thread = inputs_of(plan);
    let inputs: Vec<In> = per_thread.iter().flatten().copied().collect();
    let want_unit = match js(plan, "ty", "f64") {
        "dur_ms" => "Milliseconds",
        "dur_us" => "Microseconds",
        "dur_s" => "Seconds",
        _ => "None",
    };
    if let Some(v) = check_exponential("shared histogram (concurrent recorders)", &inputs, &run.shared, want_unit) {
        return Some(v);
    }
    if let Some(v) = check_exponential("histogram (exponential)", &inputs, &run.seq_exp, want_unit) {
        return Some(v);
    }
    if run.shared.obs != run.seq_exp.obs {
        return Some(Violation::new("atomic_differs_from_non_atomic", format!("the atomic histogram fed concurrently and the non-atomic histogram fed the same values report different distributions: {:?} vs {:?}", &run.shared.obs[..run.shared.obs.len().min(6)], &run.seq_exp.obs[..run.seq_exp.obs.len().min(6)])));
    }
    // unit conversion goes through one or two floating-point multiplications
    let tol = if matches!(js(plan, "ty", "f64"), "dur_ms" | "dur_us" | "dur_s") { 1e-9 } else { 4e-16 };
    if run.with_sort {
        let v = if want_unit == "None" {
            if run.seq_sort.unit != "None" {
                return Some(Violation::new("wrong_unit", format!("sort-and-merge histogram carries unit {:?}", run.seq_sort.unit)));
            }
            check_sorted_exact("histogram (sort-and-merge)", &inputs, &run.seq_sort)
        } else {
            check_sorted("histogram (sort-and-merge)", &inputs, &run.seq_sort, want_unit, tol)
        };
        if v.is_some() {
            return v;
        }
        // the Distribution strategy "preserves all values while compressing duplicates": the same list
        if run.distribution != run.seq_sort {
            return Some(Violation::new("distribution_strategy_differs", format!("the Distribution aggregation strategy reports {:?} (unit {:?}); a sort-and-merge histogram of the same values reports {:?}", &run.distribution.obs[..run.distribution.obs.len().min(6)], run.distribution.unit, &run.seq_sort.obs[..run.seq_sort.obs.len().min(6)])));
        }
    }
    // re-aggregation
    if run.re_exp.obs != run.seq_exp.obs {
        return Some(Violation::new("reaggregation_changes_exponential", format!("re-aggregating a closed exponential histogram changed it: {:?} -> {:?}", &run.seq_exp.obs[..run.seq_exp.obs.len().min(6)], &run.re_exp.obs[..run.re_exp.obs.len().min(6)])));
    }
    if run.merged_exp.obs != run.seq_exp.obs {
        return Some(Violation::new("merge_changes_exponential", format!("merging two closed exponential histograms differs from one histogram of all values: {:?} vs {:?}", &run.merged_exp.obs[..run.merged_exp.obs.len().min(6)], &run.seq_exp.obs[..run.seq_exp.obs.len().min(6)])));
    }
    if let Some((got, want)) = run.concurrent_drain {
        if got != want {
            return Some(Violation::new("count_not_conserved", format!("atomic exponential strategy drained while other threads were recording: the drains together count {got} observations, {want} were recorded")));
        }
    }
    for (name, added, got, want) in &run.prefilled {
        // (bitwise: NaN-free lists of (total, occurrences))
        if got != want {
            return Some(Violation::new("prefilled_strategy_lost", format!("{name}: a histogram built around a strategy that already held observations (more values added afterwards: {added}) closes to {:?}; the strategy itself holds {:?}", &got[..got.len().min(6)], &want[..want.len().min(6)])));
        }
    }
    for (name, reused, fresh) in &run.reuse {
        if reused != fresh {
            return Some(Violation::new("drain_does_not_reset", format!("{name}: after record / drain / record, the second drain reports {:?}; a fresh strategy fed the second batch only reports {:?}", &reused[..reused.len().min(6)], &fresh[..fresh.len().min(6)])));
        }
    }
    if !run.with_sort {
        return None;
    }
    if let Some(v) = check_sorted("re-aggregated sort-and-merge histogram", &inputs, &run.re_sort, want_unit, tol.max(1e-12)) {
        return Some(Violation::new("reaggregation_changes_sorted", v.message));
    }
    let a: u128 = run.re_sort.obs.iter().map(|o| o.1 as u128).sum();
    let b: u128 = run.seq_sort.obs.iter().map(|o| o.1 as u128).sum();
    if a != b {
        return Some(Violation::new("reaggregation_changes_sorted", format!("re-aggregation changed the total count {b} -> {a}")));
    }
    if let Some(v) = check_sorted("two merged sort-and-merge histograms", &inputs, &run.merged_sort, want_unit, tol.max(1e-12)) {
        return Some(Violation::new("merge_changes_sorted", v.message));
    }
    None
}

// ------------------------------------------------------------------------------------------
// generation
// ------------------------------------------------------------------------------------------

/// A value (in the histogram's unit) from the interesting regions; returns (x, class).
fn gen_x(rng: &mut Rng) -> (f64, &'static str) {
    match rng.below(10) {
        0 | 1 => {
            // a bucket boundary of the 976-bucket layout (in scaled units) and its neighbours
            let p = 5 + rng.below(48);
            let sub = rng.below(16);
            let b = (1u64 << p) + sub * (1u64 << (p - 4));
            let d = rng.below(3) as i64 - 1;
            (((b as i64 + d).max(0) as f64) / 1024.0, "bucket_boundary")
        }
        2 => {
            // linear sub-1/32 region
            let k = rng.below(33);
            ((k as f64 + [0.0, 0.25, 0.5, 0.999][rng.usize_below(4)]) / 1024.0, "sub_1_32")
        }
        3 => ((1u64 << rng.below(43)) as f64, "power_of_two"),
        4 => (rng.below(1 << 43) as f64 + rng.f64(), "random_large"),
        5 => (rng.f64() * 100.0, "random_small"),
        // (either zero: equal as numbers, so they are one value - peeked, so that no draw moves)
        6 => (if rng.clone().next_u64() % 2 == 0 { 0.0 } else { -0.0 }, "zero"),
        7 => ((1u64 << 43) as f64 - 1.0 - rng.below(1000) as f64, "near_2_43"),
        8 => (*rng.pick(&[5e-324, 1e-300, 2.2e-16, 1e-9, 0.1 + 0.2, 0.3]), "tiny_or_inexact"),
        _ => (rng.below(100_000) as f64 / 8.0, "random_mid"),
    }
}

pub fn gen_c11(rng: &mut Rng, tier: Tier) -> Value {
    let ty = *rng.pick(&["u64", "f64", "f64", "dur_ms", "dur_us", "dur_s", "rep", "rep", "multi", "multi"]);
    let nthreads = 1 + rng.below(4);
    // 2 %: a wide histogram - hundreds of observations, mostly distinct values (well over 100 non-empty buckets)
    let wide = rng.chance(0.02);
    let max = if wide { 400 } else if tier == Tier::Thorough { 24 } else { 12 };
    let mut classes: BTreeSet<&'static str> = BTreeSet::new();
    let mut threads: Vec<Vec<Value>> = vec![];
    // a small pool so that equal values recur (merging of equal values, several per bucket)
    let mut pool: Vec<(f64, &'static str)> = (0..(2 + rng.below(6))).map(|_| gen_x(rng)).collect();
    // neighbours in floating point: distinct values one ulp apart must stay distinct
    if matches!(ty, "f64" | "rep" | "multi") && rng.chance(0.5) {
        let x = pool[0].0.abs();
        pool.push((f64::from_bits(x.to_bits() + 1), "adjacent_floats"));
        if x > 0.0 {
            pool.push((f64::from_bits(x.to_bits() - 1), "adjacent_floats"));
        }
    }
    for _ in 0..nthreads {
        let n = if wide { 120 + rng.below(max - 119) } else { rng.below(max + 1) };
        let mut t = vec![];
        for _ in 0..n {
            let (x, class) = if rng.chance(if wide { 0.05 } else { 0.5 }) { pool[rng.usize_below(pool.len())] } else { gen_x(rng) };
            classes.insert(class);
            t.push(match ty {
                "u64" => json!({"v": x.round().min((1u64 << 43) as f64 - 1.0) as u64}),
                "dur_ms" => json!({"v": (x * 1e6).round().min(8.7e18) as u64}),
                "dur_us" => json!({"v": (x * 1e3).round().min(8.7e18) as u64}),
                "dur_s" => json!({"v": (x * 1e9).round().min(8.7e18) as u64}),
                "rep" => {
                    // (runs of 65 536+ equal observations are stored one by one by sort-and-merge: rare, they cost milliseconds)
                    let n = if rng.chance(0.004) { *rng.pick(&[65_536u64, 65_537, 100_000]) } else { *rng.pick(&[0u64, 1, 1, 2, 3, 7, 49, 1000, 1 << 20, 1 << 32]) };
                    // (no occurrences: nothing is observed, whatever the total says - half of them carry a non-zero total)
                    json!({"t": if n == 0 && x.to_bits() & 1 == 0 { x } else { x * n as f64 }, "n": n})
                }
                "multi" => {
                    // one value writing 1-4 observations of mixed kinds, empty Repeated entries anywhere
                    let mut obs = vec![];
                    for j in 0..1 + rng.below(4) {
                        let (y, c2) = if j == 0 { (x, class) } else if rng.chance(0.5) { pool[rng.usize_below(pool.len())] } else { gen_x(rng) };
                        classes.insert(c2);
                        obs.push(match rng.below(4) {
                            0 => json!({"k":"u","v": y.round().min((1u64 << 43) as f64 - 1.0) as u64}),
                            1 => {
                                let n = if rng.chance(0.002) { 70_000 } else { *rng.pick(&[0u64, 0, 1, 2, 49, 1000]) };
                                json!({"k":"r","t": if n == 0 && y.to_bits() & 1 == 0 { y } else { y * n as f64 }, "n": n})
                            }
                            _ => json!({"k":"f","v": y}),
                        });
                    }
                    json!({"obs": obs})
                }
                _ => json!({"v": x}),
            });
        }
        threads.push(t);
    }
    let total: u64 = threads.iter().map(|t| t.len() as u64).sum();
    let sched = gen_sched(rng, &SchedOpts { est_choices: 10 + 2 * total, threads: nthreads, jump_max_ns: 0, stall_clock_max_ns: 0, max_steps: if wide { 400_000 } else { 20_000 } });
    // a third of the plain-integer / duration plans: the recorded value type attaches a dimension of its own to every
    // value (`WithDimensions<T, 1>`): the histogram counts the values all the same
    let dimensioned = matches!(ty, "u64" | "dur_ms") && mix(ju(&sched, "seed", 0), 0xd1e) % 3 == 0;
    json!({"sched": sched, "wide": wide, "dimensioned": dimensioned, "ty": ty, "threads": threads, "order_seed": rng.next_u64() >> 1, "split": rng.below(total + 1), "classes": classes.into_iter().collect::<Vec<_>>()})
}

pub struct Histograms;

impl Scenario for Histograms {
    fn name(&self) -> &'static str {
        "histograms"
    }
    fn property(&self) -> &'static str {
        "C11"
    }
    fn generate(&self, rng: &mut Rng, tier: Tier) -> Value {
        gen_c11(rng, tier)
    }
    fn run(&self, plan: &Value) -> Report {
        let sched = sched_from_plan(plan);
        let slot: Arc<Mutex<Option<HistRun>>> = Arc::new(Mutex::new(None));
        let (s2, p2) = (slot.clone(), plan.clone());
        let (out, _) = detsim::run(sched, move || hist_main(&p2, s2));
        let run = slot.lock().unwrap().take();
        let mut r = Report::default();
        let ins = inputs_of(plan);
        let total: usize = ins.iter().map(|t| t.len()).sum();
        r.nontrivial = total >= 2;
        r.case_sig = mix(out.sig, hash_value(&json!([plan.get("ty"), plan.get("threads"), plan.get("order_seed"), plan.get("split")])));
        if out.threads >= 3 && out.preemptions >= 1 {
            r.probe("concurrent_recorders_interleaved", 1);
        }
        let failure = out.failure.clone();
        let mp = out.main_panic.clone();
        absorb_outcome(&mut r, out);
        for c in ja(plan, "classes") {
            if let Some(c) = c.as_str() {
                r.probe(&format!("value_{c}"), 1);
            }
        }
        if jb(plan, "wide", false) {
            r.probe("wide_histogram_over_100_values", 1);
        }
        let ty = js(plan, "ty", "f64");
        r.probe(&format!("type_{ty}"), 1);
        if jb(plan, "dimensioned", false) {
            r.probe("value_type_with_dimensions", 1);
        }
        if matches!(ty, "rep" | "multi") && ins.iter().flatten().any(|i| i.n == 0) {
            r.probe("repeated_with_zero_occurrences", 1);
        }
        // abstract state: (type, magnitude class of each recorded value in scaled units)
        let mut st = BTreeSet::new();
        for i in ins.iter().flatten() {
            let scaled = (i.x * 1024.0) as u64;
            let mag = 64 - scaled.leading_zeros() as u64;
            st.insert(mix(detsim::rng::hash_str(ty), mag));
        }
        r.states = st.into_iter().collect();
        match &run {
            Some(run) if run.done => {
                r.violation = check_c11(plan, run);
                r.sample = Some(json!({"ty": ty, "inputs": total, "shared": format!("{:?}", &run.shared.obs[..run.shared.obs.len().min(6)]), "sorted": format!("{:?}", &run.seq_sort.obs[..run.seq_sort.obs.len().min(6)])}));
            }
            _ => {}
        }
        if r.violation.is_none() {
            match failure {
                None => {
                    if let Some(p) = mp {
                        r.violation = Some(Violation::new("panic", format!("histogram code panicked: {p}")));
                    } else if run.map(|r| !r.done).unwrap_or(true) {
                        r.harness_error = Some("histogram scenario produced no result".into());
                    }
                }
                Some(f @ detsim::Failure::Deadlock { .. }) => r.violation = Some(Violation::new("deadlock", format!("{f:?}"))),
                Some(detsim::Failure::StepLimit { .. }) => r.inconclusive = true,
                Some(f) => r.harness_error = Some(format!("simulation failed: {f:?}")),
            }
        }
        r
    }
    fn probes(&self) -> Vec<&'static str> {
        vec!["concurrent_recorders_interleaved", "value_bucket_boundary", "value_sub_1_32", "value_power_of_two", "value_zero", "value_near_2_43", "value_adjacent_floats", "value_tiny_or_inexact", "type_multi", "type_u64", "type_f64", "type_dur_ms", "type_dur_us", "type_dur_s", "type_rep", "repeated_with_zero_occurrences", "wide_histogram_over_100_values"]
    }
    fn components(&self) -> Value {
        json!({
            "real": ["Histogram / SharedHistogram add_value (observation capture incl. Repeated)", "ExponentialAggregationStrategy / AtomicExponentialAggregationStrategy / SortAndMerge record + drain", "HistogramClosed (Value impl)", "AggregateValue<HistogramClosed<T>> (re-aggregation, merge)", "Value impls of u64 / f64 / Duration / WithUnit conversions", "histogram::Histogram / AtomicHistogram (atomic step)"],
            "simulated_seams": ["scheduling point before every record / drain of the atomic strategy; thread spawn/join"],
            "harness": ["Rep (a MetricValue writing one Repeated observation)", "capturing ValueWriter"],
            "stub": [],
        })
    }
    fn rule(&self) -> &'static str {
        "each run: one value type (u64, f64, Duration in ms / us / s, Repeated observations with occurrence counts 0..2^32), 1-4 recorder threads adding 0-24 values each (bucket boundaries of the 976-bucket layout +-1 scaled unit, the sub-1/32 linear region, powers of two, random magnitudes below 2^43, a small pool of recurring values) concurrently to one SharedHistogram; the same multiset fed sequentially in a seeded order to the non-atomic exponential and the sort-and-merge histogram; re-aggregation of each closed histogram and a merge of two closed halves. non-trivial = >= 2 recorded values; distinct = distinct (plan, context-switch signature)"
    }
}
