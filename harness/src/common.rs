//! Harness objects shared by the scenarios: event history, id-carrying entries, the
//! recording / scriptable / gateable stream, counting metrics recorder, quiet tracing subscriber.

use std::borrow::Cow;
use std::collections::{BTreeMap, HashMap};
use std::sync::atomic::{AtomicI64, AtomicU64, Ordering};
use std::sync::{Arc, Mutex};
use std::time::SystemTime;

use metrique_writer::{
    Entry, EntryIoStream, EntryWriter, IoStreamError, MetricFlags, Observation, Unit,
    ValidationError, Value, ValueWriter,
};
use metrique_writer_core::entry::EntryConfig;

// ------------------------------------------------------------------------------------------
// event history
// ------------------------------------------------------------------------------------------

#[derive(Clone, Copy, Debug, PartialEq, Eq)]
pub enum Res {
    Ok,
    Validation,
    Io,
}

impl Res {
    pub fn from_str(s: &str) -> Res {
        match s {
            "V" => Res::Validation,
            "I" => Res::Io,
            _ => Res::Ok,
        }
    }
}

#[derive(Clone, Debug, PartialEq)]
pub enum K {
    AppendBegin { id: u64 },
    AppendEnd { id: u64, blocked: bool, panicked: bool },
    NextBegin { stream: u32, id: Option<u64>, report: bool },
    NextEnd { stream: u32, id: Option<u64>, report: bool, res: Res },
    FlushBegin { stream: u32 },
    FlushEnd { stream: u32, ok: bool },
    StreamDrop { stream: u32 },
    FlushReq { fid: u64 },
    FlushDone { fid: u64, first_poll: bool },
    FlushCancelled { fid: u64 },
    FlushGaveUp { fid: u64, nexts_waited: u64 },
    DropHandleBegin,
    DropHandleEnd { writer_finished: bool },
    Forget,
    HandleCloneDropped,
    Note(String),
}

#[derive(Clone, Debug)]
pub struct Ev {
    pub seq: u64,
    pub tid: usize,
    pub clock: u64,
    pub k: K,
}

#[derive(Clone, Default)]
pub struct History(Arc<Mutex<Vec<Ev>>>);

impl History {
    pub fn new() -> Self {
        History::default()
    }

    /// Append an event, stamped with the simulator's global sequence number.
    pub fn log(&self, k: K) -> u64 {
        let seq = detsim::next_seq();
        let ev = Ev {
            seq,
            tid: detsim::current_tid().unwrap_or(usize::MAX),
            clock: detsim::run_clock_ns(),
            k,
        };
        self.0.lock().unwrap_or_else(|e| e.into_inner()).push(ev);
        seq
    }

    pub fn snapshot(&self) -> Vec<Ev> {
        self.0.lock().unwrap_or_else(|e| e.into_inner()).clone()
    }

    pub fn len(&self) -> usize {
        self.0.lock().unwrap_or_else(|e| e.into_inner()).len()
    }
}

pub fn history_json(h: &[Ev], max: usize) -> serde_json::Value {
    // VERIF_HISTORY_MAX=N shows more of the history when inspecting a replay
    let max = std::env::var("VERIF_HISTORY_MAX").ok().and_then(|s| s.parse().ok()).unwrap_or(max);
    let mut v: Vec<serde_json::Value> = h
        .iter()
        .take(max)
        .map(|e| serde_json::Value::String(format!("#{} t{} @{}ns {:?}", e.seq, e.tid, e.clock, e.k)))
        .collect();
    if h.len() > max {
        v.push(serde_json::Value::String(format!("... {} more events", h.len() - max)));
    }
    serde_json::Value::Array(v)
}

// ------------------------------------------------------------------------------------------
// entries that carry an id
// ------------------------------------------------------------------------------------------

pub fn entry_id(thread: u64, seq: u64) -> u64 {
    (thread << 32) | seq
}
pub fn id_thread(id: u64) -> u64 {
    id >> 32
}
pub fn id_seq(id: u64) -> u64 {
    id & 0xFFFF_FFFF
}

pub struct IdEntry(pub u64);

/// What some entries do when they are dropped - by the writer thread after they were written, or by whoever displaces
/// them from a full queue (an entry that owns a child unit of work appends it from its destructor). Keyed by entry id,
/// filled by the scenario, emptied at the end of every run.
pub static ON_ENTRY_DROP: Mutex<Option<HashMap<u64, Box<dyn FnOnce() + Send>>>> = Mutex::new(None);

impl Drop for IdEntry {
    fn drop(&mut self) {
        let f = ON_ENTRY_DROP.lock().ok().and_then(|mut g| g.as_mut().and_then(|m| m.remove(&self.0)));
        if let Some(f) = f {
            f();
        }
    }
}

impl Entry for IdEntry {
    fn write<'a>(&'a self, writer: &mut impl EntryWriter<'a>) {
        writer.value("id", &self.0);
    }
}

/// What an entry wrote, as seen by the harness stream.
#[derive(Default, Debug)]
pub struct Seen {
    pub id: Option<u64>,
    pub report: bool,
    pub other: u32,
    /// dimensions attached to the id metric (global dimensions merged in by a stream adapter)
    pub dims: u32,
    /// the entry carries the field that a `merge_globals` adapter adds
    pub global_field: bool,
}

impl<'a> EntryWriter<'a> for Seen {
    fn timestamp(&mut self, _timestamp: SystemTime) {}

    fn value(&mut self, name: impl Into<Cow<'a, str>>, value: &(impl Value + ?Sized)) {
        let name = name.into();
        match &name[..] {
            "id" => value.write(IdCapture(self)),
            "MetriqueValidationError" => self.report = true,
            "verif_global" => self.global_field = true,
            _ => self.other += 1,
        }
    }

    fn config(&mut self, _config: &'a dyn EntryConfig) {}
}

struct IdCapture<'s>(&'s mut Seen);

impl ValueWriter for IdCapture<'_> {
    fn string(self, _value: &str) {
        self.0.other += 1;
    }

    fn metric<'a>(
        self,
        distribution: impl IntoIterator<Item = Observation>,
        _unit: Unit,
        dimensions: impl IntoIterator<Item = (&'a str, &'a str)>,
        _flags: MetricFlags<'_>,
    ) {
        self.0.dims = dimensions.into_iter().count() as u32;
        if let Some(Observation::Unsigned(v)) = distribution.into_iter().next() {
            self.0.id = Some(v);
        }
    }

    fn error(self, _error: ValidationError) {
        self.0.other += 1;
    }
}

/// A late-bound callback slot shared between a harness object created before the sink (stream,
/// recorder) and the scenario that can only fill it in once the sink exists.
pub struct Callback<A>(pub Arc<Mutex<Option<Box<dyn Fn(A) + Send + Sync>>>>);
impl<A> Default for Callback<A> {
    fn default() -> Self {
        Callback(Arc::new(Mutex::new(None)))
    }
}
impl<A> Clone for Callback<A> {
    fn clone(&self) -> Self {
        Callback(self.0.clone())
    }
}
impl<A> Callback<A> {
    pub fn set(&self, f: impl Fn(A) + Send + Sync + 'static) {
        *self.0.lock().unwrap() = Some(Box::new(f));
    }
    pub fn clear(&self) {
        *self.0.lock().unwrap() = None;
    }
    pub fn call(&self, a: A) {
        // take the closure out while it runs: it may re-enter code that calls this slot again
        let f = self.0.lock().unwrap().take();
        if let Some(f) = f {
            f(a);
            let mut g = self.0.lock().unwrap();
            if g.is_none() {
                *g = Some(f);
            }
        }
    }
}

// ------------------------------------------------------------------------------------------
// gate (fuel) on the simulated scheduler
// ------------------------------------------------------------------------------------------

pub struct Gate {
    fuel: AtomicI64,
    key: u64,
    pub waits: AtomicU64,
}

impl Gate {
    /// `initial < 0` means "always open".
    pub fn new(initial: i64) -> Arc<Gate> {
        Arc::new(Gate { fuel: AtomicI64::new(initial), key: detsim::fresh_key(), waits: AtomicU64::new(0) })
    }

    #[track_caller]
    pub fn pass(&self) {
        loop {
            let f = self.fuel.load(Ordering::SeqCst);
            if f < 0 {
                return;
            }
            if f > 0 {
                self.fuel.store(f - 1, Ordering::SeqCst);
                return;
            }
            self.waits.fetch_add(1, Ordering::SeqCst);
            let _ = detsim::block_on_key(self.key, None, detsim::site());
        }
    }

    pub fn add(&self, n: i64) {
        let f = self.fuel.load(Ordering::SeqCst);
        if f >= 0 {
            self.fuel.store(f + n, Ordering::SeqCst);
        }
        detsim::unblock(self.key);
    }

    pub fn open_forever(&self) {
        self.fuel.store(-1, Ordering::SeqCst);
        detsim::unblock(self.key);
    }

    pub fn fuel(&self) -> i64 {
        self.fuel.load(Ordering::SeqCst)
    }
}

// ------------------------------------------------------------------------------------------
// the recording stream
// ------------------------------------------------------------------------------------------

pub struct StreamCtl {
    pub stream_no: u32,
    pub hist: History,
    pub gate: Arc<Gate>,
    /// `next` calls begun
    pub nexts_started: AtomicU64,
    /// completed `next` calls (any result)
    pub nexts_done: AtomicU64,
    /// completed `next` calls that carried a queue entry (not the in-band report, which does not
    /// take anything out of the queue)
    pub entry_nexts_done: AtomicU64,
    /// key unblocked after every completed `next`
    pub next_key: u64,
    pub flushes_done: AtomicU64,
    pub dropped: AtomicU64,
}

pub struct RecStream {
    pub ctl: Arc<StreamCtl>,
    /// per-entry-id result script; entries not listed succeed
    pub script: HashMap<u64, Res>,
    /// result for the in-band report entry
    pub report_res: Res,
    /// 0-based indices of `flush` calls that fail
    pub flush_fail: Vec<u64>,
    pub next_cost_ns: u64,
    pub yields: bool,
    /// every `flush` call with index >= this fails (a persistently failing device)
    pub flush_fail_from: Option<u64>,
    /// every entry gets this result (a stream that rejects everything)
    pub fail_all: Option<Res>,
    /// `fail_all` applies from this entry ordinal on (the first `fail_all_from` entries succeed)
    pub fail_all_from: u64,
    /// ... and stops applying at this entry ordinal (an outage that ends): later entries succeed again
    pub fail_all_until: u64,
    /// what a stream adapter in front of this stream adds to every entry: (the global field, that many dimensions);
    /// an entry that arrives without them is noted (`adapter_lost`)
    pub expect_adapter: Option<(bool, u32)>,
    /// fault: the stream itself panics inside `next` for the entry with this ordinal (user code on the writer thread)
    pub panic_at_entry: Option<u64>,
    /// called inside every entry's `next` with the index of that call (a stream that itself uses
    /// the sink it serves); filled in by the scenario once the sink exists
    pub on_entry_next: Callback<u64>,
    /// at the start of the `next` call with this index the *writer thread* gets a scoped tracing
    /// subscriber (a subscriber installed after the queue was built)
    pub install_subscriber_at: Option<u64>,
    next_calls: u64,
    flush_calls: u64,
}

thread_local! {
    static SCOPED_SUBSCRIBER: std::cell::RefCell<Option<tracing::dispatcher::DefaultGuard>> = const { std::cell::RefCell::new(None) };
}

impl RecStream {
    pub fn new(stream_no: u32, hist: History, gate_initial: i64) -> (RecStream, Arc<StreamCtl>) {
        let ctl = Arc::new(StreamCtl {
            stream_no,
            hist,
            gate: Gate::new(gate_initial),
            nexts_started: AtomicU64::new(0),
            nexts_done: AtomicU64::new(0),
            entry_nexts_done: AtomicU64::new(0),
            next_key: detsim::fresh_key(),
            flushes_done: AtomicU64::new(0),
            dropped: AtomicU64::new(0),
        });
        (
            RecStream {
                ctl: ctl.clone(),
                script: HashMap::new(),
                report_res: Res::Ok,
                flush_fail: vec![],
                next_cost_ns: 0,
                yields: true,
                flush_fail_from: None,
                fail_all: None,
                fail_all_from: 0,
                fail_all_until: u64::MAX,
                panic_at_entry: None,
                expect_adapter: None,
                on_entry_next: Callback::default(),
                install_subscriber_at: None,
                next_calls: 0,
                flush_calls: 0,
            },
            ctl,
        )
    }
}

/// I/O error kinds a real writer can return; which one an entry gets is a function of its id, so
/// "transient-looking" kinds (Interrupted, WouldBlock, TimedOut) are exercised as well.
pub const IO_KINDS: [std::io::ErrorKind; 7] = [
    std::io::ErrorKind::Other,
    std::io::ErrorKind::Interrupted,
    std::io::ErrorKind::WouldBlock,
    std::io::ErrorKind::BrokenPipe,
    std::io::ErrorKind::TimedOut,
    std::io::ErrorKind::WriteZero,
    std::io::ErrorKind::StorageFull,
];

fn res_to_result(r: Res, salt: u64) -> Result<(), IoStreamError> {
    match r {
        Res::Ok => Ok(()),
        Res::Validation => {
            // validation messages quote user-chosen field names: any length, any script (characters of 1-4
            // bytes, so that every byte offset falls inside a character for some message)
            let h = detsim::rng::mix(salt, 0x77);
            let msg = if h % 3 == 0 {
                "scripted validation error".to_string()
            } else {
                let mut m = String::from("scripted validation error for field ");
                let len = 200 + (h >> 8) % 900;
                let mut i = h >> 20;
                while (m.len() as u64) < len {
                    m.push(['a', '\u{e9}', '\u{4e16}', '\u{1F600}', ' '][(i % 5) as usize]);
                    i = i / 5 + 7 * (m.len() as u64);
                }
                m
            };
            Err(IoStreamError::Validation(ValidationError::invalid(msg)))
        }
        Res::Io => {
            let kind = IO_KINDS[(detsim::rng::mix(salt, 0x10) % IO_KINDS.len() as u64) as usize];
            Err(IoStreamError::Io(std::io::Error::new(kind, "scripted io error")))
        }
    }
}

impl EntryIoStream for RecStream {
    fn next(&mut self, entry: &impl Entry) -> Result<(), IoStreamError> {
        let mut seen = Seen::default();
        entry.write(&mut seen);
        let no = self.ctl.stream_no;
        if self.install_subscriber_at == Some(self.next_calls) && !seen.report {
            let g = tracing::dispatcher::set_default(&tracing::Dispatch::new(QuietSubscriber));
            SCOPED_SUBSCRIBER.with(|c| *c.borrow_mut() = Some(g));
            self.ctl.hist.log(K::Note("writer_thread_subscriber_installed".into()));
        }
        if !seen.report {
            // (the in-band report itself was decided before this call: entries only)
            self.on_entry_next.call(self.next_calls);
            self.next_calls += 1;
        }
        self.ctl.hist.log(K::NextBegin { stream: no, id: seen.id, report: seen.report });
        self.ctl.nexts_started.fetch_add(1, Ordering::SeqCst);
        if self.yields {
            detsim::yield_point();
            self.ctl.gate.pass();
        }
        if self.next_cost_ns > 0 {
            detsim::advance_clock(self.next_cost_ns);
        }
        if self.yields {
            detsim::yield_point();
        }
        if let (false, Some((field, dims))) = (seen.report, self.expect_adapter) {
            if seen.global_field != field || seen.dims != dims {
                self.ctl.hist.log(K::Note(format!("adapter_lost: stream {} got entry {:?} with global field: {} / {} dimensions, the adapters in front of it add field: {field} / {dims} dimensions", no, seen.id, seen.global_field, seen.dims)));
            }
        }
        if !seen.report && self.panic_at_entry == Some(self.ctl.entry_nexts_done.load(Ordering::SeqCst)) {
            self.ctl.hist.log(K::Note(format!("stream_panicked:{}", self.ctl.stream_no)));
            std::panic::panic_any("harness: the output stream panics");
        }
        let res = if seen.report {
            self.report_res
        } else {
            seen.id.and_then(|id| self.script.get(&id).copied()).or(if (self.fail_all_from..self.fail_all_until).contains(&self.ctl.entry_nexts_done.load(Ordering::SeqCst)) { self.fail_all } else { None }).unwrap_or(Res::Ok)
        };
        self.ctl.hist.log(K::NextEnd { stream: no, id: seen.id, report: seen.report, res });
        self.ctl.nexts_done.fetch_add(1, Ordering::SeqCst);
        if !seen.report {
            self.ctl.entry_nexts_done.fetch_add(1, Ordering::SeqCst);
        }
        detsim::unblock(self.ctl.next_key);
        res_to_result(res, seen.id.unwrap_or(7))
    }

    fn flush(&mut self) -> std::io::Result<()> {
        let no = self.ctl.stream_no;
        self.ctl.hist.log(K::FlushBegin { stream: no });
        if self.yields {
            detsim::yield_point();
        }
        let idx = self.flush_calls;
        self.flush_calls += 1;
        let ok = !self.flush_fail.contains(&idx) && !self.flush_fail_from.map(|f| idx >= f).unwrap_or(false);
        self.ctl.hist.log(K::FlushEnd { stream: no, ok });
        self.ctl.flushes_done.fetch_add(1, Ordering::SeqCst);
        if ok { Ok(()) } else { Err(std::io::Error::other("scripted flush error")) }
    }
}

impl Drop for RecStream {
    fn drop(&mut self) {
        // (runs on the writer thread when the queue closes the stream)
        let _ = SCOPED_SUBSCRIBER.try_with(|c| c.borrow_mut().take());
        self.ctl.hist.log(K::StreamDrop { stream: self.ctl.stream_no });
        self.ctl.dropped.fetch_add(1, Ordering::SeqCst);
    }
}

// ------------------------------------------------------------------------------------------
// counting metrics recorder (metrics.rs 0.24)
// ------------------------------------------------------------------------------------------

#[derive(Default)]
pub struct CountingRecorderInner {
    pub counters: Mutex<BTreeMap<String, Arc<AtomicU64>>>,
    pub histograms: Mutex<BTreeMap<String, Vec<f64>>>,
    /// called after every counter increment with the counter's name (a recorder that itself emits
    /// metrics through the sink whose metrics it records)
    pub on_increment: Callback<String>,
}

#[derive(Clone, Default)]
pub struct CountingRecorder(pub Arc<CountingRecorderInner>);

fn key_string(key: &metrics::Key) -> String {
    let mut s = key.name().to_string();
    for l in key.labels() {
        s.push_str(&format!("{{{}={}}}", l.key(), l.value()));
    }
    s
}

impl CountingRecorder {
    pub fn counter(&self, name_with_labels: &str) -> u64 {
        self.0
            .counters
            .lock()
            .unwrap()
            .get(name_with_labels)
            .map(|c| c.load(Ordering::SeqCst))
            .unwrap_or(0)
    }

    pub fn counters(&self) -> BTreeMap<String, u64> {
        self.0
            .counters
            .lock()
            .unwrap()
            .iter()
            .map(|(k, v)| (k.clone(), v.load(Ordering::SeqCst)))
            .collect()
    }
}

struct CounterCell(Arc<AtomicU64>, Callback<String>, String);
impl metrics::CounterFn for CounterCell {
    fn increment(&self, value: u64) {
        // the recorder is a harness-owned seam: calling into it is a scheduling point
        detsim::yield_point();
        self.0.fetch_add(value, Ordering::SeqCst);
        detsim::yield_point();
        self.1.call(self.2.clone());
    }
    fn absolute(&self, value: u64) {
        self.0.fetch_max(value, Ordering::SeqCst);
    }
}

struct HistCell(Arc<CountingRecorderInner>, String);
impl metrics::HistogramFn for HistCell {
    fn record(&self, value: f64) {
        self.0.histograms.lock().unwrap().entry(self.1.clone()).or_default().push(value);
    }
}

struct GaugeCell;
impl metrics::GaugeFn for GaugeCell {
    fn increment(&self, _value: f64) {}
    fn decrement(&self, _value: f64) {}
    fn set(&self, _value: f64) {}
}

impl metrics::Recorder for CountingRecorder {
    fn describe_counter(&self, _: metrics::KeyName, _: Option<metrics::Unit>, _: metrics::SharedString) {}
    fn describe_gauge(&self, _: metrics::KeyName, _: Option<metrics::Unit>, _: metrics::SharedString) {}
    fn describe_histogram(&self, _: metrics::KeyName, _: Option<metrics::Unit>, _: metrics::SharedString) {}

    fn register_counter(&self, key: &metrics::Key, _m: &metrics::Metadata<'_>) -> metrics::Counter {
        let cell = self
            .0
            .counters
            .lock()
            .unwrap()
            .entry(key_string(key))
            .or_insert_with(|| Arc::new(AtomicU64::new(0)))
            .clone();
        metrics::Counter::from_arc(Arc::new(CounterCell(cell, self.0.on_increment.clone(), key_string(key))))
    }

    fn register_gauge(&self, _key: &metrics::Key, _m: &metrics::Metadata<'_>) -> metrics::Gauge {
        metrics::Gauge::from_arc(Arc::new(GaugeCell))
    }

    fn register_histogram(&self, key: &metrics::Key, _m: &metrics::Metadata<'_>) -> metrics::Histogram {
        metrics::Histogram::from_arc(Arc::new(HistCell(self.0.clone(), key_string(key))))
    }
}

// ------------------------------------------------------------------------------------------
// quiet tracing subscriber ("a subscriber is installed", but it prints nothing). It is a *slow* subscriber for
// error events: handling one contains a scheduling point, so the thread that reports an error (an overflow, a
// rejected entry, a failed flush) can be descheduled in the middle of the report while others carry on.
// ------------------------------------------------------------------------------------------

pub struct QuietSubscriber;

impl tracing::Subscriber for QuietSubscriber {
    fn enabled(&self, metadata: &tracing::Metadata<'_>) -> bool {
        metadata.is_event() && *metadata.level() == tracing::Level::ERROR
    }
    fn new_span(&self, _span: &tracing::span::Attributes<'_>) -> tracing::span::Id {
        tracing::span::Id::from_u64(1)
    }
    fn record(&self, _span: &tracing::span::Id, _values: &tracing::span::Record<'_>) {}
    fn record_follows_from(&self, _span: &tracing::span::Id, _follows: &tracing::span::Id) {}
    fn event(&self, _event: &tracing::Event<'_>) {
        if detsim::in_sim() && SLOW_SUBSCRIBER_ON.load(Ordering::SeqCst) {
            SLOW_SUBSCRIBER_EVENTS.fetch_add(1, Ordering::Relaxed);
            detsim::yield_point();
        }
    }
    fn enter(&self, _span: &tracing::span::Id) {}
    fn exit(&self, _span: &tracing::span::Id) {}
}

/// error events handled (each with a scheduling point inside) since the process started
pub static SLOW_SUBSCRIBER_EVENTS: AtomicU64 = AtomicU64::new(0);
/// set by the scenarios in which the subscriber may deschedule the reporting thread
pub static SLOW_SUBSCRIBER_ON: std::sync::atomic::AtomicBool = std::sync::atomic::AtomicBool::new(false);

pub fn install_quiet_subscriber() {
    let _ = tracing::subscriber::set_global_default(QuietSubscriber);
}

pub fn subscriber_installed() -> bool {
    !tracing::dispatcher::get_default(|d| d.is::<tracing::subscriber::NoSubscriber>())
}
