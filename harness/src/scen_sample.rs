//! C12 — sampling: emit iff draw <= rate, pass the rate on, unbiased integer EMF weight,
//! congressional rates. Real code: FixedFractionSample, CongressSample(+Builder), SampledEmf /
//! rate_to_n, Emf. Seams: RngCore parameters (scripted), Instant in congress.rs (simulated clock),
//! cfg accessor for the per-group state.

use std::borrow::Cow;
use std::collections::{BTreeMap, BTreeSet};
use std::io;
use std::sync::atomic::{AtomicU64, Ordering};
use std::sync::{Arc, Mutex};
use std::time::{Duration, SystemTime};

use detsim::rng::{mix, Rng};
use metrique_writer::format::Format;
use metrique_writer::sample::{CongressSampleBuilder, FixedFractionSample, SampledFormat};
use metrique_writer::{Entry, EntryWriter, IoStreamError};
use metrique_writer_core::entry::SampleGroupElement;
use metrique_writer_format_emf::Emf;
use rand_core::RngCore;
use serde_json::{json, Value};

use crate::framework::*;

/// RNG returning scripted 64-bit words (u32 draws take the high half, like rand does for
/// generators whose native output is u64... we define next_u32 explicitly so the mapping is ours).
#[derive(Clone)]
pub struct ScriptRng {
    pub word: Arc<AtomicU64>,
    pub draws: Arc<AtomicU64>,
}

impl ScriptRng {
    pub fn new() -> Self {
        ScriptRng { word: Arc::new(AtomicU64::new(0)), draws: Arc::new(AtomicU64::new(0)) }
    }
}

impl RngCore for ScriptRng {
    fn next_u32(&mut self) -> u32 {
        self.draws.fetch_add(1, Ordering::SeqCst);
        (self.word.load(Ordering::SeqCst) >> 32) as u32
    }
    fn next_u64(&mut self) -> u64 {
        self.draws.fetch_add(1, Ordering::SeqCst);
        self.word.load(Ordering::SeqCst)
    }
    fn fill_bytes(&mut self, dst: &mut [u8]) {
        let v = self.next_u64();
        for (i, b) in dst.iter_mut().enumerate() {
            *b = (v >> ((i % 8) * 8)) as u8;
        }
    }
}

thread_local! {
    static TLS_WORD: std::cell::Cell<u64> = const { std::cell::Cell::new(0) };
}

/// The same scripted word, but reachable through `Default::default()`: what the library's
/// `DefaultRng<R>` wrapper (the default RNG path, normally `DefaultRng<ThreadRng>`) needs.
#[derive(Default)]
pub struct TlsRng;
impl RngCore for TlsRng {
    fn next_u32(&mut self) -> u32 {
        (TLS_WORD.with(|w| w.get()) >> 32) as u32
    }
    fn next_u64(&mut self) -> u64 {
        TLS_WORD.with(|w| w.get())
    }
    fn fill_bytes(&mut self, dst: &mut [u8]) {
        let v = self.next_u64();
        for (i, b) in dst.iter_mut().enumerate() {
            *b = (v >> ((i % 8) * 8)) as u8;
        }
    }
}

/// what `rng.random::<f32>()` yields for the scripted word (asked from rand itself)
fn f32_of(word: u64) -> f32 {
    use rand::Rng as _;
    let mut r = ScriptRng::new();
    r.word.store(word, Ordering::SeqCst);
    r.random::<f32>()
}
fn f64_of(word: u64) -> f64 {
    use rand::Rng as _;
    let mut r = ScriptRng::new();
    r.word.store(word, Ordering::SeqCst);
    r.random::<f64>()
}

/// word whose f32 draw is the largest representable draw <= x (or the smallest draw if none)
fn word_for_f32_at_most(x: f32) -> u64 {
    // rand: f32 = (u32 >> 8) * 2^-24
    let k = ((x as f64) * (1u64 << 24) as f64).floor();
    let k = if k < 0.0 { 0 } else if k >= (1u64 << 24) as f64 { (1u64 << 24) - 1 } else { k as u64 };
    (k << 8) << 32
}

struct SEntry {
    id: u64,
    group: String,
}
impl Entry for SEntry {
    fn write<'a>(&'a self, w: &mut impl EntryWriter<'a>) {
        w.timestamp(SystemTime::UNIX_EPOCH + Duration::from_secs(1_700_000_000));
        w.value("id", &self.id);
        // metrics of every shape a record can carry (name -> occurrences of each of its observations: SHAPES)
        w.value("rep1", &ObsVal(&[metrique_writer::Observation::Repeated { total: 2.5, occurrences: 1 }]));
        w.value("rep3", &ObsVal(&[metrique_writer::Observation::Repeated { total: 7.5, occurrences: 3 }]));
        w.value("multi", &ObsVal(&[metrique_writer::Observation::Unsigned(4), metrique_writer::Observation::Floating(0.25), metrique_writer::Observation::Repeated { total: 12.0, occurrences: 2 }]));
        w.value("flt", &ObsVal(&[metrique_writer::Observation::Floating(1.5)]));
        // equal observations next to each other (each is an observation of its own, however the record groups them)
        w.value("eq", &ObsVal(&[metrique_writer::Observation::Unsigned(5), metrique_writer::Observation::Unsigned(5), metrique_writer::Observation::Unsigned(5), metrique_writer::Observation::Unsigned(7)]));
    }
    fn sample_group(&self) -> impl Iterator<Item = SampleGroupElement> {
        [(Cow::Borrowed("op"), Cow::Owned(self.group.clone()))].into_iter()
    }
}

/// records (entry id, rate) for every emitted entry, optionally forwarding to a real SampledEmf
#[derive(Clone, Default)]
struct RecFormat {
    log: Arc<Mutex<Vec<(u64, f32)>>>,
    /// fault: every k-th emitted entry fails to be written (I/O error); 0 = never
    fail_every: Arc<AtomicU64>,
    calls: Arc<AtomicU64>,
    failed: Arc<AtomicU64>,
}
impl Format for RecFormat {
    fn format(&mut self, _e: &impl Entry, _o: &mut impl io::Write) -> Result<(), IoStreamError> {
        self.log.lock().unwrap().push((u64::MAX, f32::NAN));
        Ok(())
    }
}
impl SampledFormat for RecFormat {
    fn format_with_sample_rate(&mut self, e: &impl Entry, _o: &mut impl io::Write, rate: f32) -> Result<(), IoStreamError> {
        let mut seen = crate::common::Seen::default();
        e.write(&mut seen);
        self.log.lock().unwrap().push((seen.id.unwrap_or(0), rate));
        let k = self.fail_every.load(Ordering::SeqCst);
        let n = self.calls.fetch_add(1, Ordering::SeqCst);
        if k > 0 && n % k != 0 {
            // (with k = 2 every other entry fails, with k = 50 all but one in fifty)
            self.failed.fetch_add(1, Ordering::SeqCst);
            return Err(IoStreamError::Io(io::Error::new(io::ErrorKind::BrokenPipe, "harness: the output is down")));
        }
        Ok(())
    }
}

/// a value that writes the given observations as one metric
struct ObsVal(&'static [metrique_writer::Observation]);
impl metrique_writer::Value for ObsVal {
    fn write(&self, writer: impl metrique_writer::ValueWriter) {
        writer.metric(self.0.iter().copied(), metrique_writer::Unit::None, [], metrique_writer::MetricFlags::empty());
    }
}

/// occurrences of each observation of the metrics `SEntry` writes
const SHAPES: [(&str, &[u64]); 6] = [("id", &[1]), ("rep1", &[1]), ("rep3", &[3]), ("multi", &[1, 1, 2]), ("flt", &[1]), ("eq", &[1, 1, 1, 1])];

/// The weight applied to every count of the sampled record: count / occurrences, for every observation of every
/// metric (u64::MAX when saturated). A metric written as a plain number carries no count, i.e. the implicit weight 1.
fn counts_in(out: &[u8]) -> Vec<u64> {
    let mut v = vec![];
    for line in out.split(|b| *b == b'\n').filter(|l| !l.is_empty()) {
        if let Ok(j) = serde_json::from_slice::<Value>(line) {
            if let Some(o) = j.as_object() {
                for (name, occ) in SHAPES {
                    let Some(val) = o.get(name) else {
                        v.push(0); // a metric of the entry is missing from the record
                        continue;
                    };
                    if name == "eq" {
                        // judged per distinct value (a record may or may not fold equal values): 5 three times, 7 once
                        let vals = val.get("Values").and_then(|c| c.as_array()).cloned().unwrap_or_default();
                        let cnts = val.get("Counts").and_then(|c| c.as_array()).cloned().unwrap_or_default();
                        let mut per: BTreeMap<u64, (u128, bool)> = BTreeMap::new();
                        for (x, c) in vals.iter().zip(cnts.iter()) {
                            let n = c.as_u64().map(|n| n as u128).unwrap_or_else(|| c.as_f64().unwrap_or(0.0) as u128);
                            let sat = c.as_u64() == Some(u64::MAX) || c.as_f64().map(|f| f >= 1.8e19).unwrap_or(false);
                            let e = per.entry(x.as_f64().unwrap_or(-1.0) as u64).or_insert((0, false));
                            e.0 += n;
                            e.1 |= sat;
                        }
                        if vals.len() != cnts.len() || per.keys().copied().collect::<Vec<_>>() != vec![5, 7] {
                            v.push(0);
                            continue;
                        }
                        for (value, k) in [(5u64, 3u128), (7, 1)] {
                            let (n, sat) = per[&value];
                            if sat {
                                if k == 1 {
                                    v.push(u64::MAX);
                                }
                                continue;
                            }
                            v.push(if n % k == 0 { (n / k).min(u64::MAX as u128) as u64 } else { 0 });
                        }
                        continue;
                    }
                    if let Some(c) = val.get("Counts").and_then(|c| c.as_array()) {
                        if c.len() != occ.len() {
                            v.push(0);
                        }
                        for (x, k) in c.iter().zip(occ.iter()) {
                            // (counts beyond 2^53 are printed as floats; a saturated weight stays saturated)
                            let n = x.as_u64().unwrap_or_else(|| x.as_f64().unwrap_or(0.0) as u64);
                            let saturated = n == u64::MAX || x.as_f64().map(|f| f >= 1.8e19).unwrap_or(false);
                            if saturated && *k > 1 {
                                continue; // occurrences x weight does not fit: the count saturates, whatever the weight was
                            }
                            v.push(if saturated { u64::MAX } else if n % k == 0 { n / k } else { 0 });
                        }
                    } else if val.is_number() {
                        v.push(1);
                    }
                }
            }
        }
    }
    v
}

// ------------------------------------------------------------------------------------------
// fixed fraction + EMF weight
// ------------------------------------------------------------------------------------------

pub struct FixedFraction;

fn emf_weight(rate: f32, word: u64, via_default: bool) -> Result<Vec<u64>, String> {
    let mut out = vec![];
    if via_default {
        // through the library's DefaultRng wrapper (a pass-through to R::default())
        TLS_WORD.with(|w| w.set(word));
        let mut f = Emf::all_validations("Ns".into(), vec![vec![]]).with_sampling_and_rng(metrique_writer::sample::DefaultRng::<TlsRng>::default());
        f.format_with_sample_rate(&SEntry { id: 5, group: "g".into() }, &mut out, rate).map_err(|e| format!("{e}"))?;
    } else {
        let rng = ScriptRng::new();
        rng.word.store(word, Ordering::SeqCst);
        let mut f = Emf::all_validations("Ns".into(), vec![vec![]]).with_sampling_and_rng(rng);
        f.format_with_sample_rate(&SEntry { id: 5, group: "g".into() }, &mut out, rate).map_err(|e| format!("{e}"))?;
    }
    Ok(counts_in(&out))
}

impl Scenario for FixedFraction {
    fn name(&self) -> &'static str {
        "fixed_fraction"
    }
    fn property(&self) -> &'static str {
        "C12"
    }
    fn weight(&self, _t: Tier) -> u32 {
        2
    }
    fn generate(&self, rng: &mut Rng, _tier: Tier) -> Value {
        // rates over the whole f32 range in (0,1]: uniform in bit pattern, plus special families
        let mut rates: Vec<u32> = vec![];
        for _ in 0..6 {
            let bits = match rng.below(8) {
                0 => 1.0f32.to_bits(),
                1 => (1.0f32 / (1 + rng.below(2000)) as f32).to_bits(),
                2 => rng.below(0x0080_0000) as u32 + 1,                        // subnormals
                3 => (2.0f32.powi(-53) * (0.5 + rng.f64() as f32)).to_bits(), // reciprocal straddles 2^53
                4 => (2.0f32.powi(-63) * (0.5 + rng.f64() as f32)).to_bits(), // ... and 2^63
                5 => (rng.f64() as f32).max(f32::MIN_POSITIVE).to_bits(),
                _ => 1 + rng.below(0x3F80_0000 - 1) as u32, // any positive float <= 1.0 by bit pattern
            };
            rates.push(bits);
        }
        // half of the runs: rates that differ, but by less than f32::EPSILON in absolute terms, next to each other
        if rng.chance(0.5) {
            let small = *rng.pick(&[1e-6f32, 5e-8, 3e-5, 1e-7, 1e-30]);
            rates.push(small.to_bits());
            rates.push(match rng.below(3) {
                0 => (small * 1.05).to_bits(),
                1 => (small * 0.5).to_bits(),
                _ => 1e-30f32.to_bits(),
            });
        }
        json!({"sched": {"seed": rng.next_u64() >> 1}, "rates": rates, "draw_words": (0..4).map(|_| rng.next_u64()).collect::<Vec<_>>(), "via_default_rng": rng.chance(0.4)})
    }
    fn run(&self, plan: &Value) -> Report {
        let mut r = Report::default();
        let mut sig = hash_value(plan);
        let mut cases = 0u64;
        let via_default = jb(plan, "via_default_rng", false);
        if via_default {
            r.probe("through_default_rng_wrapper", 1);
        }
        'rates: for rb in ja(plan, "rates") {
            let rate = f32::from_bits(rb.as_u64().unwrap_or(0) as u32);
            if !(rate.is_finite() && rate > 0.0 && rate <= 1.0) {
                continue;
            }
            // draws: below / exactly on / just above the rate, plus random words
            let at = word_for_f32_at_most(rate);
            let mut words: Vec<u64> = vec![0, at, at.wrapping_add(1u64 << 40), at.saturating_sub(1u64 << 40), u64::MAX];
            words.extend(ja(plan, "draw_words").iter().filter_map(|x| x.as_u64()));
            for w in words {
                let draw = f32_of(w);
                let rng = ScriptRng::new();
                rng.word.store(w, Ordering::SeqCst);
                let rec = RecFormat::default();
                let res = if via_default {
                    TLS_WORD.with(|c| c.set(w));
                    let mut s = FixedFractionSample::with_rng(rec.clone(), rate, metrique_writer::sample::DefaultRng::<TlsRng>::default());
                    s.format(&SEntry { id: 9, group: "g".into() }, &mut io::sink())
                } else {
                    let mut s = FixedFractionSample::with_rng(rec.clone(), rate, rng.clone());
                    s.format(&SEntry { id: 9, group: "g".into() }, &mut io::sink())
                };
                cases += 1;
                sig = mix(sig, w ^ rate.to_bits() as u64);
                let log = rec.log.lock().unwrap().clone();
                let emitted = !log.is_empty();
                let should = draw <= rate;
                if res.is_err() {
                    r.violation = Some(Violation::new("sampler_error", format!("rate {rate:e}: format returned an error")));
                    break 'rates;
                }
                if emitted != should {
                    r.violation = Some(Violation::new(
                        "emit_decision_wrong",
                        format!("rate {rate:e} (bits {:#x}), draw {draw:e}: emitted={emitted}, but draw <= rate is {should}", rate.to_bits()),
                    ));
                    break 'rates;
                }
                if emitted {
                    r.probe("emitted", 1);
                    if (draw - rate).abs() <= f32::EPSILON * rate {
                        r.fault("rng_boundary", 1);
                    }
                    if log[0].1.to_bits() != rate.to_bits() {
                        r.violation = Some(Violation::new("rate_not_passed_on", format!("configured rate {rate:e}, the format received {:e}", log[0].1)));
                        break 'rates;
                    }
                } else {
                    r.probe("dropped", 1);
                }
            }
            // EMF weight for this rate
            let inv = 1.0f64 / rate as f64;
            let lo_word = 0u64;
            let hi_word = u64::MAX;
            let n_lo = match emf_weight(rate, lo_word, via_default) {
                Ok(c) => c,
                Err(e) => {
                    r.violation = Some(Violation::new("weight_error", format!("rate {rate:e}: {e}")));
                    break 'rates;
                }
            };
            let n_hi = emf_weight(rate, hi_word, via_default).unwrap_or_default();
            cases += 2;
            for (which, counts) in [("smallest draw", &n_lo), ("largest draw", &n_hi)] {
                if counts.is_empty() {
                    r.violation = Some(Violation::new("no_counts", format!("rate {rate:e}: the sampled record carries no Counts array")));
                    break 'rates;
                }
                let n = counts[0];
                if counts.iter().any(|c| *c != n) {
                    r.violation = Some(Violation::new("weights_differ_within_record", format!("rate {rate:e}: counts {counts:?}")));
                    break 'rates;
                }
                if (rate as f64) < 2f64.powi(-63) {
                    if n != u64::MAX {
                        r.violation = Some(Violation::new("weight_not_saturated", format!("rate {rate:e} < 2^-63 but weight {n} ({which})")));
                        break 'rates;
                    }
                    r.probe("weight_saturated", 1);
                } else if inv < 2f64.powi(53) {
                    let (fl, ce) = (inv.floor() as u64, inv.ceil() as u64);
                    if n != fl && n != ce {
                        r.violation = Some(Violation::new("weight_not_floor_or_ceil", format!("rate {rate:e}: 1/rate = {inv}, weight {n} ({which})")));
                        break 'rates;
                    }
                } else {
                    r.probe("reciprocal_above_2_53", 1);
                    let rel = (n as f64 - inv).abs() / inv;
                    if rel > 1e-6 && (n as f64 - inv).abs() > 1.0 {
                        r.violation = Some(Violation::new("weight_far_from_reciprocal", format!("rate {rate:e}: 1/rate = {inv:e}, weight {n}")));
                        break 'rates;
                    }
                }
            }
            // unbiasedness: bisect the draw at which the weight switches from n to n+1
            if inv < 2f64.powi(40) && n_lo[0] != n_hi[0] {
                let n = n_lo[0].min(n_hi[0]);
                let low_is_n = n_lo[0] == n;
                let (mut a, mut b) = (0u64, u64::MAX);
                for _ in 0..64 {
                    let m = a + (b - a) / 2;
                    let c = emf_weight(rate, m, via_default).unwrap_or_default();
                    cases += 1;
                    if c.first().copied() == Some(n_lo[0]) { a = m } else { b = m }
                    if b - a <= 1 {
                        break;
                    }
                }
                let alpha_draw = f64_of(b);
                // probability of the weight seen for small draws
                let p_low = alpha_draw;
                let expect = if low_is_n { p_low * n as f64 + (1.0 - p_low) * (n + 1) as f64 } else { p_low * (n + 1) as f64 + (1.0 - p_low) * n as f64 };
                if (expect - inv).abs() > 1e-9 * inv.max(1.0) {
                    r.violation = Some(Violation::new(
                        "weight_biased",
                        format!("rate {rate:e}: weights {n}/{} switch at draw {alpha_draw}; expectation {expect} differs from 1/rate = {inv}", n + 1),
                    ));
                    break 'rates;
                }
                r.probe("unbiasedness_bisected", 1);
            } else if inv < 2f64.powi(40) {
                // one weight for every draw: 1/rate must be (numerically) that integer
                if (n_lo[0] as f64 - inv).abs() > 1e-9 * inv {
                    r.violation = Some(Violation::new("weight_biased", format!("rate {rate:e}: every draw gives weight {}, but 1/rate = {inv}", n_lo[0])));
                    break 'rates;
                }
            }
        }
        // one long-lived sampling formatter sees all the rates of the run one after the other (forwards, then
        // backwards): the weight it applies depends on (rate, draw) only, never on the rates it saw before
        if r.violation.is_none() {
            let rng = ScriptRng::new();
            let mut long_lived = Emf::all_validations("Ns".into(), vec![vec![]]).with_sampling_and_rng(rng.clone());
            let seq: Vec<f32> = ja(plan, "rates").iter().map(|rb| f32::from_bits(rb.as_u64().unwrap_or(0) as u32)).filter(|x| x.is_finite() && *x > 0.0 && *x <= 1.0).collect();
            let rev: Vec<f32> = seq.iter().rev().copied().collect();
            for (i, rate) in seq.iter().chain(rev.iter()).enumerate() {
                let word = if i % 2 == 0 { 0 } else { u64::MAX };
                rng.word.store(word, Ordering::SeqCst);
                let mut out = vec![];
                let got = long_lived.format_with_sample_rate(&SEntry { id: 5, group: "g".into() }, &mut out, *rate).map(|_| counts_in(&out)).map_err(|e| format!("{e}"));
                let want = emf_weight(*rate, word, false);
                if got != want {
                    r.violation = Some(Violation::new(
                        "weight_depends_on_earlier_rates",
                        format!("rate {rate:e} (draw word {word:#x}) after {} earlier calls on the same sampling formatter: counts {got:?}, a fresh formatter gives {want:?}", i),
                    ));
                    break;
                }
                r.probe("rate_sequence_on_one_formatter", 1);
            }
        }
        r.nontrivial = true;
        r.case_sig = sig;
        *r.probes.entry("decisions_checked".into()).or_insert(0) += cases;
        r.states = vec![cases / 16];
        r.sample = Some(json!({"rates": ja(plan, "rates").iter().map(|b| format!("{:e}", f32::from_bits(b.as_u64().unwrap_or(0) as u32))).collect::<Vec<_>>()}));
        r
    }
    fn probes(&self) -> Vec<&'static str> {
        vec!["emitted", "dropped", "weight_saturated", "reciprocal_above_2_53", "unbiasedness_bisected", "decisions_checked", "through_default_rng_wrapper", "rate_sequence_on_one_formatter"]
    }
    fn components(&self) -> Value {
        json!({"real": ["FixedFractionSample", "SampledEmf::format_with_sample_rate / rate_to_n / rate_to_n_alpha", "Emf"], "simulated_seams": ["RngCore (scripted: draw placed below / on / above the rate; bisected for the weight threshold)"], "harness": ["recording SampledFormat", "Counts parser"], "stub": []})
    }
    fn rule(&self) -> &'static str {
        "each run: 6-8 rates (the last two, in half of the runs, differing by less than f32::EPSILON in absolute terms) drawn over the whole f32 range in (0,1], all of them also fed one after the other to one long-lived sampling formatter whose weights must equal a fresh formatter's; (uniform in bit pattern, 1.0, 1/k, subnormals, reciprocals straddling 2^53 and 2^63); per rate the sampling draw is scripted to 0, just below, exactly on, just above the rate, the maximum and random words (emit iff draw <= rate, same rate passed on), and the EMF weight is read back from the Counts arrays for the extreme draws and bisected for the switch point (floor/ceil, saturation, expectation = 1/rate). non-trivial = every run; distinct = distinct (rates, draw words)"
    }
}

// ------------------------------------------------------------------------------------------
// congressional sampling
// ------------------------------------------------------------------------------------------

pub struct Congress;

fn congress_main(plan: &Value, out: Arc<Mutex<(Vec<String>, Option<Violation>, BTreeMap<String, u64>)>>) {
    let target = ju(plan, "target", 100) as u32;
    let interval_ns = ju(plan, "interval_ns", 1_000_000_000);
    let rng = ScriptRng::new(); // word 0 => draw 0.0 => every entry is emitted, its rate observed
    let rng_word = rng.word.clone();
    let rec = RecFormat::default();
    rec.fail_every.store(ju(plan, "fail_every", 0), Ordering::SeqCst);
    // entries offered to the sampler since its last roll-over, counted here (whatever became of them downstream)
    let mut offered: u32 = 0;
    let mut c = CongressSampleBuilder::default()
        .interval(Duration::from_nanos(interval_ns))
        .target_entries_per_interval(target.max(1))
        .build_with_rng(rec.clone(), rng);
    let mut probes: BTreeMap<String, u64> = BTreeMap::new();
    let mut hist: Vec<String> = vec![];
    let mut id = 0u64;
    let eps = 2e-3f32;
    // our own bookkeeping of interval totals as the sampler sees them
    let mut prev_total_over_target: Option<bool> = None;
    let mut last_running_total = 0u32;
    // Two checks that do not depend on how the sampler lays out its intervals (lazily restarted, as it does, or
    // on a fixed grid): (a) any span longer than the interval contains a boundary, so an entry that arrives more
    // than one interval after the last observed roll-over must roll over; (b) if no interval-long span of the
    // whole history so far held more than the target, no previous interval did, and every rate is 1.
    // Each call's clock reads lie between the simulator clock before and after the call.
    let mut last_rollover_after: u64 = detsim::clock_ns();
    let mut times: std::collections::VecDeque<(u64, u64)> = Default::default(); // (before, after) of the calls of the last interval
    let mut max_span_count: usize = 0;
    'outer: for step in ja(plan, "intervals") {
        // one "interval" of the plan: a list of (group, count) bursts, then a clock advance
        let word = ju(step, "draw_word", 0);
        rng_word.store(word, Ordering::SeqCst);
        // rand's f32 from the high 24 bits of next_u32(), which is the high half of the word
        let draw = (((word >> 32) as u32) >> 8) as f32 * (1.0 / (1u32 << 24) as f32);
        for burst in ja(step, "bursts") {
            let g = js(burst, "g", "a").to_string();
            for _ in 0..ju(burst, "n", 1) {
                id += 1;
                detsim::advance_clock(ju(step, "per_entry_ns", 0));
                let before_total = c.__verif_groups().1;
                let t_before = detsim::clock_ns();
                let failed_before = rec.failed.load(Ordering::SeqCst);
                let res = c.format(&SEntry { id, group: g.clone() }, &mut io::sink());
                let t_after = detsim::clock_ns();
                let write_failed = rec.failed.load(Ordering::SeqCst) > failed_before;
                if res.is_err() != write_failed {
                    out.lock().unwrap().1 = Some(Violation::new("sampler_error", format!("CongressSample::format returned {:?} although the inner format {}", res.map_err(|e| e.to_string()), if write_failed { "failed" } else { "succeeded" })));
                    break 'outer;
                }
                if write_failed {
                    *probes.entry("emitted_entry_failed_to_write".into()).or_insert(0) += 1;
                }
                let (groups, running) = c.__verif_groups();
                // did the interval roll over inside this call? (running total restarted; an entry whose write failed
                // was seen all the same: it counts, so after it the total is above what it was unless it restarted)
                // (a failed write right after a roll-over that saw one entry leaves 1 -> 1 either way: taken as a roll-over,
                // which only makes the checks more lenient)
                let rolled = if write_failed { running < before_total || (running == 1 && before_total == 1) } else { running <= before_total };
                // what an interval "saw" is what was offered to the sampler, whatever became of it downstream
                if before_total != offered {
                    out.lock().unwrap().1 = Some(Violation::new(
                        "interval_volume_miscounted",
                        format!("{offered} entries were offered to the sampler since its last roll-over, it counts {before_total} (the rates of the next interval are decided from that number)"),
                    ));
                    break 'outer;
                }
                offered = if rolled { 1 } else { offered + 1 };
                if !rolled && before_total >= 1 && t_before > last_rollover_after.saturating_add(interval_ns) {
                    out.lock().unwrap().1 = Some(Violation::new(
                        "interval_never_ends",
                        format!("entry {id} arrived {} ns after the last roll-over (interval {interval_ns} ns) and the running interval just went on ({before_total} -> {running} entries)", t_before - last_rollover_after),
                    ));
                    break 'outer;
                }
                // (a roll-over that closes an empty interval - the sampler's very first call does one - cannot be
                // told from no roll-over by the totals: count it as one, which only makes the check more lenient)
                if rolled || before_total == 0 {
                    last_rollover_after = t_after;
                }
                times.push_back((t_before, t_after));
                while times.front().map(|f| t_before.saturating_sub(f.1) > interval_ns).unwrap_or(false) {
                    times.pop_front();
                }
                max_span_count = max_span_count.max(times.len());
                if max_span_count as u64 <= target as u64 {
                    if let Some((name, _, rate, _)) = groups.iter().find(|g| g.2 != 1.0) {
                        out.lock().unwrap().1 = Some(Violation::new(
                            "sampled_although_no_interval_exceeded_target",
                            format!("no interval-long span of the history so far held more than {max_span_count} entries (target {target}), yet group {name} is sampled at {rate:e}"),
                        ));
                        break 'outer;
                    }
                    *probes.entry("history_never_above_target".into()).or_insert(0) += 1;
                }
                if running <= before_total {
                    prev_total_over_target = Some(before_total > target);
                    *probes.entry("interval_rollovers".into()).or_insert(0) += 1;
                    hist.push(format!("rollover: previous interval total {} (target {target}); groups {:?}", before_total, groups.iter().map(|g| (g.0.clone(), g.1, g.2)).collect::<Vec<_>>()));
                }
                last_running_total = running;
                // the rate handed to the format is the group's current rate
                let passed = rec.log.lock().unwrap().last().cloned();
                let my = groups.iter().find(|x| x.0.contains(&format!("\"{g}\"")));
                if my.is_none() {
                    // every group is accounted for on its own (rarer groups are never sampled lower than more frequent
                    // ones - which presupposes that they are told apart), however many there are
                    out.lock().unwrap().1 = Some(Violation::new("group_not_tracked", format!("an entry of group {g} was just offered, but the sampler tracks no such group among its {} groups", groups.len())));
                    break 'outer;
                }
                if let (Some((pid, prate)), Some(my)) = (passed, my) {
                    if pid == id && prate.to_bits() != my.2.to_bits() {
                        out.lock().unwrap().1 = Some(Violation::new("rate_not_passed_on", format!("group {g}: current rate {:e}, the format received {:e}", my.2, prate)));
                        break 'outer;
                    }
                }
                // emitted exactly when the draw is at most the group's rate (always, when the rate is 1)
                let passed = rec.log.lock().unwrap().last().cloned();
                if let Some(my) = my {
                    let emitted = passed.map(|(pid, _)| pid == id).unwrap_or(false);
                    let expect = my.2 == 1.0 || draw <= my.2;
                    if emitted != expect {
                        out.lock().unwrap().1 = Some(Violation::new(
                            "emit_decision_wrong",
                            format!("entry {id} of group {g}: draw {draw:e}, rate {:e}: emitted = {emitted}, expected {expect}", my.2),
                        ));
                        break 'outer;
                    }
                    if !emitted {
                        *probes.entry("entry_sampled_away".into()).or_insert(0) += 1;
                        if my.2 >= 0.999 {
                            *probes.entry("sampled_away_at_rate_just_below_1".into()).or_insert(0) += 1;
                        }
                    }
                }
                // invariants over all groups, after every call
                let mut weighted = 0.0f64;
                for (name, avg, rate, _) in &groups {
                    if !(*rate > 0.0 && *rate <= 1.0) {
                        out.lock().unwrap().1 = Some(Violation::new("rate_out_of_range", format!("group {name}: sample rate {rate:e} is outside (0,1]")));
                        break 'outer;
                    }
                    weighted += (*avg as f64) * (*rate as f64);
                }
                match prev_total_over_target {
                    Some(false) => {
                        if let Some((name, _, rate, _)) = groups.iter().find(|g| g.2 != 1.0) {
                            out.lock().unwrap().1 = Some(Violation::new(
                                "sampled_below_target",
                                format!("the previous interval saw no more than the target ({target}) but group {name} is sampled at {rate:e}"),
                            ));
                            break 'outer;
                        }
                        *probes.entry("below_target_interval".into()).or_insert(0) += 1;
                    }
                    Some(true) => {
                        *probes.entry("above_target_interval".into()).or_insert(0) += 1;
                        if weighted > target as f64 * (1.0 + eps as f64) + 1e-3 {
                            out.lock().unwrap().1 = Some(Violation::new(
                                "budget_exceeded",
                                format!("sum(average x rate) = {weighted} exceeds the target {target}; groups {:?}", groups.iter().map(|g| (g.0.clone(), g.1, g.2)).collect::<Vec<_>>()),
                            ));
                            break 'outer;
                        }
                        // (sorted by average: the lowest rate among the strictly rarer groups against each group's rate)
                        let mut by_avg: Vec<usize> = (0..groups.len()).collect();
                        by_avg.sort_by(|x, y| groups[*x].1.partial_cmp(&groups[*y].1).unwrap_or(std::cmp::Ordering::Equal));
                        let mut lowest: Option<usize> = None; // among groups with a strictly smaller average
                        let mut i = 0;
                        while i < by_avg.len() {
                            let mut j = i;
                            while j < by_avg.len() && groups[by_avg[j]].1 == groups[by_avg[i]].1 {
                                j += 1;
                            }
                            for k in i..j {
                                let b = &groups[by_avg[k]];
                                if let Some(a) = lowest.map(|l| &groups[l]) {
                                    if a.2 < b.2 * (1.0 - eps) {
                                        out.lock().unwrap().1 = Some(Violation::new(
                                            "rarer_group_sampled_lower",
                                            format!("group {} (average {}) is sampled at {:e}, the more frequent group {} (average {}) at {:e}", a.0, a.1, a.2, b.0, b.1, b.2),
                                        ));
                                        break 'outer;
                                    }
                                }
                            }
                            for k in i..j {
                                if lowest.map(|l| groups[by_avg[k]].2 < groups[l].2).unwrap_or(true) {
                                    lowest = Some(by_avg[k]);
                                }
                            }
                            i = j;
                        }
                    }
                    None => {}
                }
            }
        }
        detsim::advance_clock(ju(step, "then_ns", 0));
        if ju(step, "then_ns", 0) > 3 * interval_ns {
            *probes.entry("intervals_skipped".into()).or_insert(0) += 1;
        }
    }
    let mut o = out.lock().unwrap();
    o.0 = hist;
    o.2 = probes;
}

impl Scenario for Congress {
    fn name(&self) -> &'static str {
        "congress"
    }
    fn property(&self) -> &'static str {
        "C12"
    }
    fn weight(&self, _t: Tier) -> u32 {
        1
    }
    fn generate(&self, rng: &mut Rng, _tier: Tier) -> Value {
        if rng.chance(1.0 / 1000.0) {
            // a rate a hair below 1: one interval of target + 1 entries, then a few entries whose draw is the
            // largest possible one (0.99999994 > rate): none of them may be emitted
            let target = 400_000u64;
            let interval = 1_000_000_000u64;
            let sched = json!({"seed": rng.next_u64() >> 1, "strategy": {"kind":"random","p":0.1}, "now_cost_ns": 0, "max_steps": 3_000_000, "jump_prob": 0.0, "jump_max_ns": 0});
            return json!({"sched": sched, "target": target, "interval_ns": interval, "near_one": true, "intervals": [
                {"bursts": [{"g": "g0", "n": target + 1 + rng.below(3)}], "per_entry_ns": 0, "then_ns": interval + 1, "draw_word": 0},
                {"bursts": [{"g": "g0", "n": 3 + rng.below(5)}], "per_entry_ns": 1, "then_ns": 0, "draw_word": u64::MAX},
            ]});
        }
        let target = *rng.pick(&[1u64, 5, 20, 100]);
        let interval = *rng.pick(&[1_000_000u64, 1_000_000_000, 15_000_000_000]);
        let ngroups = 1 + rng.below(5);
        let mut base: Vec<u64> = (0..ngroups).map(|_| *rng.pick(&[1u64, 2, 10, 40, 150])).collect();
        let n_int = 3 + rng.below(22);
        let mut intervals = vec![];
        for _ in 0..n_int {
            let mut bursts = vec![];
            for (gi, b) in base.iter_mut().enumerate() {
                let n = match rng.below(10) {
                    0 => 0,                  // group silent this interval
                    1 => *b * 20,            // burst
                    2 => 1,
                    _ => *b + rng.below(*b / 4 + 1),
                };
                if rng.chance(0.05) {
                    *b = *rng.pick(&[1u64, 10, 100]);
                }
                if n > 0 {
                    bursts.push(json!({"g": format!("g{gi}"), "n": n.min(600)}));
                }
            }
            if rng.chance(0.1) {
                bursts.push(json!({"g": format!("new{}", rng.below(1000)), "n": 1 + rng.below(5)}));
            }
            rng.shuffle(&mut bursts);
            let then = match rng.below(10) {
                0 => interval * (10 + rng.below(20)), // long silence: groups age out
                1 => 0,
                2 => interval + 1,                    // exactly on / just past the boundary
                _ => interval + rng.below(interval / 2 + 1),
            };
            // the scripted random word of this stretch: 0 (every entry is emitted), the largest draw, or anything
            let draw_word = match rng.below(4) {
                0 => u64::MAX,
                1 => rng.next_u64(),
                _ => 0,
            };
            intervals.push(json!({"bursts": bursts, "per_entry_ns": rng.below(interval / 500 + 1), "then_ns": then, "draw_word": draw_word}));
        }
        let sched = json!({"seed": rng.next_u64() >> 1, "strategy": {"kind":"random","p":0.1}, "now_cost_ns": *rng.pick(&[0u64, 100, 10_000]), "max_steps": 400_000,
                           "jump_prob": if rng.chance(0.3) { 0.0005 } else { 0.0 }, "jump_max_ns": interval * 40});
        // one run in 1 000: thousands of live groups (2 100 - 3 000 one-entry groups per interval next to a hot group and a
        // few rare ones that appear late), far above the target
        let hm = mix(ju(&sched, "seed", 0), 0x6a09);
        let intervals = if hm % 1000 == 0 {
            let many = 2_100 + (hm / 1000) % 900;
            (0..3u64)
                .map(|k| {
                    let mut bursts = vec![json!({"g":"g0","n":400})];
                    for i in 0..many {
                        bursts.push(json!({"g": format!("m{i}"), "n": 1}));
                    }
                    bursts.push(json!({"g":"g0","n":200}));
                    for z in 0..=k {
                        bursts.push(json!({"g": format!("late{z}"), "n": 2}));
                    }
                    json!({"bursts": bursts, "per_entry_ns": 0, "then_ns": interval + 1, "draw_word": 0})
                })
                .collect()
        } else {
            intervals
        };
        // a fifth of the runs: the output behind the sampler is flaky or down (every 2nd / 3rd / all but one in 50
        // of the emitted entries fail to be written); decided from the schedule seed
        let hf = mix(ju(&sched, "seed", 0), 0xf1a);
        let fail_every = if hf % 5 == 0 { [2u64, 3, 50][(hf / 5 % 3) as usize] } else { 0 };
        json!({"sched": sched, "target": target, "interval_ns": interval, "intervals": intervals, "fail_every": fail_every})
    }
    fn run(&self, plan: &Value) -> Report {
        let sched = sched_from_plan(plan);
        let out: Arc<Mutex<(Vec<String>, Option<Violation>, BTreeMap<String, u64>)>> = Arc::new(Mutex::new((vec![], None, BTreeMap::new())));
        let (o2, p2) = (out.clone(), plan.clone());
        let (outcome, _) = detsim::run(sched, move || congress_main(&p2, o2));
        let mut r = Report::default();
        r.nontrivial = ja(plan, "intervals").len() >= 2;
        r.case_sig = hash_value(plan);
        let failure = outcome.failure.clone();
        let mp = outcome.main_panic.clone();
        absorb_outcome(&mut r, outcome);
        let o = out.lock().unwrap();
        r.violation = o.1.clone();
        for (k, v) in &o.2 {
            r.probe(k, *v);
        }
        r.states = vec![mix(o.2.get("interval_rollovers").copied().unwrap_or(0), o.2.get("above_target_interval").copied().unwrap_or(0).min(1))];
        r.sample = Some(json!({"target": plan.get("target"), "interval_ns": plan.get("interval_ns"), "intervals": ja(plan, "intervals").len(), "rollovers": o.0.iter().take(6).collect::<Vec<_>>()}));
        if r.violation.is_none() {
            if let Some(f) = failure {
                match f {
                    detsim::Failure::StepLimit { .. } => r.inconclusive = true,
                    f => r.harness_error = Some(format!("simulation failed: {f:?}")),
                }
            }
            if let Some(p) = mp {
                r.violation = Some(Violation::new("panic", format!("sampler panicked: {p}")));
            }
        }
        r
    }
    fn probes(&self) -> Vec<&'static str> {
        vec!["interval_rollovers", "below_target_interval", "above_target_interval", "intervals_skipped", "history_never_above_target", "entry_sampled_away", "sampled_away_at_rate_just_below_1"]
    }
    fn components(&self) -> Value {
        json!({"real": ["CongressSample / CongressSampleBuilder / GroupState / ExpMovingAverage"], "simulated_seams": ["Instant (simulated clock: per-entry jitter, skipped intervals, injected jumps)", "RngCore (scripted to 0: every entry emitted, its rate observed)", "cfg accessor for per-group (average, rate)"], "harness": ["recording SampledFormat", "interval volume histories"], "stub": []})
    }
    fn rule(&self) -> &'static str {
        "each run: a history of 3-24 intervals of per-group volumes (1-5 groups; silent intervals, x20 bursts, one-entry groups, new groups, volume changes), clock advanced per entry with jitter, interval boundaries hit exactly / skipped for 10-30 intervals, optional injected clock jumps; after every call: rates in (0,1], all 1 when the previous interval was within target, else sum(average x rate) <= target(1+eps) and rarer groups never sampled lower; rate passed on = group's current rate; independent of the interval layout: an entry more than one interval after the last roll-over rolls over, and all rates are 1 while no interval-long span of the history held more than the target. non-trivial = >= 2 intervals; distinct = distinct plans"
    }
}
