//! C18 — stopwatches, timers and timestamps on a simulated time source.
//! Real code: metrique::timers::{Stopwatch, TimerGuard, OwnedTimerGuard, Timer, Timestamp,
//! TimestampOnClose, EpochSeconds/Millis/Micros}, metrique_timesource::{TimeSource, set_time_source}.
//! The time source is the existing seam (`TimeSource::custom`); the shared-duration Mutex/Arc of
//! owned guards is shimmed so that owned guards finished on other threads race through it.

use std::collections::{BTreeMap, BTreeSet};
use std::sync::atomic::{AtomicI64, Ordering};
use std::sync::{Arc, Mutex};
use std::time::{Duration, SystemTime};

use detsim::rng::{mix, Rng};
use metrique::timers::{EpochMicros, EpochMillis, EpochSeconds, OwnedTimerGuard, Stopwatch, Timer, Timestamp, TimestampOnClose, TimestampValue};
use metrique::CloseValue;
use metrique_timesource::{set_time_source, Time, TimeSource};
use metrique_writer::value::ValueFormatter;
use metrique_writer::{MetricFlags, Observation, Unit, ValidationError, ValueWriter};
use serde_json::{json, Value};

use crate::framework::*;

/// Monotonic clock = the simulator's clock; wall clock = harness-controlled (can step backwards,
/// even to before the Unix epoch).
#[derive(Debug, Clone)]
pub struct SimTime {
    /// wall clock in ns relative to the Unix epoch (may be negative)
    pub wall_ns: Arc<AtomicI64>,
}

impl Time for SimTime {
    fn now(&self) -> SystemTime {
        let w = self.wall_ns.load(Ordering::SeqCst);
        if w >= 0 {
            SystemTime::UNIX_EPOCH + Duration::from_nanos(w as u64)
        } else {
            SystemTime::UNIX_EPOCH - Duration::from_nanos((-w) as u64)
        }
    }
    fn instant(&self) -> std::time::Instant {
        detsim::time::Instant::peek().std()
    }
}

#[derive(Clone, Debug)]
pub enum TK {
    GuardStart { obj: u64, clock: u64 },
    GuardEnd { obj: u64, how: String, clock: u64, returned: Option<u64> },
    Clear,
    Check { reported: Option<u64>, in_phase: bool },
    TimerNew { obj: u64, clock: u64 },
    TimerStop { obj: u64, clock: u64, returned: u64 },
    TimerClose { obj: u64, clock: u64, reported: u64 },
    Stamp { kind: String, unit: String, wall_ns: i64, text: String },
    PhaseBegin,
    PhaseEnd,
}

#[derive(Clone, Debug)]
pub struct TEv {
    pub seq: u64,
    pub tid: usize,
    pub k: TK,
}

#[derive(Clone, Default)]
pub struct TLog(Arc<Mutex<Vec<TEv>>>);
impl TLog {
    fn log(&self, k: TK) {
        let seq = detsim::next_seq();
        self.0.lock().unwrap().push(TEv { seq, tid: detsim::current_tid().unwrap_or(0), k });
    }
    fn snapshot(&self) -> Vec<TEv> {
        self.0.lock().unwrap().clone()
    }
}

struct StrCapture<'a>(&'a mut String);
impl ValueWriter for StrCapture<'_> {
    fn string(self, value: &str) {
        self.0.push_str(value);
    }
    fn metric<'a>(self, _d: impl IntoIterator<Item = Observation>, _u: Unit, _dims: impl IntoIterator<Item = (&'a str, &'a str)>, _f: MetricFlags<'_>) {
        self.0.push_str("<metric>");
    }
    fn error(self, _e: ValidationError) {
        self.0.push_str("<error>");
    }
}

fn end_owned(log: &TLog, obj: u64, g: OwnedTimerGuard, how: &str) {
    let clock = detsim::run_clock_ns();
    let returned = match how {
        "stop" => Some(g.stop().as_nanos() as u64),
        "discard" => {
            g.discard();
            None
        }
        "overwrite" => {
            g.overwrite();
            None
        }
        _ => {
            drop(g);
            None
        }
    };
    log.log(TK::GuardEnd { obj, how: how.to_string(), clock, returned });
}

fn time_main(plan: &Value, log: TLog) {
    let wall = Arc::new(AtomicI64::new(1_700_000_000_000_000_000));
    let ts = TimeSource::custom(SimTime { wall_ns: wall.clone() });
    let _tl = set_time_source(ts.clone());
    let mut sw = if jb(plan, "explicit_timesource", false) { Stopwatch::new_from_timesource(ts.clone()) } else { Stopwatch::new() };
    let mut owned: BTreeMap<u64, OwnedTimerGuard> = BTreeMap::new();
    let mut timers: BTreeMap<u64, Timer> = BTreeMap::new();
    let mut next_obj = 1u64;
    for op in ja(plan, "ops") {
        match js(op, "op", "") {
            "adv" => detsim::advance_clock(ju(op, "ns", 0)),
            "borrowed" => {
                let obj = next_obj;
                next_obj += 1;
                let g = sw.start();
                log.log(TK::GuardStart { obj, clock: detsim::run_clock_ns() });
                detsim::advance_clock(ju(op, "ns", 0));
                let clock = detsim::run_clock_ns();
                let how = js(op, "end", "drop");
                let returned = match how {
                    "stop" => Some(g.stop().as_nanos() as u64),
                    "discard" => {
                        g.discard();
                        None
                    }
                    "overwrite" => {
                        g.overwrite();
                        None
                    }
                    _ => {
                        drop(g);
                        None
                    }
                };
                log.log(TK::GuardEnd { obj, how: how.to_string(), clock, returned });
            }
            "owned_start" => {
                let obj = ju(op, "obj", 0);
                let g = sw.start_owned();
                log.log(TK::GuardStart { obj, clock: detsim::run_clock_ns() });
                owned.insert(obj, g);
            }
            "owned_end" => {
                let obj = ju(op, "obj", 0);
                if let Some(g) = owned.remove(&obj) {
                    end_owned(&log, obj, g, js(op, "end", "drop"));
                }
            }
            "phase" => {
                // hand some live owned guards to other threads; they finish them concurrently
                // (additive endings only) while this thread runs a borrowed guard; then join
                log.log(TK::PhaseBegin);
                let mut hs = vec![];
                for th in ja(op, "threads") {
                    let mut mine: Vec<(u64, OwnedTimerGuard, String, u64)> = vec![];
                    for e in th.as_array().map(|a| a.as_slice()).unwrap_or(&[]) {
                        let obj = ju(e, "obj", 0);
                        if let Some(g) = owned.remove(&obj) {
                            mine.push((obj, g, js(e, "end", "drop").to_string(), ju(e, "adv", 0)));
                        }
                    }
                    let l = log.clone();
                    hs.push(detsim::thread::spawn(move || {
                        for (obj, g, how, adv) in mine {
                            detsim::yield_point();
                            detsim::advance_clock(adv);
                            end_owned(&l, obj, g, &how);
                        }
                    }));
                }
                if jb(op, "main_borrowed", false) {
                    let obj = next_obj;
                    next_obj += 1;
                    let g = sw.start();
                    log.log(TK::GuardStart { obj, clock: detsim::run_clock_ns() });
                    detsim::yield_point();
                    detsim::advance_clock(ju(op, "ns", 0));
                    let clock = detsim::run_clock_ns();
                    drop(g);
                    log.log(TK::GuardEnd { obj, how: "drop".into(), clock, returned: None });
                }
                for h in hs {
                    let _ = h.join();
                }
                log.log(TK::PhaseEnd);
            }
            "clear" => {
                sw.clear();
                log.log(TK::Clear);
            }
            "check" => {
                let rep = (&sw).close().map(|d| d.as_nanos() as u64);
                log.log(TK::Check { reported: rep, in_phase: false });
            }
            "timer_new" => {
                let obj = ju(op, "obj", 0);
                let t = if jb(op, "explicit", false) { Timer::start_now_with_timesource(ts.clone()) } else { Timer::start_now() };
                log.log(TK::TimerNew { obj, clock: detsim::run_clock_ns() });
                timers.insert(obj, t);
            }
            "timer_stop" => {
                let obj = ju(op, "obj", 0);
                if let Some(t) = timers.get_mut(&obj) {
                    let clock = detsim::run_clock_ns();
                    let r = t.stop().as_nanos() as u64;
                    log.log(TK::TimerStop { obj, clock, returned: r });
                }
            }
            "timer_close" => {
                let obj = ju(op, "obj", 0);
                if let Some(t) = timers.remove(&obj) {
                    let clock = detsim::run_clock_ns();
                    let r = if jb(op, "by_ref", false) { (&t).close() } else { t.close() };
                    log.log(TK::TimerClose { obj, clock, reported: r.as_nanos() as u64 });
                }
            }
            "wall" => wall.store(ji(op, "ns", 0), Ordering::SeqCst),
            "stamp" => {
                let on_close = jb(op, "on_close", false);
                let unit = js(op, "unit", "ms").to_string();
                let value: TimestampValue;
                let expect_wall;
                if on_close {
                    let t = TimestampOnClose::default();
                    wall.store(ji(op, "then_wall_ns", 0), Ordering::SeqCst);
                    expect_wall = wall.load(Ordering::SeqCst);
                    value = t.close();
                } else {
                    expect_wall = wall.load(Ordering::SeqCst);
                    let t = if jb(op, "explicit", false) { Timestamp::new_from_time_source(ts.clone()) } else { Timestamp::now() };
                    wall.store(ji(op, "then_wall_ns", 0), Ordering::SeqCst);
                    value = t.close();
                }
                let mut text = String::new();
                match unit.as_str() {
                    "s" => <EpochSeconds as ValueFormatter<TimestampValue>>::format_value(StrCapture(&mut text), &value),
                    "us" => <EpochMicros as ValueFormatter<TimestampValue>>::format_value(StrCapture(&mut text), &value),
                    "default" => metrique_writer::Value::write(&value, StrCapture(&mut text)),
                    _ => <EpochMillis as ValueFormatter<TimestampValue>>::format_value(StrCapture(&mut text), &value),
                }
                log.log(TK::Stamp { kind: if on_close { "on_close".into() } else { "at_creation".into() }, unit, wall_ns: expect_wall, text });
            }
            _ => {}
        }
    }
    // finish whatever is still alive (plain drops), then a final check
    let rest: Vec<u64> = owned.keys().copied().collect();
    for obj in rest {
        if let Some(g) = owned.remove(&obj) {
            end_owned(&log, obj, g, "drop");
        }
    }
    let rep = (&sw).close().map(|d| d.as_nanos() as u64);
    log.log(TK::Check { reported: rep, in_phase: false });
}

pub fn check_c18(h: &[TEv]) -> Option<Violation> {
    let mut total: Option<u64> = None;
    let mut starts: BTreeMap<u64, u64> = BTreeMap::new();
    let mut timers: BTreeMap<u64, (u64, Option<u64>)> = BTreeMap::new();
    let mut in_phase = false;
    for e in h {
        match &e.k {
            TK::GuardStart { obj, clock } => {
                starts.insert(*obj, *clock);
            }
            TK::GuardEnd { obj, how, clock, returned } => {
                let span = clock.saturating_sub(starts.get(obj).copied().unwrap_or(*clock));
                match how.as_str() {
                    "discard" => {}
                    "overwrite" => total = Some(span),
                    _ => total = Some(total.unwrap_or(0) + span),
                }
                if let Some(r) = returned {
                    if *r != span {
                        return Some(Violation::new("stop_returned_wrong_span", format!("guard {obj}: stop() returned {r} ns, the guard lived for {span} ns of the injected clock")));
                    }
                }
            }
            TK::Clear => total = None,
            TK::PhaseBegin => in_phase = true,
            TK::PhaseEnd => in_phase = false,
            TK::Check { reported, .. } => {
                if !in_phase && *reported != total {
                    return Some(Violation::new(
                        "stopwatch_total_wrong",
                        format!("the stopwatch reports {reported:?} ns; the completed, non-discarded guard spans since the last clear/overwrite total {total:?} ns"),
                    ));
                }
            }
            TK::TimerNew { obj, clock } => {
                timers.insert(*obj, (*clock, None));
            }
            TK::TimerStop { obj, clock, returned } => {
                if let Some((c0, first)) = timers.get_mut(obj) {
                    let want = first.unwrap_or(clock - *c0);
                    *first = Some(want);
                    if *returned != want {
                        return Some(Violation::new("timer_stop_wrong", format!("timer {obj}: stop() returned {returned} ns, creation to first stop is {want} ns")));
                    }
                }
            }
            TK::TimerClose { obj, clock, reported } => {
                if let Some((c0, first)) = timers.get(obj) {
                    let want = first.unwrap_or(clock - *c0);
                    if *reported != want {
                        return Some(Violation::new("timer_close_wrong", format!("timer {obj}: closed value {reported} ns, expected {want} ns (creation to first stop, or to close)")));
                    }
                }
            }
            TK::Stamp { kind, unit, wall_ns, text } => {
                let w = (*wall_ns).max(0) as u128;
                let ok = match unit.as_str() {
                    "us" => text.parse::<u128>().ok() == Some(w / 1000),
                    "s" => text.parse::<f64>().map(|v| (v - w as f64 / 1e9).abs() <= (w as f64 / 1e9) * 1e-12 + 1e-9).unwrap_or(false),
                    _ => text.parse::<f64>().map(|v| (v - w as f64 / 1e6).abs() <= (w as f64 / 1e6) * 1e-12 + 1e-6).unwrap_or(false),
                };
                if !ok {
                    return Some(Violation::new("timestamp_wrong", format!("timestamp ({kind}, unit {unit}) reported {text:?}; the injected wall clock at that moment was {wall_ns} ns since the epoch")));
                }
            }
        }
    }
    None
}

pub fn gen_c18(rng: &mut Rng, tier: Tier) -> Value {
    let n = 1 + rng.below(if tier == Tier::Thorough { 40 } else { 24 });
    let mut ops: Vec<Value> = vec![];
    let mut live: Vec<u64> = vec![];
    let mut next = 100u64;
    let mut live_timers: Vec<u64> = vec![];
    let adv = |rng: &mut Rng| -> u64 { *rng.pick(&[0u64, 1, 999, 1_000_000, 123_456_789, 3_600_000_000_000]) + rng.below(1000) };
    for _ in 0..n {
        match rng.below(14) {
            0 | 1 | 2 => ops.push(json!({"op":"borrowed","ns":adv(rng),"end": *rng.pick(&["stop", "drop", "drop", "discard", "overwrite"])})),
            3 | 4 => {
                next += 1;
                live.push(next);
                ops.push(json!({"op":"owned_start","obj":next}));
            }
            5 => {
                if !live.is_empty() {
                    let i = rng.usize_below(live.len());
                    let obj = live.remove(i);
                    ops.push(json!({"op":"owned_end","obj":obj,"end": *rng.pick(&["stop", "drop", "discard", "overwrite"])}));
                }
            }
            6 => {
                if live.len() >= 1 {
                    // concurrent phase: up to 3 threads finish owned guards additively
                    let nt = 1 + rng.below(3);
                    let mut threads: Vec<Vec<Value>> = (0..nt).map(|_| vec![]).collect();
                    let take = 1 + rng.usize_below(live.len());
                    for _ in 0..take {
                        let i = rng.usize_below(live.len());
                        let obj = live.remove(i);
                        threads[rng.usize_below(nt as usize)].push(json!({"obj":obj,"end": *rng.pick(&["stop", "drop", "drop", "discard"]),"adv":adv(rng)}));
                    }
                    ops.push(json!({"op":"phase","threads":threads,"main_borrowed":rng.chance(0.5),"ns":adv(rng)}));
                }
            }
            7 => ops.push(json!({"op":"clear"})),
            8 => {
                next += 1;
                live_timers.push(next);
                ops.push(json!({"op":"timer_new","obj":next,"explicit":rng.chance(0.5)}));
            }
            9 => {
                if !live_timers.is_empty() {
                    let obj = *rng.pick(&live_timers);
                    ops.push(json!({"op":"timer_stop","obj":obj}));
                }
            }
            10 => {
                if !live_timers.is_empty() {
                    let i = rng.usize_below(live_timers.len());
                    let obj = live_timers.remove(i);
                    ops.push(json!({"op":"timer_close","obj":obj,"by_ref":rng.chance(0.5)}));
                }
            }
            11 => {
                let w = |rng: &mut Rng| -> i64 {
                    match rng.below(6) {
                        0 => 0,
                        1 => -(rng.below(10_000_000_000) as i64),
                        2 => rng.below(1_000_000) as i64,
                        3 => 4_102_444_800_000_000_000 + rng.below(1_000_000_000) as i64,
                        _ => 1_700_000_000_000_000_000 + rng.below(1_000_000_000_000) as i64,
                    }
                };
                ops.push(json!({"op":"wall","ns":w(rng)}));
                ops.push(json!({"op":"stamp","on_close":rng.chance(0.5),"explicit":rng.chance(0.5),"unit": *rng.pick(&["s", "ms", "us", "default"]),"then_wall_ns":w(rng)}));
            }
            _ => ops.push(json!({"op":"adv","ns":adv(rng)})),
        }
        if rng.chance(0.6) {
            ops.push(json!({"op":"check"}));
        }
    }
    let sched = gen_sched(rng, &SchedOpts { est_choices: 80, threads: 3, jump_max_ns: 0, stall_clock_max_ns: 0, max_steps: 30_000 });
    json!({"sched": sched, "ops": ops, "explicit_timesource": rng.chance(0.5)})
}

pub struct Timers;

impl Scenario for Timers {
    fn name(&self) -> &'static str {
        "timers"
    }
    fn property(&self) -> &'static str {
        "C18"
    }
    fn generate(&self, rng: &mut Rng, tier: Tier) -> Value {
        gen_c18(rng, tier)
    }
    fn run(&self, plan: &Value) -> Report {
        let mut sched = sched_from_plan(plan);
        // the clock moves only when the plan says so
        sched.now_cost_ns = 0;
        sched.jump_prob = 0.0;
        if let Some(s) = sched.stall.as_mut() {
            s.clock_ns = 0;
        }
        let log = TLog::default();
        let (l2, p2) = (log.clone(), plan.clone());
        let (out, _) = detsim::run(sched, move || time_main(&p2, l2));
        let h = log.snapshot();
        let mut r = Report::default();
        r.nontrivial = ja(plan, "ops").len() >= 2;
        r.case_sig = mix(out.sig, hash_value(plan.get("ops").unwrap_or(&Value::Null)));
        let failure = out.failure.clone();
        let mp = out.main_panic.clone();
        absorb_outcome(&mut r, out);
        let mut st = BTreeSet::new();
        let mut prev = 0u64;
        for e in &h {
            let d = detsim::rng::hash_str(&format!("{:?}", std::mem::discriminant(&e.k)));
            st.insert(mix(prev, d));
            prev = d;
            match &e.k {
                TK::GuardEnd { how, .. } => r.probe(&format!("guard_{how}"), 1),
                TK::PhaseBegin => r.probe("concurrent_owned_phase", 1),
                TK::Stamp { wall_ns, .. } => {
                    r.probe("timestamps", 1);
                    if *wall_ns < 0 {
                        r.fault("wall_step", 1);
                        r.probe("wall_clock_before_epoch", 1);
                    }
                }
                _ => {}
            }
        }
        r.states = st.into_iter().collect();
        r.violation = check_c18(&h);
        r.sample = Some(json!({"ops": plan.get("ops"), "history": h.iter().take(50).map(|e| format!("#{} t{} {:?}", e.seq, e.tid, e.k)).collect::<Vec<_>>()}));
        if r.violation.is_none() {
            match failure {
                None => {}
                Some(f @ detsim::Failure::Deadlock { .. }) => r.violation = Some(Violation::new("deadlock", format!("{f:?}"))),
                Some(detsim::Failure::StepLimit { .. }) => r.inconclusive = true,
                Some(f) => r.harness_error = Some(format!("simulation failed: {f:?}")),
            }
            if let Some(p) = mp {
                if r.violation.is_none() {
                    r.violation = Some(Violation::new("panic", format!("timer code panicked: {p}")));
                }
            }
        }
        r
    }
    fn probes(&self) -> Vec<&'static str> {
        vec!["guard_stop", "guard_drop", "guard_discard", "guard_overwrite", "concurrent_owned_phase", "timestamps", "wall_clock_before_epoch"]
    }
    fn components(&self) -> Value {
        json!({"real": ["Stopwatch / TimerGuard / OwnedTimerGuard / MaybeGuardedDuration / SharedDuration", "Timer", "Timestamp / TimestampOnClose / TimestampValue / EpochSeconds / EpochMillis / EpochMicros", "metrique_timesource::{TimeSource::custom, set_time_source, time_source}"], "simulated_seams": ["Time (monotonic = simulator clock, wall = harness-controlled, steps backwards allowed)", "Arc/Mutex of the shared duration"], "harness": ["operation histories, 1-3 threads finishing owned guards"], "stub": []})
    }
    fn rule(&self) -> &'static str {
        "each run: a history of 1-40 operations on one stopwatch (borrowed guards: stop/drop/discard/overwrite; owned guards, several live at once, finished on the owner thread or concurrently on 1-3 other threads; clear; close after most prefixes), timers (stop, stop again, close by value / by reference) and timestamps (at creation / on close, seconds / millis / micros / default formatter, wall clock stepped incl. before the epoch) over clock advances of 0, 1 ns, random and hours. non-trivial = >= 2 operations; distinct = distinct (op list, context-switch signature)"
    }
}
