//! C18 — stopwatches, timers and timestamps on a simulated time source.
//! Real code: metrique::timers::{Stopwatch, TimerGuard, OwnedTimerGuard, Timer, Timestamp,
//! TimestampOnClose, EpochSeconds/Millis/Micros}, metrique_timesource::{TimeSource, set_time_source}.
//! The time source is the existing seam (`TimeSource::custom`); the shared-duration Mutex/Arc of
//! owned guards is shimmed so that owned guards finished on other threads race through it.

use std::collections::{BTreeMap, BTreeSet};
use std::sync::atomic::{AtomicI64, Ordering};
use std::sync::{Arc, Mutex};
use std::time::{Duration, SystemTime};

use detsim::rng::{mix, Rng};
use metrique::timers::{EpochMicros, EpochMillis, EpochSeconds, OwnedTimerGuard, Stopwatch, Timer, Timestamp, TimestampOnClose, TimestampValue};
use metrique::CloseValue;
use metrique_timesource::{set_time_source, Time, TimeSource};
use metrique_writer::value::ValueFormatter;
use metrique_writer::{MetricFlags, Observation, Unit, ValidationError, ValueWriter};
use serde_json::{json, Value};

use crate::framework::*;

/// Monotonic clock = the simulator's clock; wall clock = harness-controlled (can step backwards,
/// even to before the Unix epoch).
#[derive(Debug, Clone)]
pub struct SimTime {
    /// wall clock in ns relative to the Unix epoch (may be negative)
    pub wall_ns: Arc<AtomicI64>,
    /// this source's monotonic clock runs at `rate` x the simulator's clock and its wall clock is
    /// shifted by `wall_off_ns`, so that which source an object resolved is visible in what it reports
    pub rate: u64,
    pub wall_off_ns: i64,
    /// every read of the monotonic clock advances the simulator's clock by this much afterwards
    /// (a clock that never returns the same value twice)
    pub tick_ns: u64,
}

impl SimTime {
    pub fn plain(wall_ns: Arc<AtomicI64>) -> SimTime {
        SimTime { wall_ns, rate: 1, wall_off_ns: 0, tick_ns: 0 }
    }
}

/// (rate, wall offset) of the time sources a run can install
pub const SOURCES: [(u64, i64); 4] = [(1, 0), (2, 1_000_000_000_000), (3, -500_000_000_000), (5, 7_777_000_000_000)];

/// Plan key `far_future_s`: every wall clock of the run is this many seconds further from the epoch (dates beyond
/// the years 2262 / 2554, where nanosecond counts stop fitting into 64 bits: 9999-12-31 is a common sentinel).
pub static FAR_FUTURE_S: std::sync::atomic::AtomicU64 = std::sync::atomic::AtomicU64::new(0);

fn wall_total_ns(w: i64) -> i128 {
    w as i128 + FAR_FUTURE_S.load(Ordering::SeqCst) as i128 * 1_000_000_000
}

impl Time for SimTime {
    fn now(&self) -> SystemTime {
        let w = wall_total_ns(self.wall_ns.load(Ordering::SeqCst) + self.wall_off_ns);
        if w >= 0 {
            SystemTime::UNIX_EPOCH + Duration::new((w / 1_000_000_000) as u64, (w % 1_000_000_000) as u32)
        } else {
            SystemTime::UNIX_EPOCH - Duration::new((-w / 1_000_000_000) as u64, (-w % 1_000_000_000) as u32)
        }
    }
    fn instant(&self) -> std::time::Instant {
        let t = if self.rate == 1 {
            detsim::time::Instant::peek().std()
        } else {
            detsim::time::Instant::from_sim_ns(detsim::time::Instant::peek().sim_ns() * self.rate).std()
        };
        if self.tick_ns > 0 {
            detsim::advance_clock(self.tick_ns);
        }
        t
    }
}

#[derive(Clone, Debug)]
pub enum TK {
    /// `lo` / `hi`: the simulator clock before / after the call (any clock read the call makes lies between)
    GuardStart { obj: u64, lo: u64, hi: u64 },
    GuardEnd { obj: u64, how: String, lo: u64, hi: u64, returned: Option<u64>, rate: u64 },
    Clear,
    Check { reported: Option<u64>, in_phase: bool },
    TimerNew { obj: u64, lo: u64, hi: u64 },
    TimerStop { obj: u64, lo: u64, hi: u64, returned: u64, rate: u64 },
    TimerClose { obj: u64, lo: u64, hi: u64, reported: u64, rate: u64 },
    Stamp { kind: String, unit: String, wall_ns: i64, text: String },
    Note(&'static str),
    /// objects built on an explicit `TimeSource::System` while injected sources are ambient: did they read the real
    /// clocks? (Only these two truth values are recorded, never a reading of a real clock.)
    SystemObjects { stamp_real: bool, timer_real: bool, stopwatch_real: bool },
    PhaseBegin,
    PhaseEnd,
    DoubleInstall { panicked: bool },
}

#[derive(Clone, Debug)]
pub struct TEv {
    pub seq: u64,
    pub tid: usize,
    pub k: TK,
}

#[derive(Clone, Default)]
pub struct TLog(Arc<Mutex<Vec<TEv>>>);
impl TLog {
    fn log(&self, k: TK) {
        let seq = detsim::next_seq();
        self.0.lock().unwrap().push(TEv { seq, tid: detsim::current_tid().unwrap_or(0), k });
    }
    fn snapshot(&self) -> Vec<TEv> {
        self.0.lock().unwrap().clone()
    }
}

struct StrCapture<'a>(&'a mut String);
impl ValueWriter for StrCapture<'_> {
    fn string(self, value: &str) {
        self.0.push_str(value);
    }
    fn metric<'a>(self, _d: impl IntoIterator<Item = Observation>, _u: Unit, _dims: impl IntoIterator<Item = (&'a str, &'a str)>, _f: MetricFlags<'_>) {
        self.0.push_str("<metric>");
    }
    fn error(self, _e: ValidationError) {
        self.0.push_str("<error>");
    }
}

/// Drop `g` as a local of a scope that unwinds (`std::thread::panicking()` is true in its Drop).
fn drop_unwinding<G>(g: G) {
    let _ = std::panic::catch_unwind(std::panic::AssertUnwindSafe(move || {
        let _local = g;
        std::panic::resume_unwind(Box::new("harness: unwinding through the scope that owns the guard"));
    }));
}

fn end_owned(log: &TLog, obj: u64, g: OwnedTimerGuard, how: &str, rate: u64) {
    let lo = detsim::run_clock_ns();
    let returned = match how {
        "stop" => Some(g.stop().as_nanos() as u64),
        "discard" => {
            g.discard();
            None
        }
        "overwrite" => {
            g.overwrite();
            None
        }
        "unwind" => {
            drop_unwinding(g);
            None
        }
        _ => {
            drop(g);
            None
        }
    };
    log.log(TK::GuardEnd { obj, how: how.to_string(), lo, hi: detsim::run_clock_ns(), returned, rate });
}

/// Everything one run's operation interpreter needs; `exec` is recursive for scoped time sources.
struct Ctx {
    log: TLog,
    wall: Arc<AtomicI64>,
    sources: Vec<TimeSource>,
    /// plan key `fresh_sources`: every install / explicit use gets a `TimeSource` of its own, moved in - the library's
    /// objects (guards, stopwatches, timers, timestamps) hold the only handles on it
    fresh: bool,
    tick: u64,
    /// model of the thread-local override stack (indices into `sources`)
    tl_stack: Vec<usize>,
    tl_guards: Vec<metrique_timesource::ThreadLocalTimeSourceGuard>,
    rt: Option<tokio::runtime::Runtime>,
    in_rt: bool,
    rt_src: Option<usize>,
    rt_guard: Option<metrique_timesource::tokio::RuntimeTimeSourceGuard>,
    sw: Option<Stopwatch>,
    sw_rate: u64,
    explicit_sw: Option<usize>,
    owned: BTreeMap<u64, OwnedTimerGuard>,
    timers: BTreeMap<u64, (Timer, u64)>,
    next_obj: u64,
}

impl Ctx {
    fn source(&self, i: usize) -> TimeSource {
        if self.fresh {
            let (rate, off) = SOURCES[i];
            TimeSource::custom(SimTime { wall_ns: self.wall.clone(), rate, wall_off_ns: off, tick_ns: self.tick })
        } else {
            self.sources[i].clone()
        }
    }

    /// the source the resolution order (thread-local, then runtime) selects right now
    fn current(&self) -> Option<usize> {
        self.tl_stack.last().copied().or(if self.in_rt { self.rt_src } else { None })
    }

    fn sw(&mut self) -> &mut Stopwatch {
        if self.sw.is_none() {
            let (sw, src) = match self.explicit_sw {
                Some(i) => (Stopwatch::new_from_timesource(self.source(i)), i),
                None => (Stopwatch::new(), self.current().unwrap_or(0)),
            };
            self.sw_rate = SOURCES[src].0;
            self.sw = Some(sw);
        }
        self.sw.as_mut().unwrap()
    }

    fn end_owned(&self, obj: u64, g: OwnedTimerGuard, how: &str) {
        end_owned(&self.log, obj, g, how, self.sw_rate);
    }

    fn exec(&mut self, ops: &[Value]) {
        for op in ops {
            self.exec_one(op);
        }
    }

    fn exec_one(&mut self, op: &Value) {
        let log = self.log.clone();
        match js(op, "op", "") {
            "adv" => detsim::advance_clock(ju(op, "ns", 0)),
            "ts_push" => {
                let i = ju(op, "src", 0) as usize % self.sources.len();
                self.tl_guards.push(set_time_source(self.source(i)));
                self.tl_stack.push(i);
            }
            "ts_pop" => {
                if self.tl_guards.pop().is_some() {
                    self.tl_stack.pop();
                }
            }
            "scope" => {
                let i = ju(op, "src", 0) as usize % self.sources.len();
                let inner: Vec<Value> = ja(op, "ops").to_vec();
                self.tl_stack.push(i);
                let ts = self.source(i);
                if jb(op, "panics", false) {
                    // the closure panics at its end (caught here): the override must be gone afterwards
                    let _ = std::panic::catch_unwind(std::panic::AssertUnwindSafe(|| {
                        metrique_timesource::with_time_source(ts, || {
                            self.exec(&inner);
                            std::panic::resume_unwind(Box::new("harness: the closure given to with_time_source panics"));
                        })
                    }));
                } else {
                    metrique_timesource::with_time_source(ts, || self.exec(&inner));
                }
                self.tl_stack.pop();
            }
            "rt_enter" => {
                if self.rt.is_none() {
                    self.rt = Some(tokio::runtime::Builder::new_current_thread().build().expect("runtime"));
                }
                self.in_rt = true;
            }
            "rt_exit" => self.in_rt = false,
            "rt_set" => {
                if let (Some(rt), None) = (&self.rt, &self.rt_guard) {
                    let i = ju(op, "src", 3) as usize % self.sources.len();
                    self.rt_guard = Some(metrique_timesource::tokio::set_time_source_for_runtime(rt.handle(), self.source(i)));
                    self.rt_src = Some(i);
                }
            }
            "rt_unset" => {
                self.rt_guard = None;
                self.rt_src = None;
            }
            "rt_set_again" => {
                // a second install on a runtime that already has a source is documented to panic;
                // the source that is installed must stay in effect
                if let (Some(rt), Some(_)) = (&self.rt, &self.rt_guard) {
                    let i = ju(op, "src", 0) as usize % self.sources.len();
                    let handle = rt.handle().clone();
                    let src = self.source(i);
                    let r = std::panic::catch_unwind(std::panic::AssertUnwindSafe(move || metrique_timesource::tokio::set_time_source_for_runtime(&handle, src)));
                    self.log.log(TK::DoubleInstall { panicked: r.is_err() });
                }
            }
            _ => {
                // everything else runs inside the runtime context if one is entered
                let rt_handle = if self.in_rt { self.rt.as_ref().map(|r| r.handle().clone()) } else { None };
                let _enter = rt_handle.as_ref().map(|h| h.enter());
                self.exec_timed(op, &log);
            }
        }
    }

    fn exec_timed(&mut self, op: &Value, log: &TLog) {
        match js(op, "op", "") {
            "resolve_unset" => {
                // The ambient source is looked up while none is installed anywhere (it resolves to the system clock;
                // what it reads is thrown away): a source installed *later* - for the runtime, for the thread - must
                // still be the one every later object resolves.
                let ts = metrique_timesource::time_source();
                let _ = ts.instant();
                drop(Timer::start_now());
                log.log(TK::Note("ambient_source_resolved_before_any_was_installed"));
            }
            "sw_create" => {
                let _ = self.sw();
            }
            "borrowed" => {
                let obj = self.next_obj;
                self.next_obj += 1;
                let rate = self.sw_rate;
                let lo0 = detsim::run_clock_ns();
                let g = self.sw().start();
                log.log(TK::GuardStart { obj, lo: lo0, hi: detsim::run_clock_ns() });
                detsim::advance_clock(ju(op, "ns", 0));
                let lo = detsim::run_clock_ns();
                let how = js(op, "end", "drop");
                let returned = match how {
                    "stop" => Some(g.stop().as_nanos() as u64),
                    "discard" => {
                        g.discard();
                        None
                    }
                    "overwrite" => {
                        g.overwrite();
                        None
                    }
                    "unwind" => {
                        drop_unwinding(g);
                        None
                    }
                    _ => {
                        drop(g);
                        None
                    }
                };
                log.log(TK::GuardEnd { obj, how: how.to_string(), lo, hi: detsim::run_clock_ns(), returned, rate });
            }
            "owned_start" => {
                let obj = ju(op, "obj", 0);
                let lo = detsim::run_clock_ns();
                let g = self.sw().start_owned();
                log.log(TK::GuardStart { obj, lo, hi: detsim::run_clock_ns() });
                self.owned.insert(obj, g);
            }
            "owned_end" => {
                let obj = ju(op, "obj", 0);
                if let Some(g) = self.owned.remove(&obj) {
                    self.end_owned(obj, g, js(op, "end", "drop"));
                }
            }
            "phase" => {
                // hand some live owned guards to other threads; they finish them concurrently
                // (additive endings only) while this thread runs a borrowed guard; then join
                log.log(TK::PhaseBegin);
                let mut hs = vec![];
                let rate = self.sw_rate;
                for th in ja(op, "threads") {
                    let mut mine: Vec<(u64, OwnedTimerGuard, String, u64)> = vec![];
                    for e in th.as_array().map(|a| a.as_slice()).unwrap_or(&[]) {
                        let obj = ju(e, "obj", 0);
                        if let Some(g) = self.owned.remove(&obj) {
                            mine.push((obj, g, js(e, "end", "drop").to_string(), ju(e, "adv", 0)));
                        }
                    }
                    let l = log.clone();
                    hs.push(detsim::thread::spawn(move || {
                        for (obj, g, how, adv) in mine {
                            detsim::yield_point();
                            detsim::advance_clock(adv);
                            end_owned(&l, obj, g, &how, rate);
                        }
                    }));
                }
                if jb(op, "main_borrowed", false) {
                    let obj = self.next_obj;
                    self.next_obj += 1;
                    let lo0 = detsim::run_clock_ns();
                    let g = self.sw().start();
                    log.log(TK::GuardStart { obj, lo: lo0, hi: detsim::run_clock_ns() });
                    detsim::yield_point();
                    detsim::advance_clock(ju(op, "ns", 0));
                    let lo = detsim::run_clock_ns();
                    drop(g);
                    log.log(TK::GuardEnd { obj, how: "drop".into(), lo, hi: detsim::run_clock_ns(), returned: None, rate });
                }
                for h in hs {
                    let _ = h.join();
                }
                log.log(TK::PhaseEnd);
            }
            "clear" => {
                self.sw().clear();
                log.log(TK::Clear);
            }
            "check" => {
                let rep = (&*self.sw()).close().map(|d| d.as_nanos() as u64);
                log.log(TK::Check { reported: rep, in_phase: false });
            }
            "timer_new" => {
                let obj = ju(op, "obj", 0);
                let lo = detsim::run_clock_ns();
                let (t, src) = match op.get("explicit_src").and_then(|x| x.as_u64()) {
                    Some(i) => {
                        let i = i as usize % self.sources.len();
                        (Timer::start_now_with_timesource(self.source(i)), i)
                    }
                    None => (Timer::start_now(), self.current().unwrap_or(0)),
                };
                log.log(TK::TimerNew { obj, lo, hi: detsim::run_clock_ns() });
                self.timers.insert(obj, (t, SOURCES[src].0));
            }
            "timer_stop" => {
                let obj = ju(op, "obj", 0);
                if let Some((t, rate)) = self.timers.get_mut(&obj) {
                    let lo = detsim::run_clock_ns();
                    let r = t.stop().as_nanos() as u64;
                    log.log(TK::TimerStop { obj, lo, hi: detsim::run_clock_ns(), returned: r, rate: *rate });
                }
            }
            "timer_peek" => {
                // closing by reference reads the timer without ending it: a running timer keeps running
                let obj = ju(op, "obj", 0);
                if let Some((t, rate)) = self.timers.get(&obj) {
                    let lo = detsim::run_clock_ns();
                    let r = (&*t).close();
                    log.log(TK::TimerClose { obj, lo, hi: detsim::run_clock_ns(), reported: r.as_nanos() as u64, rate: *rate });
                }
            }
            "timer_close" => {
                let obj = ju(op, "obj", 0);
                if let Some((t, rate)) = self.timers.remove(&obj) {
                    let lo = detsim::run_clock_ns();
                    let r = if jb(op, "by_ref", false) { (&t).close() } else { t.close() };
                    log.log(TK::TimerClose { obj, lo, hi: detsim::run_clock_ns(), reported: r.as_nanos() as u64, rate });
                }
            }
            "system_objects" => {
                // Explicitly provided sources come first in the resolution order, `TimeSource::System` included.
                // The real wall clock lies between mid 2025 and 2096 (no injected wall clock of this scenario does);
                // a real timer sees (much) less than ten minutes go by while the injected clocks advance by hours.
                let stamp = Timestamp::new_from_time_source(TimeSource::System);
                let mut timer = Timer::start_now_with_timesource(TimeSource::System);
                let mut sw = Stopwatch::new_from_timesource(TimeSource::System);
                let g = sw.start();
                detsim::advance_clock(ju(op, "ns", 7_200_000_000_000).max(3_600_000_000_000));
                drop(g);
                let elapsed = timer.stop();
                let sw_total = sw.close().unwrap_or_default();
                let at = stamp.close().duration_since_epoch().as_nanos();
                log.log(TK::SystemObjects {
                    stamp_real: (1_750_000_000_000_000_000..4_000_000_000_000_000_000).contains(&at),
                    timer_real: elapsed < Duration::from_secs(600),
                    stopwatch_real: sw_total < Duration::from_secs(600),
                });
            }
            "wall" => self.wall.store(ji(op, "ns", 0), Ordering::SeqCst),
            "stamp" => {
                let on_close = jb(op, "on_close", false);
                let unit = js(op, "unit", "ms").to_string();
                let value: TimestampValue;
                let expect_wall;
                // the source is resolved when the timestamp object is created
                let explicit = op.get("explicit_src").and_then(|x| x.as_u64()).map(|i| i as usize % self.sources.len());
                let src = if on_close { self.current().unwrap_or(0) } else { explicit.or(self.current()).unwrap_or(0) };
                let off = SOURCES[src].1;
                if on_close {
                    let t = TimestampOnClose::default();
                    self.wall.store(ji(op, "then_wall_ns", 0), Ordering::SeqCst);
                    // between creation and close the ambient source may change; it must not matter
                    let inner: Vec<Value> = ja(op, "between").to_vec();
                    self.exec(&inner);
                    expect_wall = self.wall.load(Ordering::SeqCst) + off;
                    value = t.close();
                } else {
                    expect_wall = self.wall.load(Ordering::SeqCst) + off;
                    let t = match explicit {
                        Some(i) => Timestamp::new_from_time_source(self.source(i)),
                        None => Timestamp::now(),
                    };
                    self.wall.store(ji(op, "then_wall_ns", 0), Ordering::SeqCst);
                    let inner: Vec<Value> = ja(op, "between").to_vec();
                    self.exec(&inner);
                    value = t.close();
                }
                let mut text = String::new();
                match unit.as_str() {
                    "s" => <EpochSeconds as ValueFormatter<TimestampValue>>::format_value(StrCapture(&mut text), &value),
                    "us" => <EpochMicros as ValueFormatter<TimestampValue>>::format_value(StrCapture(&mut text), &value),
                    "default" => metrique_writer::Value::write(&value, StrCapture(&mut text)),
                    _ => <EpochMillis as ValueFormatter<TimestampValue>>::format_value(StrCapture(&mut text), &value),
                }
                log.log(TK::Stamp { kind: if on_close { "on_close".into() } else { "at_creation".into() }, unit, wall_ns: expect_wall, text });
            }
            _ => {}
        }
    }
}

fn time_main(plan: &Value, log: TLog) {
    FAR_FUTURE_S.store(ju(plan, "far_future_s", 0), Ordering::SeqCst);
    let wall = Arc::new(AtomicI64::new(1_700_000_000_000_000_000));
    let tick = ju(plan, "tick_ns", 0);
    let sources: Vec<TimeSource> = SOURCES.iter().map(|(rate, off)| TimeSource::custom(SimTime { wall_ns: wall.clone(), rate: *rate, wall_off_ns: *off, tick_ns: tick })).collect();
    let mut ctx = Ctx {
        log: log.clone(),
        wall,
        sources,
        fresh: jb(plan, "fresh_sources", false),
        tick,
        tl_stack: vec![],
        tl_guards: vec![],
        rt: None,
        in_rt: false,
        rt_src: None,
        rt_guard: None,
        sw: None,
        sw_rate: 1,
        explicit_sw: if jb(plan, "explicit_timesource", false) { Some(ju(plan, "explicit_src", 0) as usize % SOURCES.len()) } else { None },
        owned: BTreeMap::new(),
        timers: BTreeMap::new(),
        next_obj: 1,
    };
    // plans from before the time-source operations existed install source 0 first
    match plan.get("pre") {
        Some(pre) => ctx.exec(pre.as_array().map(|a| a.as_slice()).unwrap_or(&[])),
        None => ctx.exec(&[json!({"op":"ts_push","src":0})]),
    }
    if ctx.current().is_none() {
        // (only shrunk plans get here) never fall through to the real system clock
        ctx.exec(&[json!({"op":"ts_push","src":0})]);
    }
    ctx.exec(&[json!({"op":"sw_create"})]);
    ctx.exec(ja(plan, "ops"));
    // finish whatever is still alive (plain drops), then a final check
    let rest: Vec<u64> = ctx.owned.keys().copied().collect();
    for obj in rest {
        if let Some(g) = ctx.owned.remove(&obj) {
            ctx.end_owned(obj, g, "drop");
        }
    }
    ctx.exec(&[json!({"op":"check"})]);
    // release in a defined order: thread-local guards newest first, runtime guard, runtime
    while ctx.tl_guards.pop().is_some() {}
    ctx.rt_guard = None;
    ctx.rt = None;
}

pub fn check_c18(h: &[TEv]) -> Option<Violation> {
    // Every quantity is a window [lo, hi]: a call may read the clock anywhere between the
    // simulator clock before it and after it. With a clock that does not tick on reads (most
    // runs) lo == hi and the check is exact to the nanosecond.
    let mut total: Option<(u64, u64)> = None;
    let mut starts: BTreeMap<u64, (u64, u64)> = BTreeMap::new();
    // timer -> ((creation lo, hi), first stop value)
    let mut timers: BTreeMap<u64, ((u64, u64), Option<u64>)> = BTreeMap::new();
    let mut in_phase = false;
    for e in h {
        match &e.k {
            TK::GuardStart { obj, lo, hi } => {
                starts.insert(*obj, (*lo, *hi));
            }
            TK::GuardEnd { obj, how, lo, hi, returned, rate } => {
                let (slo, shi) = starts.get(obj).copied().unwrap_or((*lo, *hi));
                let mut span = (lo.saturating_sub(shi) * rate, hi.saturating_sub(slo) * rate);
                if let Some(r) = returned {
                    if *r < span.0 || *r > span.1 {
                        return Some(Violation::new("stop_returned_wrong_span", format!("guard {obj}: stop() returned {r} ns, the guard lived for {}..={} ns of the injected clock", span.0, span.1)));
                    }
                    // what stop() returned is what the stopwatch must have recorded
                    span = (*r, *r);
                }
                match how.as_str() {
                    "discard" => {}
                    "overwrite" => total = Some(span),
                    _ => {
                        let t = total.unwrap_or((0, 0));
                        total = Some((t.0 + span.0, t.1 + span.1));
                    }
                }
            }
            TK::Clear => total = None,
            TK::PhaseBegin => in_phase = true,
            TK::PhaseEnd => in_phase = false,
            TK::Check { reported, .. } => {
                let ok = match (reported, total) {
                    (None, None) => true,
                    (Some(r), Some((lo, hi))) => lo <= *r && *r <= hi,
                    _ => false,
                };
                if !in_phase && !ok {
                    return Some(Violation::new(
                        "stopwatch_total_wrong",
                        format!("the stopwatch reports {reported:?} ns; the completed, non-discarded guard spans since the last clear/overwrite total {}", match total { None => "nothing (None)".to_string(), Some((lo, hi)) if lo == hi => format!("Some({lo}) ns"), Some((lo, hi)) => format!("{lo}..={hi} ns") }),
                    ));
                }
            }
            TK::DoubleInstall { panicked } => {
                if !*panicked {
                    return Some(Violation::new("double_install_accepted", "installing a second time source on a runtime that already has one did not panic"));
                }
            }
            TK::TimerNew { obj, lo, hi } => {
                timers.insert(*obj, ((*lo, *hi), None));
            }
            TK::TimerStop { obj, lo, hi, returned, rate } => {
                if let Some(((clo, chi), first)) = timers.get_mut(obj) {
                    match first {
                        Some(f) => {
                            if *returned != *f {
                                return Some(Violation::new("timer_stop_wrong", format!("timer {obj}: a repeated stop() returned {returned} ns, the first stop returned {f} ns")));
                            }
                        }
                        None => {
                            let (wlo, whi) = (lo.saturating_sub(*chi) * rate, hi.saturating_sub(*clo) * rate);
                            if *returned < wlo || *returned > whi {
                                return Some(Violation::new("timer_stop_wrong", format!("timer {obj}: stop() returned {returned} ns, creation to first stop is {wlo}..={whi} ns")));
                            }
                            *first = Some(*returned);
                        }
                    }
                }
            }
            TK::TimerClose { obj, lo, hi, reported, rate } => {
                if let Some(((clo, chi), first)) = timers.get(obj) {
                    let (wlo, whi) = match first {
                        Some(f) => (*f, *f),
                        None => (lo.saturating_sub(*chi) * rate, hi.saturating_sub(*clo) * rate),
                    };
                    if *reported < wlo || *reported > whi {
                        return Some(Violation::new("timer_close_wrong", format!("timer {obj}: closed value {reported} ns, expected {wlo}..={whi} ns (creation to first stop, or to close)")));
                    }
                }
            }
            TK::SystemObjects { stamp_real, timer_real, stopwatch_real } => {
                if !(*stamp_real && *timer_real && *stopwatch_real) {
                    return Some(Violation::new(
                        "explicit_system_source_ignored",
                        format!("objects built on an explicit TimeSource::System while injected sources were ambient did not use the system clocks (timestamp real: {stamp_real}, timer real: {timer_real}, stopwatch real: {stopwatch_real})"),
                    ));
                }
            }
            TK::Note(_) => {}
            TK::Stamp { kind, unit, wall_ns, text } => {
                let w = wall_total_ns(*wall_ns).max(0) as u128;
                let ok = match unit.as_str() {
                    "us" => text.parse::<u128>().ok() == Some(w / 1000),
                    "s" => text.parse::<f64>().map(|v| (v - w as f64 / 1e9).abs() <= (w as f64 / 1e9) * 1e-12 + 1e-9).unwrap_or(false),
                    _ => text.parse::<f64>().map(|v| (v - w as f64 / 1e6).abs() <= (w as f64 / 1e6) * 1e-12 + 1e-6).unwrap_or(false),
                };
                if !ok {
                    return Some(Violation::new("timestamp_wrong", format!("timestamp ({kind}, unit {unit}) reported {text:?}; the injected wall clock at that moment was {wall_ns} ns since the epoch")));
                }
            }
        }
    }
    None
}

/// Generator-side model of the time-source resolution state (so that a defined, injected source
/// is always in effect when an operation reads the ambient source).
#[derive(Clone, Default)]
struct TsModel {
    tl: Vec<u64>,
    in_rt: bool,
    rt_src: Option<u64>,
}

impl TsModel {
    fn defined_without_top(&self) -> bool {
        self.tl.len() > 1 || (self.in_rt && self.rt_src.is_some())
    }
}

struct Gen18 {
    live: Vec<u64>,
    live_timers: Vec<u64>,
    next: u64,
    ts: TsModel,
}

fn adv18(rng: &mut Rng) -> u64 {
    *rng.pick(&[0u64, 1, 999, 1_000_000, 123_456_789, 3_600_000_000_000]) + rng.below(1000)
}

fn wall18(rng: &mut Rng) -> i64 {
    match rng.below(6) {
        0 => 0,
        1 => -(rng.below(10_000_000_000) as i64),
        2 => rng.below(1_000_000) as i64,
        3 => 4_102_444_800_000_000_000 + rng.below(1_000_000_000) as i64,
        _ => 1_700_000_000_000_000_000 + rng.below(1_000_000_000_000) as i64,
    }
}

impl Gen18 {
    /// a balanced change of the ambient time source (no net effect)
    fn between(&mut self, rng: &mut Rng) -> Vec<Value> {
        match rng.below(4) {
            0 => vec![json!({"op":"ts_push","src":rng.below(4)}), json!({"op":"adv","ns":adv18(rng)}), json!({"op":"ts_pop"})],
            1 => vec![json!({"op":"scope","src":rng.below(4),"ops":[json!({"op":"adv","ns":adv18(rng)})]})],
            _ => vec![],
        }
    }

    /// operations that read the ambient time source or the stopwatch
    fn timed(&mut self, rng: &mut Rng, ops: &mut Vec<Value>, allow_phase: bool) {
        match rng.below(12) {
            0 | 1 | 2 => ops.push(json!({"op":"borrowed","ns":adv18(rng),"end": *rng.pick(&["stop", "stop", "drop", "drop", "discard", "overwrite", "unwind"])})),
            3 | 4 => {
                self.next += 1;
                self.live.push(self.next);
                ops.push(json!({"op":"owned_start","obj":self.next}));
            }
            5 => {
                if !self.live.is_empty() {
                    let i = rng.usize_below(self.live.len());
                    let obj = self.live.remove(i);
                    ops.push(json!({"op":"owned_end","obj":obj,"end": *rng.pick(&["stop", "drop", "discard", "overwrite", "unwind"])}));
                }
            }
            6 => {
                if allow_phase && !self.live.is_empty() {
                    // concurrent phase: up to 3 threads finish owned guards additively
                    let nt = 1 + rng.below(3);
                    let mut threads: Vec<Vec<Value>> = (0..nt).map(|_| vec![]).collect();
                    let take = 1 + rng.usize_below(self.live.len());
                    for _ in 0..take {
                        let i = rng.usize_below(self.live.len());
                        let obj = self.live.remove(i);
                        threads[rng.usize_below(nt as usize)].push(json!({"obj":obj,"end": *rng.pick(&["stop", "drop", "drop", "discard", "unwind"]),"adv":adv18(rng)}));
                    }
                    ops.push(json!({"op":"phase","threads":threads,"main_borrowed":rng.chance(0.5),"ns":adv18(rng)}));
                }
            }
            7 => ops.push(json!({"op":"clear"})),
            8 => {
                self.next += 1;
                self.live_timers.push(self.next);
                let mut o = json!({"op":"timer_new","obj":self.next});
                if rng.chance(0.3) {
                    o["explicit_src"] = json!(rng.below(4));
                }
                ops.push(o);
            }
            9 => {
                if !self.live_timers.is_empty() {
                    let obj = *rng.pick(&self.live_timers);
                    ops.push(json!({"op": if rng.chance(0.3) { "timer_peek" } else { "timer_stop" },"obj":obj}));
                }
            }
            10 => {
                if !self.live_timers.is_empty() {
                    let i = rng.usize_below(self.live_timers.len());
                    let obj = self.live_timers.remove(i);
                    ops.push(json!({"op":"timer_close","obj":obj,"by_ref":rng.chance(0.5)}));
                }
            }
            _ => {
                if rng.chance(0.15) {
                    ops.push(json!({"op":"system_objects","ns": 3_600_000_000_000u64 * (1 + rng.below(5))}));
                }
                ops.push(json!({"op":"wall","ns":wall18(rng)}));
                let on_close = rng.chance(0.5);
                let mut o = json!({"op":"stamp","on_close":on_close,"unit": *rng.pick(&["s", "ms", "us", "default"]),"then_wall_ns":wall18(rng),"between":self.between(rng)});
                if !on_close && rng.chance(0.3) {
                    o["explicit_src"] = json!(rng.below(4));
                }
                ops.push(o);
            }
        }
    }

    /// operations that change which time source is ambient
    fn ts_op(&mut self, rng: &mut Rng, ops: &mut Vec<Value>) {
        match rng.below(8) {
            0 | 1 => {
                let src = rng.below(4);
                self.ts.tl.push(src);
                ops.push(json!({"op":"ts_push","src":src}));
            }
            2 => {
                if !self.ts.tl.is_empty() && self.ts.defined_without_top() {
                    self.ts.tl.pop();
                    ops.push(json!({"op":"ts_pop"}));
                }
            }
            3 => {
                // a scoped override with a few operations inside
                let src = rng.below(4);
                self.ts.tl.push(src);
                let mut inner = vec![];
                for _ in 0..1 + rng.below(3) {
                    if rng.chance(0.3) {
                        inner.push(json!({"op":"adv","ns":adv18(rng)}));
                    }
                    self.timed(rng, &mut inner, false);
                }
                self.ts.tl.pop();
                ops.push(json!({"op":"scope","src":src,"ops":inner,"panics":rng.chance(0.3)}));
            }
            4 => {
                if !self.ts.in_rt {
                    self.ts.in_rt = true;
                    ops.push(json!({"op":"rt_enter"}));
                } else if !self.ts.tl.is_empty() {
                    self.ts.in_rt = false;
                    ops.push(json!({"op":"rt_exit"}));
                }
            }
            5 => {
                if self.ts.in_rt && self.ts.rt_src.is_none() {
                    let src = rng.below(4);
                    self.ts.rt_src = Some(src);
                    ops.push(json!({"op":"rt_set","src":src}));
                }
            }
            6 => {
                if self.ts.rt_src.is_some() {
                    ops.push(json!({"op":"rt_set_again","src":rng.below(4)}));
                }
            }
            _ => {
                if self.ts.rt_src.is_some() && !self.ts.tl.is_empty() {
                    self.ts.rt_src = None;
                    ops.push(json!({"op":"rt_unset"}));
                }
            }
        }
    }
}

pub fn gen_c18(rng: &mut Rng, tier: Tier) -> Value {
    let n = 1 + rng.below(if tier == Tier::Thorough { 40 } else { 24 });
    let mut g = Gen18 { live: vec![], live_timers: vec![], next: 100, ts: TsModel::default() };
    // the ambient source when the stopwatch is created
    let mut pre: Vec<Value> = vec![];
    match rng.below(10) {
        0 | 1 => {
            let s = rng.below(4);
            pre.push(json!({"op":"rt_enter"}));
            if mix(s, n) % 2 == 0 {
                pre.push(json!({"op":"resolve_unset"}));
            }
            pre.push(json!({"op":"rt_set","src":s}));
            g.ts.in_rt = true;
            g.ts.rt_src = Some(s);
        }
        2 => {
            let (s, t) = (rng.below(4), rng.below(4));
            pre.push(json!({"op":"rt_enter"}));
            pre.push(json!({"op":"rt_set","src":s}));
            pre.push(json!({"op":"ts_push","src":t}));
            g.ts.in_rt = true;
            g.ts.rt_src = Some(s);
            g.ts.tl.push(t);
        }
        3 => {
            let (s, t) = (rng.below(4), rng.below(4));
            pre.push(json!({"op":"ts_push","src":s}));
            pre.push(json!({"op":"ts_push","src":t}));
            g.ts.tl.push(s);
            g.ts.tl.push(t);
        }
        _ => {
            let s = if rng.chance(0.5) { 0 } else { rng.below(4) };
            if mix(s, n) % 3 == 0 {
                pre.push(json!({"op":"resolve_unset"}));
            }
            pre.push(json!({"op":"ts_push","src":s}));
            g.ts.tl.push(s);
        }
    }
    let ts_rate = *rng.pick(&[0.0, 0.0, 0.15, 0.3]);
    let mut ops: Vec<Value> = vec![];
    for _ in 0..n {
        if rng.chance(ts_rate) {
            g.ts_op(rng, &mut ops);
        } else if rng.chance(0.15) {
            ops.push(json!({"op":"adv","ns":adv18(rng)}));
        } else {
            g.timed(rng, &mut ops, true);
        }
        if rng.chance(0.6) {
            ops.push(json!({"op":"check"}));
        }
    }
    let sched = gen_sched(rng, &SchedOpts { est_choices: 80, threads: 3, jump_max_ns: 0, stall_clock_max_ns: 0, max_steps: 30_000 });
    // a fifth of the runs: a clock that never returns the same value twice
    let tick = if rng.chance(0.2) { *rng.pick(&[1u64, 7, 1000]) } else { 0 };
    json!({"sched": sched, "pre": pre, "ops": ops, "explicit_timesource": rng.chance(0.4), "explicit_src": rng.below(4), "tick_ns": tick})
}

pub struct Timers;

impl Scenario for Timers {
    fn name(&self) -> &'static str {
        "timers"
    }
    fn property(&self) -> &'static str {
        "C18"
    }
    fn weight(&self, _tier: Tier) -> u32 {
        3
    }
    fn generate(&self, rng: &mut Rng, tier: Tier) -> Value {
        let mut plan = gen_c18(rng, tier);
        // an eighth of the runs: all wall clocks in the far future (decided from the schedule seed: no draw moves)
        let h = mix(ju(plan.get("sched").unwrap_or(&Value::Null), "seed", 0), 0xfa2);
        if h % 8 == 0 {
            plan["far_future_s"] = json!([18_446_744_074u64, 18_500_000_000, 253_402_300_799, 4_000_000_000_000][(h / 8 % 4) as usize]);
        }
        // half of the runs: no time source is shared with the harness - each install / explicit use moves a source of
        // its own into the library, which then holds the only handle on it
        plan["fresh_sources"] = json!(mix(h, 0x5eed) % 2 == 0);
        plan
    }
    fn run(&self, plan: &Value) -> Report {
        let mut sched = sched_from_plan(plan);
        // the clock moves only when the plan says so
        sched.now_cost_ns = 0;
        sched.jump_prob = 0.0;
        if let Some(s) = sched.stall.as_mut() {
            s.clock_ns = 0;
        }
        let log = TLog::default();
        let (l2, p2) = (log.clone(), plan.clone());
        let (out, _) = detsim::run(sched, move || time_main(&p2, l2));
        let h = log.snapshot();
        let mut r = Report::default();
        r.nontrivial = ja(plan, "ops").len() >= 2;
        r.case_sig = mix(out.sig, hash_value(plan.get("ops").unwrap_or(&Value::Null)));
        let failure = out.failure.clone();
        let mp = out.main_panic.clone();
        absorb_outcome(&mut r, out);
        let mut st = BTreeSet::new();
        let mut prev = 0u64;
        for e in &h {
            let d = detsim::rng::hash_str(&format!("{:?}", std::mem::discriminant(&e.k)));
            st.insert(mix(prev, d));
            prev = d;
            match &e.k {
                TK::GuardEnd { how, .. } => r.probe(&format!("guard_{how}"), 1),
                TK::PhaseBegin => r.probe("concurrent_owned_phase", 1),
                TK::SystemObjects { .. } => r.probe("explicit_system_source_under_override", 1),
                TK::Stamp { wall_ns, .. } => {
                    r.probe("timestamps", 1);
                    if *wall_ns < 0 {
                        r.fault("wall_step", 1);
                        r.probe("wall_clock_before_epoch", 1);
                    }
                }
                _ => {}
            }
        }
        if ju(plan, "tick_ns", 0) > 0 {
            r.probe("ticking_clock", 1);
        }
        if h.iter().any(|e| matches!(e.k, TK::Note(_))) {
            r.probe("ambient_source_resolved_before_any_was_installed", 1);
        }
        if ju(plan, "far_future_s", 0) > 0 {
            r.fault("wall_clock_beyond_year_2554", 1);
        }
        if h.iter().any(|e| matches!(e.k, TK::DoubleInstall { .. })) {
            r.probe("runtime_double_install", 1);
        }
        let unwinds = h.iter().filter(|e| matches!(&e.k, TK::GuardEnd { how, .. } if how == "unwind")).count() as u64;
        r.fault("drop_during_unwind", unwinds);
        let ptxt = plan.get("ops").map(|o| o.to_string()).unwrap_or_default();
        if ptxt.contains("\"ts_pop\"") {
            r.probe("nested_thread_local_source_ended", 1);
        }
        if ptxt.contains("\"scope\"") {
            r.probe("scoped_source", 1);
        }
        let pre = plan.get("pre").map(|o| o.to_string()).unwrap_or_default();
        if pre.contains("rt_set") && !pre.contains("ts_push") {
            r.probe("runtime_level_source_in_effect", 1);
        }
        r.states = st.into_iter().collect();
        if !matches!(failure, Some(detsim::Failure::StepLimit { .. })) {
            r.violation = check_c18(&h);
        }
        r.sample = Some(json!({"ops": plan.get("ops"), "history": h.iter().take(50).map(|e| format!("#{} t{} {:?}", e.seq, e.tid, e.k)).collect::<Vec<_>>()}));
        if r.violation.is_none() {
            match failure {
                None => {}
                Some(f @ detsim::Failure::Deadlock { .. }) => r.violation = Some(Violation::new("deadlock", format!("{f:?}"))),
                Some(detsim::Failure::StepLimit { .. }) => r.inconclusive = true,
                Some(f) => r.harness_error = Some(format!("simulation failed: {f:?}")),
            }
            if let Some(p) = mp {
                if r.violation.is_none() {
                    r.violation = Some(Violation::new("panic", format!("timer code panicked: {p}")));
                }
            }
        }
        r
    }
    fn probes(&self) -> Vec<&'static str> {
        vec!["guard_stop", "guard_drop", "guard_discard", "guard_overwrite", "guard_unwind", "ticking_clock", "runtime_double_install", "concurrent_owned_phase", "timestamps", "wall_clock_before_epoch", "nested_thread_local_source_ended", "runtime_level_source_in_effect", "scoped_source", "explicit_system_source_under_override", "ambient_source_resolved_before_any_was_installed"]
    }
    fn components(&self) -> Value {
        json!({"real": ["Stopwatch / TimerGuard / OwnedTimerGuard / MaybeGuardedDuration / SharedDuration", "Timer", "Timestamp / TimestampOnClose / TimestampValue / EpochSeconds / EpochMillis / EpochMicros", "metrique_timesource::{TimeSource::custom, set_time_source, time_source}"], "simulated_seams": ["Time (monotonic = simulator clock, wall = harness-controlled, steps backwards allowed)", "Arc/Mutex of the shared duration"], "harness": ["operation histories, 1-3 threads finishing owned guards"], "stub": []})
    }
    fn rule(&self) -> &'static str {
        "each run: a history of 1-40 operations on one stopwatch (borrowed guards: stop/drop/discard/overwrite; owned guards, several live at once, finished on the owner thread or concurrently on 1-3 other threads; clear; close after most prefixes), timers (stop, stop again, close by value / by reference) and timestamps (at creation / on close, seconds / millis / micros / default formatter, wall clock stepped incl. before the epoch) over clock advances of 0, 1 ns, random and hours. non-trivial = >= 2 operations; distinct = distinct (op list, context-switch signature)"
    }
}

// ------------------------------------------------------------------------------------------
// C18 on the library's own fake clock (metrique_timesource::fakes::ManuallyAdvancedTimeSource)
// ------------------------------------------------------------------------------------------

/// The "manually advanced time source" the property names is part of the library (fakes.rs). Here it is the ambient
/// source; the plan advances its monotonic clock and steps its wall clock (both ways, in any order) between the
/// operations on a stopwatch, timers and timestamps, on 1-2 simulated threads sharing the one fake. Exact model.
pub struct FakeClock;

fn fake_main(plan: &Value, out: Arc<Mutex<Vec<String>>>) {
    use metrique_timesource::fakes::ManuallyAdvancedTimeSource;
    let wall0: u64 = 1_700_000_000_000_000_000;
    let fake = ManuallyAdvancedTimeSource::at_time(SystemTime::UNIX_EPOCH + Duration::from_nanos(wall0));
    // model
    let mono = Arc::new(std::sync::atomic::AtomicU64::new(0));
    let wall = Arc::new(std::sync::atomic::AtomicU64::new(wall0));
    let run_thread = |ops: Vec<Value>, fake: ManuallyAdvancedTimeSource, mono: Arc<std::sync::atomic::AtomicU64>, wall: Arc<std::sync::atomic::AtomicU64>, out: Arc<Mutex<Vec<String>>>, sole: bool| {
        let _g = set_time_source(TimeSource::custom(fake.clone()));
        let mut sw = Stopwatch::new();
        let mut sw_total: Option<u64> = None;
        let mut timers: BTreeMap<u64, (Timer, u64, Option<u64>)> = BTreeMap::new();
        let bad = |msg: String| out.lock().unwrap().push(msg);
        for op in &ops {
            detsim::yield_point();
            match js(op, "op", "") {
                "adv" => {
                    let ns = ju(op, "ns", 0);
                    fake.update_instant(Duration::from_nanos(ns));
                    mono.fetch_add(ns, Ordering::SeqCst);
                }
                "wall" => {
                    let ns = ju(op, "ns", 0);
                    fake.update_time(SystemTime::UNIX_EPOCH + Duration::from_nanos(ns));
                    wall.store(ns, Ordering::SeqCst);
                }
                "span" if sole => {
                    // a borrowed guard around an advance (and perhaps a wall-clock step)
                    let g = sw.start();
                    let ns = ju(op, "ns", 0);
                    fake.update_instant(Duration::from_nanos(ns));
                    mono.fetch_add(ns, Ordering::SeqCst);
                    if let Some(w) = op.get("wall").and_then(|x| x.as_u64()) {
                        fake.update_time(SystemTime::UNIX_EPOCH + Duration::from_nanos(w));
                        wall.store(w, Ordering::SeqCst);
                    }
                    let ns2 = ju(op, "ns2", 0);
                    fake.update_instant(Duration::from_nanos(ns2));
                    mono.fetch_add(ns2, Ordering::SeqCst);
                    drop(g);
                    sw_total = Some(sw_total.unwrap_or(0) + ns + ns2);
                }
                "timer_new" if sole => {
                    timers.insert(ju(op, "obj", 0), (Timer::start_now(), mono.load(Ordering::SeqCst), None));
                }
                "timer_stop" if sole => {
                    if let Some((t, start, stopped)) = timers.get_mut(&ju(op, "obj", 0)) {
                        let r = t.stop().as_nanos() as u64;
                        let want = *stopped.get_or_insert(mono.load(Ordering::SeqCst) - *start);
                        if r != want {
                            bad(format!("timer_stop_wrong: stop() returned {r} ns, the manually advanced clock moved {want} ns between creation and the first stop"));
                        }
                    }
                }
                "timer_peek" if sole => {
                    if let Some((t, start, stopped)) = timers.get(&ju(op, "obj", 0)) {
                        let r = (&*t).close().as_nanos() as u64;
                        let want = stopped.unwrap_or(mono.load(Ordering::SeqCst) - *start);
                        if r != want {
                            bad(format!("timer_close_wrong: closing a timer by reference read {r} ns, the manually advanced clock says {want} ns (creation to first stop, or to now)"));
                        }
                    }
                }
                "timer_close" if sole => {
                    if let Some((t, start, stopped)) = timers.remove(&ju(op, "obj", 0)) {
                        let r = t.close().as_nanos() as u64;
                        let want = stopped.unwrap_or(mono.load(Ordering::SeqCst) - start);
                        if r != want {
                            bad(format!("timer_close_wrong: the timer closed with {r} ns, the manually advanced clock moved {want} ns between its creation and its first stop / close"));
                        }
                    }
                }
                "stamp" if sole => {
                    let on_close = jb(op, "on_close", false);
                    let (v, want) = if on_close {
                        let t = TimestampOnClose::default();
                        if let Some(w) = op.get("wall").and_then(|x| x.as_u64()) {
                            fake.update_time(SystemTime::UNIX_EPOCH + Duration::from_nanos(w));
                            wall.store(w, Ordering::SeqCst);
                        }
                        (t.close(), wall.load(Ordering::SeqCst))
                    } else {
                        let want = wall.load(Ordering::SeqCst);
                        let t = Timestamp::now();
                        if let Some(w) = op.get("wall").and_then(|x| x.as_u64()) {
                            fake.update_time(SystemTime::UNIX_EPOCH + Duration::from_nanos(w));
                            wall.store(w, Ordering::SeqCst);
                        }
                        (t.close(), want)
                    };
                    let got = v.duration_since_epoch().as_nanos() as u64;
                    if got != want {
                        bad(format!("timestamp_wrong: a timestamp (on_close: {on_close}) reports {got} ns since the epoch, the fake's wall clock said {want} ns"));
                    }
                }
                _ => {}
            }
        }
        if sole {
            let rep = sw.close().map(|d| d.as_nanos() as u64);
            if rep != sw_total {
                bad(format!("stopwatch_total_wrong: the stopwatch reports {rep:?} ns, its completed spans total {sw_total:?} ns on the manually advanced clock"));
            }
        }
    };
    // a second thread only moves the shared fake's clocks (the measuring thread's spans are then sums of both)
    let second: Vec<Value> = ja(plan, "second").to_vec();
    if second.is_empty() {
        run_thread(ja(plan, "ops").to_vec(), fake, mono, wall, out, true);
    } else {
        // with a concurrent mover the exact model needs the moves to be ordered with the measurements: the mover
        // runs to completion first (its moves still go through the same shared fake and its lock)
        let (f2, m2, w2, o2) = (fake.clone(), mono.clone(), wall.clone(), out.clone());
        let h = detsim::thread::spawn_named("mover", move || run_thread(second, f2, m2, w2, o2, false));
        let _ = h.join();
        run_thread(ja(plan, "ops").to_vec(), fake, mono, wall, out, true);
    }
}

impl Scenario for FakeClock {
    fn name(&self) -> &'static str {
        "timers_fake_clock"
    }
    fn property(&self) -> &'static str {
        "C18"
    }
    fn weight(&self, _tier: Tier) -> u32 {
        1
    }
    fn generate(&self, rng: &mut Rng, _tier: Tier) -> Value {
        let mut ops = vec![];
        let mut live: Vec<u64> = vec![];
        let mut next = 1u64;
        let w = |rng: &mut Rng| 1_600_000_000_000_000_000u64 + rng.below(400_000_000_000_000_000);
        for _ in 0..(3 + rng.below(20)) {
            match rng.below(9) {
                0 | 1 => ops.push(json!({"op":"adv","ns":adv18(rng)})),
                2 => ops.push(json!({"op":"wall","ns":w(rng)})),
                3 | 4 => {
                    let mut o = json!({"op":"span","ns":adv18(rng),"ns2":adv18(rng)});
                    if rng.chance(0.5) {
                        o["wall"] = json!(w(rng));
                    }
                    ops.push(o);
                }
                5 => {
                    ops.push(json!({"op":"timer_new","obj":next}));
                    live.push(next);
                    next += 1;
                }
                6 if !live.is_empty() => ops.push(json!({"op": if rng.chance(0.4) { "timer_peek" } else { "timer_stop" },"obj": *rng.pick(&live)})),
                7 if !live.is_empty() => {
                    let i = rng.usize_below(live.len());
                    ops.push(json!({"op":"timer_close","obj": live.remove(i)}));
                }
                _ => {
                    let mut o = json!({"op":"stamp","on_close":rng.chance(0.5)});
                    if rng.chance(0.6) {
                        o["wall"] = json!(w(rng));
                    }
                    ops.push(o);
                }
            }
        }
        for obj in live {
            ops.push(json!({"op":"timer_close","obj":obj}));
        }
        let second: Vec<Value> = if rng.chance(0.2) { (0..1 + rng.below(4)).map(|_| if rng.chance(0.5) { json!({"op":"adv","ns":adv18(rng)}) } else { json!({"op":"wall","ns":w(rng)}) }).collect() } else { vec![] };
        let sched = gen_sched(rng, &SchedOpts { est_choices: 60, threads: 2, jump_max_ns: 0, stall_clock_max_ns: 0, max_steps: 20_000 });
        json!({"sched": sched, "ops": ops, "second": second})
    }
    fn run(&self, plan: &Value) -> Report {
        let sched = sched_from_plan(plan);
        let bad: Arc<Mutex<Vec<String>>> = Arc::new(Mutex::new(vec![]));
        let (b2, p2) = (bad.clone(), plan.clone());
        let (out, _) = detsim::run(sched, move || fake_main(&p2, b2));
        let mut r = Report::default();
        r.nontrivial = ja(plan, "ops").len() >= 2;
        r.case_sig = mix(out.sig, hash_value(&json!([plan.get("ops"), plan.get("second")])));
        let failure = out.failure.clone();
        let mp = out.main_panic.clone();
        absorb_outcome(&mut r, out);
        let ops = ja(plan, "ops");
        r.probe("wall_step_inside_a_running_span", ops.iter().filter(|o| js(o, "op", "") == "span" && o.get("wall").is_some()).count() as u64);
        r.fault("wall_step", ops.iter().filter(|o| js(o, "op", "") == "wall" || o.get("wall").is_some()).count() as u64);
        r.states = vec![mix(ops.len() as u64, ja(plan, "second").len() as u64)];
        if let Some(msg) = bad.lock().unwrap().first() {
            let (class, text) = msg.split_once(": ").unwrap_or(("timer_wrong", msg));
            r.violation = Some(Violation::new(class, text.to_string()));
        }
        r.sample = Some(json!({"ops": ops.iter().take(12).collect::<Vec<_>>()}));
        if r.violation.is_none() {
            match failure {
                None => {}
                Some(detsim::Failure::StepLimit { .. }) => r.inconclusive = true,
                Some(f) => r.harness_error = Some(format!("simulation failed: {f:?}")),
            }
            if let Some(p) = mp {
                match crate::driver::classify_uncaught_panic(&p) {
                    Ok(v) => r.violation = Some(v),
                    Err(e) => r.harness_error = Some(e),
                }
            }
        }
        r
    }
    fn probes(&self) -> Vec<&'static str> {
        vec!["wall_step_inside_a_running_span"]
    }
    fn components(&self) -> Value {
        json!({
            "real": ["metrique_timesource::fakes::ManuallyAdvancedTimeSource (the library's manually advanced clock)", "Stopwatch / TimerGuard", "Timer", "Timestamp / TimestampOnClose / TimestampValue", "thread-local time source override"],
            "simulated_seams": ["thread spawn/join"],
            "harness": ["exact model of the manual advances and wall-clock steps"],
            "stub": []
        })
    }
    fn rule(&self) -> &'static str {
        "each run: the library's ManuallyAdvancedTimeSource is ambient; 3-22 operations (advance, wall-clock step, borrowed span around advances with a wall step in the middle, timers created / stopped repeatedly / closed, timestamps at creation and at close), a fifth of the runs with a second thread moving the shared fake first; exact model. non-trivial = >= 2 operations; distinct = distinct plans"
    }
}

// ------------------------------------------------------------------------------------------
// The library's tokio time source (`TimeSource::tokio` / `TokioTime`): both of its clocks follow tokio's clock, which
// the scenario pauses and moves by `advance` and by sleeping (auto-advance). Installed thread-locally, for the
// current runtime, or handed to every object explicitly. Exact model: wall = start + what tokio's clock moved since
// the source was built.
// ------------------------------------------------------------------------------------------

pub struct TokioClock;

fn tokio_clock_main(plan: &Value, out: Arc<Mutex<Vec<String>>>) {
    use metrique_timesource::tokio::set_time_source_for_current_runtime;
    let rt = tokio::runtime::Builder::new_current_thread().enable_time().start_paused(true).build().expect("runtime");
    let bad = |msg: String| out.lock().unwrap().push(msg);
    let wall0: u64 = ju(plan, "wall0", 1_700_000_000_000_000_000);
    let install = js(plan, "install", "thread").to_string();
    let ops = ja(plan, "ops").to_vec();
    rt.block_on(async {
        // the clock moves before the source exists: the source's wall clock must start at wall0 *now*
        let pre = ju(plan, "pre_ns", 0);
        if pre > 0 {
            tokio::time::advance(Duration::from_nanos(pre)).await;
        }
        let src = TimeSource::tokio(SystemTime::UNIX_EPOCH + Duration::from_nanos(wall0));
        let mut mono: u64 = 0; // ns the tokio clock moved since the source was built
        let _g1;
        let _g2;
        match install.as_str() {
            "thread" => _g1 = set_time_source(src.clone()),
            "runtime" => _g2 = set_time_source_for_current_runtime(src.clone()),
            _ => {}
        }
        let explicit = install == "explicit";
        let mut sw = if explicit { Stopwatch::new_from_timesource(src.clone()) } else { Stopwatch::new() };
        let mut sw_total: Option<u64> = None;
        let mut timers: BTreeMap<u64, (Timer, u64, Option<u64>)> = BTreeMap::new();
        let mut owned: BTreeMap<u64, (OwnedTimerGuard, u64)> = BTreeMap::new();
        for op in &ops {
            detsim::yield_point();
            match js(op, "op", "") {
                "adv" => {
                    let ns = ju(op, "ns", 0);
                    tokio::time::advance(Duration::from_nanos(ns)).await;
                    mono += ns;
                }
                "sleep" => {
                    // tokio's timer wheel has millisecond granularity: sleep whole milliseconds and read back what moved
                    let ms = ju(op, "ms", 1);
                    let before = tokio::time::Instant::now();
                    tokio::time::sleep(Duration::from_millis(ms)).await;
                    mono += before.elapsed().as_nanos() as u64;
                }
                "span" => {
                    let g = sw.start();
                    let ns = ju(op, "ns", 0);
                    tokio::time::advance(Duration::from_nanos(ns)).await;
                    mono += ns;
                    match js(op, "end", "drop") {
                        "discard" => g.discard(),
                        "stop" => {
                            g.stop();
                            sw_total = Some(sw_total.unwrap_or(0) + ns);
                        }
                        _ => {
                            drop(g);
                            sw_total = Some(sw_total.unwrap_or(0) + ns);
                        }
                    }
                }
                "owned_start" => {
                    owned.insert(ju(op, "obj", 0), (sw.start_owned(), mono));
                }
                "owned_end" => {
                    if let Some((g, start)) = owned.remove(&ju(op, "obj", 0)) {
                        if jb(op, "discard", false) {
                            g.discard();
                        } else {
                            drop(g);
                            sw_total = Some(sw_total.unwrap_or(0) + (mono - start));
                        }
                    }
                }
                "clear" => {
                    // guards still running keep adding to the cleared stopwatch when they end: end them first
                    for (_, (g, _)) in std::mem::take(&mut owned) {
                        g.discard();
                    }
                    sw.clear();
                    sw_total = None;
                }
                "check" => {
                    let rep = (&sw).close().map(|d| d.as_nanos() as u64);
                    if rep != sw_total {
                        bad(format!("stopwatch_total_wrong: the stopwatch reports {rep:?} ns, its completed spans total {sw_total:?} ns on tokio's (paused, manually moved) clock"));
                    }
                }
                "timer_new" => {
                    let t = if explicit { Timer::start_now_with_timesource(src.clone()) } else { Timer::start_now() };
                    timers.insert(ju(op, "obj", 0), (t, mono, None));
                }
                "timer_stop" => {
                    if let Some((t, start, stopped)) = timers.get_mut(&ju(op, "obj", 0)) {
                        let r = t.stop().as_nanos() as u64;
                        let want = *stopped.get_or_insert(mono - *start);
                        if r != want {
                            bad(format!("timer_stop_wrong: stop() returned {r} ns, tokio's clock moved {want} ns between creation and the first stop"));
                        }
                    }
                }
                "timer_close" => {
                    if let Some((t, start, stopped)) = timers.remove(&ju(op, "obj", 0)) {
                        let r = t.close().as_nanos() as u64;
                        let want = stopped.unwrap_or(mono - start);
                        if r != want {
                            bad(format!("timer_close_wrong: the timer closed with {r} ns, tokio's clock moved {want} ns between its creation and its first stop / close"));
                        }
                    }
                }
                "stamp" => {
                    let on_close = jb(op, "on_close", false);
                    let ns = ju(op, "ns", 0);
                    let (v, want) = if on_close {
                        // (a close-timestamp has no explicit-source constructor: it keeps the source that is ambient when it is
                        // built, so with an explicit source it is built under a scoped override and closed outside it)
                        let t = if explicit { metrique_timesource::with_time_source(src.clone(), TimestampOnClose::default) } else { TimestampOnClose::default() };
                        tokio::time::advance(Duration::from_nanos(ns)).await;
                        mono += ns;
                        (t.close(), wall0 + mono)
                    } else {
                        let want = wall0 + mono;
                        let t = if explicit { if jb(op, "via_new", false) { Timestamp::new(src.system_time()) } else { Timestamp::new_from_time_source(src.clone()) } } else if jb(op, "via_new", false) { Timestamp::default() } else { Timestamp::now() };
                        tokio::time::advance(Duration::from_nanos(ns)).await;
                        mono += ns;
                        (t.close(), want)
                    };
                    let got = v.duration_since_epoch().as_nanos() as u64;
                    if got != want {
                        bad(format!("timestamp_wrong: a timestamp (on_close: {on_close}) reports {got} ns since the epoch, the tokio time source's wall clock said {want} ns"));
                    }
                }
                _ => {}
            }
        }
        // plan key `close_with_live_guards`: the stopwatch is closed (by value) while owned guards are still running:
        // it reports the spans completed so far, the running ones are not part of it
        let live = if jb(plan, "close_with_live_guards", false) { std::mem::take(&mut owned) } else { BTreeMap::new() };
        for (_, (g, start)) in std::mem::take(&mut owned) {
            drop(g);
            sw_total = Some(sw_total.unwrap_or(0) + (mono - start));
        }
        let rep = sw.close().map(|d| d.as_nanos() as u64);
        drop(live);
        if rep != sw_total {
            bad(format!("stopwatch_total_wrong: the stopwatch reports {rep:?} ns, its completed spans total {sw_total:?} ns on tokio's (paused, manually moved) clock"));
        }
    });
}

impl Scenario for TokioClock {
    fn name(&self) -> &'static str {
        "timers_tokio_clock"
    }
    fn property(&self) -> &'static str {
        "C18"
    }
    fn weight(&self, _tier: Tier) -> u32 {
        1
    }
    fn generate(&self, rng: &mut Rng, _tier: Tier) -> Value {
        let mut ops = vec![];
        let mut live: Vec<u64> = vec![];
        let mut owned: Vec<u64> = vec![];
        let mut next = 1u64;
        for _ in 0..(3 + rng.below(20)) {
            match rng.below(12) {
                0 | 1 => ops.push(json!({"op":"adv","ns":adv18(rng)})),
                2 => ops.push(json!({"op":"sleep","ms":1 + rng.below(5000)})),
                3 | 4 => ops.push(json!({"op":"span","ns":adv18(rng),"end": *rng.pick(&["drop","stop","discard"])})),
                5 => {
                    ops.push(json!({"op":"timer_new","obj":next}));
                    live.push(next);
                    next += 1;
                }
                6 if !live.is_empty() => ops.push(json!({"op":"timer_stop","obj": *rng.pick(&live)})),
                7 if !live.is_empty() => {
                    let i = rng.usize_below(live.len());
                    ops.push(json!({"op":"timer_close","obj": live.remove(i)}));
                }
                8 => {
                    ops.push(json!({"op":"owned_start","obj":next}));
                    owned.push(next);
                    next += 1;
                }
                9 if !owned.is_empty() => {
                    let i = rng.usize_below(owned.len());
                    ops.push(json!({"op":"owned_end","obj": owned.remove(i), "discard": rng.chance(0.25)}));
                }
                10 => {
                    if rng.chance(0.3) {
                        owned.clear();
                        ops.push(json!({"op":"clear"}));
                    } else {
                        ops.push(json!({"op":"check"}));
                    }
                }
                _ => ops.push(json!({"op":"stamp","on_close":rng.chance(0.5),"ns":adv18(rng),"via_new":rng.chance(0.3)})),
            }
        }
        for obj in live {
            ops.push(json!({"op":"timer_close","obj":obj}));
        }
        let sched = gen_sched(rng, &SchedOpts { est_choices: 60, threads: 1, jump_max_ns: 0, stall_clock_max_ns: 0, max_steps: 20_000 });
        let install = *rng.pick(&["thread", "runtime", "explicit"]);
        let wall0 = 1_000_000_000_000_000_000u64 + rng.below(900_000_000_000_000_000);
        let pre = if rng.chance(0.5) { adv18(rng) } else { 0 };
        let live_close = rng.clone().next_u64() % 3 == 0;
        json!({"sched": sched, "ops": ops, "install": install, "wall0": wall0, "pre_ns": pre, "close_with_live_guards": live_close})
    }
    fn run(&self, plan: &Value) -> Report {
        let sched = sched_from_plan(plan);
        let bad: Arc<Mutex<Vec<String>>> = Arc::new(Mutex::new(vec![]));
        let (b2, p2) = (bad.clone(), plan.clone());
        let (out, _) = detsim::run(sched, move || tokio_clock_main(&p2, b2));
        let mut r = Report::default();
        r.nontrivial = ja(plan, "ops").len() >= 2;
        r.case_sig = mix(out.sig, hash_value(&json!([plan.get("ops"), plan.get("install"), plan.get("pre_ns")])));
        let failure = out.failure.clone();
        let mp = out.main_panic.clone();
        absorb_outcome(&mut r, out);
        let ops = ja(plan, "ops");
        r.probe("tokio_source_installed_for_the_runtime", (js(plan, "install", "") == "runtime") as u64);
        r.probe("tokio_clock_moved_before_the_source_was_built", (ju(plan, "pre_ns", 0) > 0) as u64);
        r.probe("tokio_clock_moved_by_sleeping", ops.iter().filter(|o| js(o, "op", "") == "sleep").count() as u64);
        r.states = vec![mix(ops.len() as u64, hash_value(&json!(plan.get("install"))))];
        if let Some(msg) = bad.lock().unwrap().first() {
            let (class, text) = msg.split_once(": ").unwrap_or(("timer_wrong", msg));
            r.violation = Some(Violation::new(class, text.to_string()));
        }
        r.sample = Some(json!({"install": plan.get("install"), "ops": ops.iter().take(12).collect::<Vec<_>>()}));
        if r.violation.is_none() {
            match failure {
                None => {}
                Some(detsim::Failure::StepLimit { .. }) => r.inconclusive = true,
                Some(f) => r.harness_error = Some(format!("simulation failed: {f:?}")),
            }
            if let Some(p) = mp {
                match crate::driver::classify_uncaught_panic(&p) {
                    Ok(v) => r.violation = Some(v),
                    Err(e) => r.harness_error = Some(e),
                }
            }
        }
        r
    }
    fn probes(&self) -> Vec<&'static str> {
        vec!["tokio_source_installed_for_the_runtime", "tokio_clock_moved_before_the_source_was_built", "tokio_clock_moved_by_sleeping"]
    }
    fn components(&self) -> Value {
        json!({
            "real": ["metrique_timesource::tokio::TokioTime / TimeSource::tokio", "set_time_source_for_current_runtime", "Stopwatch (borrowed and owned guards)", "Timer", "Timestamp / TimestampOnClose", "tokio's paused clock (advance, auto-advance while sleeping)"],
            "simulated_seams": ["none beyond tokio's own paused clock: one simulated thread"],
            "harness": ["exact model: wall = start + what tokio's clock moved since the source was built"],
            "stub": []
        })
    }
    fn rule(&self) -> &'static str {
        "each run: a current-thread tokio runtime with a paused clock; the library's tokio time source installed thread-locally, for the runtime, or handed to each object; 3-22 operations (advance, sleep, borrowed spans ended by drop / stop / discard, owned guards, clear, check, timers, timestamps); exact model. non-trivial = >= 2 operations; distinct = distinct plans"
    }
}
