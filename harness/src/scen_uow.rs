//! C06 / C13 — unit-of-work entries (append-and-close-on-drop), flush / force-flush guards,
//! handles, slots. Real code: metrique::append_and_close / AppendAndCloseOnDrop(+Handle),
//! keep_alive::{Parent, Guard, DropAll} (with shimmed Arc / Weak / Mutex: a scheduling point
//! before every clone / drop / upgrade / lock), Slot / LazySlot / SlotGuard / OnParentDrop,
//! tokio oneshot, the #[metrics] expansion. Harness: owner thread + dropper threads + recording sink.

use std::collections::{BTreeMap, BTreeSet, HashMap};
use std::sync::{Arc, Mutex};

use detsim::rng::{mix, Rng};
use metrique::unit_of_work::metrics;
use metrique::{AppendAndCloseOnDrop, AppendAndCloseOnDropHandle, FlushGuard, ForceFlushGuard, LazySlot, OnParentDrop, RootMetric, Slot, SlotGuard};
use metrique_writer::test_util::to_test_entry;
use metrique_writer::{Entry, EntrySink};
use metrique_writer_core::sink::FlushWait;
use serde_json::{json, Value};

use crate::framework::*;

/// A value whose `close()` panics when armed (the documented "the guard panicked" case: the
/// slot's fields are then dropped from the entry, nothing else may go wrong).
#[derive(Default)]
pub struct Bomb(pub bool);
impl metrique::CloseValue for Bomb {
    type Closed = u64;
    fn close(self) -> u64 {
        if self.0 {
            std::panic::panic_any("harness: the slot value's close() panics");
        }
        // closing a slot value takes a while: a scheduling point in the middle of the slot guard's drop
        detsim::yield_point();
        0
    }
}

#[metrics]
#[derive(Default)]
pub struct Sub1 {
    v1: u64,
    bomb: Bomb,
}

#[metrics]
#[derive(Default)]
pub struct Sub2 {
    v2: u64,
}

/// a slot value without fields (a completion marker): its closed form is zero-sized
#[metrics]
#[derive(Default)]
pub struct SlotMarker {}

#[metrics]
#[derive(Default)]
pub struct Work {
    field: u64,
    other: u64,
    #[metrics(flatten)]
    s1: Slot<Sub1>,
    #[metrics(flatten)]
    s2: LazySlot<Sub2>,
    #[metrics(flatten)]
    s3: Slot<SlotMarker>,
}

#[derive(Clone, Debug)]
pub enum UK {
    Create { obj: u64, kind: &'static str },
    Set { v: u64 },
    SlotSet { obj: u64, v: u64 },
    DropBegin { obj: u64 },
    DropEnd { obj: u64 },
    Forget { obj: u64 },
    Append { field: Option<u64>, other: Option<u64>, v1: Option<u64>, v2: Option<u64> },
    ReopenResult { slot: u64, was_none: bool },
    WaitData { slot: u64, got: Option<u64> },
    WaitCancelled { slot: u64 },
    /// the guard's value was armed to panic in close(): its drop unwinds out of SlotGuard::drop
    SlotBomb { obj: u64 },
    /// a second unit-of-work entry (B) entrusted one of its flush guards to slot guard `slot` (of the entry under
    /// test) through delay_flush; B's owner was dropped right afterwards
    ForeignEntrusted { slot: u64 },
    ForeignAppend { slot: u64 },
}

#[derive(Clone, Debug)]
pub struct UEv {
    pub seq: u64,
    pub tid: usize,
    pub k: UK,
}

#[derive(Clone, Default)]
pub struct ULog(Arc<Mutex<Vec<UEv>>>);
impl ULog {
    fn log(&self, k: UK) -> u64 {
        let seq = detsim::next_seq();
        self.0.lock().unwrap().push(UEv { seq, tid: detsim::current_tid().unwrap_or(0), k });
        seq
    }
    fn snapshot(&self) -> Vec<UEv> {
        self.0.lock().unwrap().clone()
    }
}

#[derive(Clone)]
pub struct RecSink(ULog);

impl EntrySink<RootMetric<Work>> for RecSink {
    fn append(&self, entry: RootMetric<Work>) {
        detsim::yield_point();
        let t = to_test_entry(&entry);
        let g = |n: &str| t.metrics.get(n).map(|m| m.as_u64());
        self.0.log(UK::Append { field: g("field"), other: g("other"), v1: g("v1"), v2: g("v2") });
        detsim::yield_point();
    }
    fn flush_async(&self) -> FlushWait {
        FlushWait::ready()
    }
}

/// sink of the entries the thread emitted before the one under test
#[derive(Clone)]
pub struct NullSink;
impl EntrySink<RootMetric<Work>> for NullSink {
    fn append(&self, _entry: RootMetric<Work>) {}
    fn flush_async(&self) -> FlushWait {
        FlushWait::ready()
    }
}
enum Stale {
    Force(#[allow(dead_code)] metrique::ForceFlushGuard),
    Flush(#[allow(dead_code)] FlushGuard),
}

/// sink of the second entry (B) of `late_delay` with `foreign`
#[derive(Clone)]
pub struct ForeignSink(ULog, u64);
impl EntrySink<RootMetric<Work>> for ForeignSink {
    fn append(&self, _entry: RootMetric<Work>) {
        self.0.log(UK::ForeignAppend { slot: self.1 });
    }
    fn flush_async(&self) -> FlushWait {
        FlushWait::ready()
    }
}

type Owner = AppendAndCloseOnDrop<Work, RecSink>;

enum Obj {
    Owner(Owner),
    Handle(AppendAndCloseOnDropHandle<Work, RecSink>),
    Flush(FlushGuard),
    Force(ForceFlushGuard),
    Slot1(SlotGuard<Sub1>),
    Slot2(SlotGuard<Sub2>),
    Slot3(SlotGuard<SlotMarker>),
    /// very many flush guards of the entry, dropped one after the other (in creation order) by one operation
    Many(Vec<(u64, FlushGuard)>),
}

struct Table {
    objs: detsim::sync::Mutex<HashMap<u64, Obj>>,
    key: u64,
}

impl Table {
    fn put(&self, id: u64, o: Obj) {
        self.objs.lock().unwrap().insert(id, o);
        detsim::unblock(self.key);
    }
    fn try_take(&self, id: u64) -> Option<Obj> {
        self.objs.lock().unwrap().remove(&id)
    }
    fn take(&self, id: u64) -> Obj {
        loop {
            if let Some(o) = self.objs.lock().unwrap().remove(&id) {
                return o;
            }
            let _ = detsim::block_on_key(self.key, Some(detsim::clock_ns() + 1_000_000_000), detsim::site());
        }
    }
}

/// What a thread keeps in a thread-local until it exits.
struct ExitDrop {
    log: ULog,
    id: u64,
    obj: Option<Obj>,
}
impl Drop for ExitDrop {
    fn drop(&mut self) {
        self.log.log(UK::DropBegin { obj: self.id });
        drop(self.obj.take());
        self.log.log(UK::DropEnd { obj: self.id });
    }
}
thread_local! {
    static EXIT_DROPS: std::cell::RefCell<Vec<ExitDrop>> = std::cell::RefCell::new(Vec::new());
}

fn do_drop(log: &ULog, table: &Table, op: &Value) {
    let id = ju(op, "obj", 0);
    let mut o = table.take(id);
    if let Obj::Many(gs) = o {
        for (gid, g) in gs {
            log.log(UK::DropBegin { obj: gid });
            drop(g);
            log.log(UK::DropEnd { obj: gid });
        }
        return;
    }
    if let Some(v) = op.get("v").and_then(|x| x.as_u64()) {
        match &mut o {
            Obj::Slot1(g) => {
                g.v1 = v;
                log.log(UK::SlotSet { obj: id, v });
            }
            Obj::Slot2(g) => {
                g.v2 = v;
                log.log(UK::SlotSet { obj: id, v });
            }
            _ => {}
        }
        detsim::yield_point();
    }
    if jb(op, "bomb", false) {
        if let Obj::Slot1(g) = &mut o {
            g.bomb.0 = true;
            log.log(UK::SlotBomb { obj: id });
            log.log(UK::DropBegin { obj: id });
            let _ = std::panic::catch_unwind(std::panic::AssertUnwindSafe(move || drop(o)));
            log.log(UK::DropEnd { obj: id });
            return;
        }
    }
    if jb(op, "forget", false) {
        log.log(UK::Forget { obj: id });
        std::mem::forget(o);
        return;
    }
    if jb(op, "at_exit", false) {
        // the object is parked in a thread-local of this thread: it is dropped by that thread-local's destructor,
        // while the thread exits
        EXIT_DROPS.with(|c| c.borrow_mut().push(ExitDrop { log: log.clone(), id, obj: Some(o) }));
        return;
    }
    log.log(UK::DropBegin { obj: id });
    if jb(op, "in_task", false) {
        // environment fault `tokio_budget_exhausted`: the drop happens inside a tokio task
        // whose cooperative budget has just been used up (anything that polls a coop-aware
        // resource now sees Pending once)
        thread_local! {
            static RT: tokio::runtime::Runtime = tokio::runtime::Builder::new_current_thread().build().expect("tokio rt");
        }
        RT.with(|rt| {
            rt.block_on(async move {
                for _ in 0..128 {
                    tokio::task::consume_budget().await;
                }
                drop(o);
            })
        });
        log.log(UK::DropEnd { obj: id });
        return;
    }
    if jb(op, "in_panic", false) {
        // fault `drop_during_unwind`: the object is a local of a scope that panics
        let _ = std::panic::catch_unwind(std::panic::AssertUnwindSafe(move || {
            let _local = o;
            std::panic::resume_unwind(Box::new("harness: unwinding through the scope that owns the object"));
        }));
        log.log(UK::DropEnd { obj: id });
        return;
    }
    match o {
        // the documented alternative way of letting the owner go: Instrumented::emit()
        Obj::Owner(owner) if js(op, "via", "") == "emit" => {
            let v = metrique::instrument::Instrumented::from_parts(7u8, owner).emit();
            assert_eq!(v, 7);
        }
        // the other ways an `Instrumented` lets go of the owner it carries
        Obj::Owner(owner) if js(op, "via", "").starts_with("instr_") => {
            use metrique::instrument::Instrumented;
            match js(op, "via", "") {
                "instr_sync" => {
                    let i = Instrumented::instrument(owner, |m| {
                        detsim::yield_point();
                        let _ = &m;
                        7u8
                    });
                    assert_eq!(i.discard_metrics(), 7);
                }
                "instr_split" => {
                    let mut parked = None;
                    let v = Instrumented::from_parts(7u8, owner).split_metrics_to(&mut parked);
                    assert_eq!(v, 7);
                    detsim::yield_point();
                    drop(parked);
                }
                how => {
                    // instrument_async: the user's future completes, is cancelled while suspended (a timeout, a
                    // select!), or panics - in every case the owner goes away with it
                    let fut = Instrumented::instrument_async(owner, async move |m: &mut Owner| {
                        let _ = &m;
                        let mut first = true;
                        std::future::poll_fn(|cx| {
                            if first {
                                first = false;
                                cx.waker().wake_by_ref();
                                std::task::Poll::Pending
                            } else {
                                std::task::Poll::Ready(())
                            }
                        })
                        .await;
                        if how == "instr_async_panic" {
                            std::panic::panic_any("harness: the instrumented future panics");
                        }
                        7u8
                    });
                    let mut fut = std::pin::pin!(fut);
                    match how {
                        "instr_async_cancel" => {
                            let _ = detsim::future::poll_once(&mut fut);
                            detsim::yield_point();
                            // (the pinned future is dropped at the end of this arm, still suspended)
                        }
                        "instr_async_panic" => {
                            let _ = std::panic::catch_unwind(std::panic::AssertUnwindSafe(|| detsim::future::block_on(&mut fut)));
                        }
                        _ => {
                            let i = detsim::future::block_on(&mut fut);
                            assert_eq!(i.discard_metrics(), 7);
                        }
                    }
                }
            }
        }
        o => drop(o),
    }
    log.log(UK::DropEnd { obj: id });
}

fn uow_main(plan: &Value, log: ULog) {
    let table = Arc::new(Table { objs: detsim::sync::Mutex::new(HashMap::new()), key: detsim::fresh_key() });
    let mut hs = vec![];
    for (i, ops) in ja(plan, "droppers").iter().enumerate() {
        let ops: Vec<Value> = ops.as_array().cloned().unwrap_or_default();
        let t = table.clone();
        let l = log.clone();
        hs.push(detsim::thread::spawn_named(&format!("d{}", i + 1), move || {
            if ops.iter().any(|o| jb(o, "at_exit", false)) {
                // the thread-local that will hold the object exists before this thread first emits anything (so
                // whatever thread-locals the library keeps are younger, and are destroyed before it)
                EXIT_DROPS.with(|c| c.borrow_mut().reserve(1));
                drop(Work::default().append_on_drop(NullSink));
            }
            for op in &ops {
                match js(op, "op", "") {
                    "drop" => do_drop(&l, &t, op),
                    "sleep" => detsim::sleep_ns(ju(op, "ns", 0)),
                    _ => detsim::yield_point(),
                }
            }
        }));
    }
    // plan key `earlier_entries`: entries of the same type this thread emitted earlier; a guard of each is still around
    let mut stale: Vec<Stale> = vec![];
    for k in 0..ju(plan, "earlier_entries", 0) {
        let a = Work::default().append_on_drop(NullSink);
        stale.push(if k % 2 == 0 { Stale::Force(a.force_flush_guard()) } else { Stale::Flush(a.flush_guard()) });
        drop(a);
    }
    let mut owner: Option<Owner> = Some(Work::default().append_on_drop(RecSink(log.clone())));
    log.log(UK::Create { obj: 0, kind: "owner" });
    for op in ja(plan, "main_ops") {
        match js(op, "op", "") {
            "set" => {
                if let Some(o) = owner.as_mut() {
                    let v = ju(op, "v", 0);
                    o.field = v;
                    o.other = v + 1;
                    log.log(UK::Set { v });
                }
            }
            "flush_guard" => {
                if let Some(o) = owner.as_ref() {
                    let g = o.flush_guard();
                    log.log(UK::Create { obj: ju(op, "obj", 0), kind: "flush" });
                    table.put(ju(op, "obj", 0), Obj::Flush(g));
                }
            }
            "flush_guard_many" => {
                if let Some(o) = owner.as_ref() {
                    let first = ju(op, "first", 30_000);
                    let gs: Vec<(u64, FlushGuard)> = (0..ju(op, "n", 0)).map(|i| {
                        log.log(UK::Create { obj: first + i, kind: "flush" });
                        (first + i, o.flush_guard())
                    }).collect();
                    table.put(ju(op, "obj", 0), Obj::Many(gs));
                }
            }
            "force_guard" => {
                if let Some(o) = owner.as_ref() {
                    let g = o.force_flush_guard();
                    log.log(UK::Create { obj: ju(op, "obj", 0), kind: "force" });
                    table.put(ju(op, "obj", 0), Obj::Force(g));
                }
            }
            "open_slot" => {
                if let Some(o) = owner.as_mut() {
                    let id = ju(op, "obj", 0);
                    let mode = js(op, "mode", "discard");
                    let m = match mode {
                        "wait" => OnParentDrop::Wait(o.flush_guard()),
                        _ => OnParentDrop::Discard,
                    };
                    // extra delay_flush calls on a guard that may already be in wait mode
                    let redelay = ju(op, "redelay", 0) + (mode == "delay") as u64;
                    // the slot field is overwritten after it was opened: the guard is orphaned (its
                    // value can no longer reach the entry) but a flush guard entrusted to it
                    // afterwards still has to be held until the guard is dropped
                    let overwrite = jb(op, "overwrite", false);
                    let legacy = jb(op, "legacy", false) && ju(op, "slot", 1) == 1;
                    let holds = (mode == "wait" && !legacy) || redelay > 0;
                    let kind: &'static str = match (overwrite, holds, mode) {
                        (true, true, _) => "orphan_flush",
                        (true, false, _) => "orphan",
                        (false, true, "wait") => "slot_wait",
                        (false, true, _) => "slot_delay",
                        _ => "slot_discard",
                    };
                    if ju(op, "slot", 1) == 3 {
                        // the marker slot: nothing to carry, only the waiting matters
                        if let Some(mut g) = o.s3.open(m) {
                            for _ in 0..redelay {
                                g.delay_flush(o.flush_guard());
                            }
                            log.log(UK::Create { obj: id, kind });
                            table.put(id, Obj::Slot3(g));
                        }
                    } else if ju(op, "slot", 1) == 1 {
                        #[allow(deprecated)]
                        let opened = if jb(op, "legacy", false) { drop(m); o.s1.open_slot() } else { o.s1.open(m) };
                        if let Some(mut g) = opened {
                            if overwrite {
                                o.s1 = Slot::default();
                            }
                            for _ in 0..redelay {
                                g.delay_flush(o.flush_guard());
                            }
                            log.log(UK::Create { obj: id, kind });
                            table.put(id, Obj::Slot1(g));
                        }
                    } else if let Some(mut g) = o.s2.open(Sub2::default(), m) {
                        if overwrite {
                            o.s2 = LazySlot::default();
                        }
                        for _ in 0..redelay {
                            g.delay_flush(o.flush_guard());
                        }
                        log.log(UK::Create { obj: id, kind });
                        table.put(id, Obj::Slot2(g));
                    }
                }
            }
            "reopen" => {
                if let Some(o) = owner.as_mut() {
                    let slot = ju(op, "slot", 1);
                    // a refused second open must let go of whatever it was given: a flush guard passed along in
                    // wait mode is not held by anybody afterwards
                    let m = if jb(op, "wait", false) { OnParentDrop::Wait(o.flush_guard()) } else { OnParentDrop::Discard };
                    let was_none = if slot == 1 { o.s1.open(m).is_none() } else { o.s2.open(Sub2::default(), m).is_none() };
                    log.log(UK::ReopenResult { slot, was_none });
                }
            }
            "wait_marker" => {
                // the owner waits until the marker slot's guard is gone: a marker has no fields, but it *is* a value -
                // a guard that was dropped normally has delivered it
                if let Some(o) = owner.as_mut() {
                    let got = detsim::future::block_on(o.s3.wait_for_data()).is_some();
                    log.log(UK::WaitData { slot: 3, got: if got { Some(1) } else { None } });
                }
            }
            "wait_data" => {
                if let Some(o) = owner.as_mut() {
                    if jb(op, "cancel", false) {
                        // fault `future_cancelled`: the wait is polled once and, if still pending,
                        // abandoned (a timeout around wait_for_data)
                        let mut fut = Box::pin(o.s1.wait_for_data());
                        match detsim::future::poll_once(&mut fut) {
                            std::task::Poll::Ready(v) => {
                                let got = v.as_ref().map(|c| c.v1);
                                drop(fut);
                                log.log(UK::WaitData { slot: 1, got });
                            }
                            std::task::Poll::Pending => {
                                // the future stays around for a while after its last poll (a timeout that has not
                                // fired yet): the guard may send its value in between
                                for _ in 0..ju(op, "linger", 0) {
                                    detsim::yield_point();
                                }
                                if ju(op, "linger_ns", 0) > 0 {
                                    detsim::sleep_ns(ju(op, "linger_ns", 0));
                                }
                                drop(fut);
                                log.log(UK::WaitCancelled { slot: 1 });
                            }
                        }
                    } else {
                        #[allow(deprecated)]
                        let got = detsim::future::block_on(o.s1.wait_for_data()).as_ref().map(|c| c.v1);
                        log.log(UK::WaitData { slot: 1, got });
                    }
                }
            }
            "drop_stale" => {
                detsim::yield_point();
                drop(stale.pop());
                detsim::yield_point();
            }
            "late_delay" => {
                // delay_flush on a slot guard that left the owner long ago - perhaps after the owner is gone, perhaps
                // on a guard that is waiting already (the flush guard it held is let go inside the call). The new flush
                // guard is one the owner handed out earlier and the plan kept aside (`guard`), or one of a second
                // entry B (`foreign`), whose owner is dropped right afterwards: B must then wait for this slot guard.
                let sid = ju(op, "slot", 0);
                let foreign = jb(op, "foreign", false);
                let kept = if foreign { None } else { table.try_take(ju(op, "guard", 0)) };
                let b_owner = if foreign { Some(Work::default().append_on_drop(ForeignSink(log.clone(), sid))) } else { None };
                let new_guard = match (&b_owner, kept) {
                    (Some(b), _) => Some(b.flush_guard()),
                    (None, Some(Obj::Flush(f))) => Some(f),
                    _ => None,
                };
                if let Some(fg) = new_guard {
                    match table.try_take(sid) {
                        Some(mut sg @ (Obj::Slot1(_) | Obj::Slot2(_) | Obj::Slot3(_))) => {
                            // the flush guard the slot guard held so far (if any) is dropped inside the call
                            let held = log.snapshot().iter().rev().find_map(|e| match &e.k { UK::Create { obj, kind } if *obj == sid => Some(*kind), _ => None });
                            let was_holding = matches!(held, Some("slot_wait") | Some("slot_delay"));
                            let pseudo = 20_000 + sid;
                            if was_holding {
                                log.log(UK::Create { obj: pseudo, kind: "flush" });
                                log.log(UK::DropBegin { obj: pseudo });
                            }
                            match &mut sg {
                                Obj::Slot1(g) => g.delay_flush(fg),
                                Obj::Slot2(g) => g.delay_flush(fg),
                                Obj::Slot3(g) => g.delay_flush(fg),
                                _ => {}
                            }
                            if was_holding {
                                log.log(UK::DropEnd { obj: pseudo });
                            }
                            if foreign {
                                // for the entry under test the slot guard holds nothing any more
                                log.log(UK::Create { obj: sid, kind: "slot_discard" });
                                log.log(UK::ForeignEntrusted { slot: sid });
                            } else {
                                log.log(UK::Create { obj: ju(op, "guard", 0), kind: "absorbed" });
                                log.log(UK::Create { obj: sid, kind: "slot_delay" });
                            }
                            table.put(sid, sg);
                        }
                        other => {
                            // the slot guard is gone (or being dropped right now): the flush guard is simply dropped
                            if let Some(o) = other {
                                table.put(sid, o);
                            }
                            if !foreign {
                                log.log(UK::DropBegin { obj: ju(op, "guard", 0) });
                                drop(fg);
                                log.log(UK::DropEnd { obj: ju(op, "guard", 0) });
                            } else {
                                drop(fg);
                            }
                        }
                    }
                }
                drop(b_owner);
            }
            "to_handle" => {
                if let Some(o) = owner.take() {
                    let h = o.handle();
                    let ids: Vec<u64> = ja(op, "objs").iter().filter_map(|x| x.as_u64()).collect();
                    for (i, id) in ids.iter().enumerate() {
                        log.log(UK::Create { obj: *id, kind: "handle" });
                        if i + 1 == ids.len() {
                            break;
                        }
                        table.put(*id, Obj::Handle(h.clone()));
                    }
                    if let Some(last) = ids.last() {
                        table.put(*last, Obj::Handle(h));
                    }
                }
            }
            "release_owner" => {
                if let Some(o) = owner.take() {
                    table.put(0, Obj::Owner(o));
                }
            }
            "drop" => do_drop(&log, &table, op),
            "sleep" => detsim::sleep_ns(ju(op, "ns", 0)),
            _ => detsim::yield_point(),
        }
    }
    if let Some(o) = owner.take() {
        // plan did not release the owner (only happens for shrunk plans): drop it here
        log.log(UK::DropBegin { obj: 0 });
        drop(o);
        log.log(UK::DropEnd { obj: 0 });
    }
    for h in hs {
        let _ = h.join();
    }
    // whatever is still in the table (only for shrunk plans, or a flush guard that was kept aside and never used)
    // is dropped like everything else: logged
    let left: Vec<u64> = table.objs.lock().unwrap().keys().copied().collect();
    for id in left {
        if let Some(o) = table.try_take(id) {
            log.log(UK::DropBegin { obj: id });
            drop(o);
            log.log(UK::DropEnd { obj: id });
        }
    }
}

// ------------------------------------------------------------------------------------------
// oracles
// ------------------------------------------------------------------------------------------

struct Model {
    kinds: BTreeMap<u64, &'static str>,
    drop_inv: BTreeMap<u64, u64>,
    drop_ret: BTreeMap<u64, u64>,
    forgotten: BTreeSet<u64>,
    appends: Vec<(u64, usize, Option<u64>, Option<u64>, Option<u64>, Option<u64>)>,
    last_set: Option<u64>,
    slot_last: BTreeMap<u64, u64>,
    bombed: BTreeSet<u64>,
}

fn model(h: &[UEv]) -> Model {
    let mut m = Model { kinds: BTreeMap::new(), drop_inv: BTreeMap::new(), drop_ret: BTreeMap::new(), forgotten: BTreeSet::new(), appends: vec![], last_set: None, slot_last: BTreeMap::new(), bombed: BTreeSet::new() };
    for e in h {
        match &e.k {
            UK::Create { obj, kind } => {
                m.kinds.insert(*obj, kind);
            }
            UK::DropBegin { obj } => {
                m.drop_inv.insert(*obj, e.seq);
            }
            UK::DropEnd { obj } => {
                m.drop_ret.insert(*obj, e.seq);
            }
            UK::Forget { obj } => {
                m.forgotten.insert(*obj);
            }
            UK::Append { field, other, v1, v2 } => m.appends.push((e.seq, e.tid, *field, *other, *v1, *v2)),
            UK::Set { v } => m.last_set = Some(*v),
            UK::SlotSet { obj, v } => {
                m.slot_last.insert(*obj, *v);
            }
            UK::SlotBomb { obj } => {
                m.bombed.insert(*obj);
            }
            _ => {}
        }
    }
    m
}

impl Model {
    fn owners(&self) -> Vec<u64> {
        let handles: Vec<u64> = self.kinds.iter().filter(|(_, k)| **k == "handle").map(|(o, _)| *o).collect();
        if handles.is_empty() { vec![0] } else { handles }
    }
    fn holds_flush(&self, obj: u64) -> bool {
        matches!(self.kinds.get(&obj).copied(), Some("flush") | Some("slot_wait") | Some("slot_delay") | Some("orphan_flush"))
    }
    /// cond(S) for S = objects whose drop (by `pick`) happened before `s`
    fn cond(&self, s: u64, pick: &BTreeMap<u64, u64>) -> bool {
        let inn = |o: &u64| pick.get(o).map(|x| *x < s).unwrap_or(false);
        let owners_gone = self.owners().iter().all(inn);
        let flush_gone = self.kinds.keys().filter(|o| self.holds_flush(**o)).all(inn);
        let force = self.kinds.iter().filter(|(_, k)| **k == "force").any(|(o, _)| inn(o));
        owners_gone && (flush_gone || force)
    }
}

pub fn check_c06(h: &[UEv]) -> Option<Violation> {
    let m = model(h);
    if m.appends.len() > 1 {
        return Some(Violation::new("appended_twice", format!("the entry was appended {} times (events {:?})", m.appends.len(), m.appends.iter().map(|a| a.0).collect::<Vec<_>>())));
    }
    let end = h.last().map(|e| e.seq + 1).unwrap_or(1);
    let ever = m.cond(end, &m.drop_ret);
    match m.appends.first() {
        None => {
            if ever {
                return Some(Violation::new("never_appended", "owner and handles dropped and (all flush guards dropped or a force-flush guard dropped), but the entry was never appended"));
            }
        }
        Some((a, tid, field, other, _, _)) => {
            if !m.cond(*a, &m.drop_inv) {
                return Some(Violation::new(
                    "appended_too_early",
                    format!("the entry was appended at #{a} although the owner / a handle / a flush guard was still alive and no force-flush guard had been dropped"),
                ));
            }
            // the appending thread is inside a drop at that moment
            let inside = m.drop_inv.iter().any(|(o, inv)| *inv < *a && m.drop_ret.get(o).map(|r| *r > *a).unwrap_or(true) && h.iter().any(|e| e.seq == *inv && e.tid == *tid));
            if !inside {
                return Some(Violation::new("appended_outside_drop", format!("the entry was appended at #{a} by a thread that was not dropping anything")));
            }
            // never later: let s* be the first instant at which the condition holds over
            // *completed* drops. The append is performed inside an enabling drop, so it must be
            // done before s* -- unless another drop was still in flight at s* (it may be the one
            // that performs the close, e.g. a force-flush guard's drop that began earlier): then
            // before the last of those returns.
            let mut s_star = None;
            for e in h {
                if let UK::DropEnd { .. } = e.k {
                    if m.cond(e.seq + 1, &m.drop_ret) {
                        s_star = Some(e.seq);
                        break;
                    }
                }
            }
            if let Some(s) = s_star {
                let mut deadline = s;
                let mut open_ended = false;
                for (o, inv) in &m.drop_inv {
                    if *inv < s {
                        match m.drop_ret.get(o) {
                            Some(r) if *r > s => deadline = deadline.max(*r),
                            None => open_ended = true,
                            _ => {}
                        }
                    }
                }
                // A force-flush guard's drop that is in flight at s* may hold the guard cell (it has upgraded its weak
                // reference) without being the one that ends up emitting: a second force-flush guard dropped while the
                // first is still in flight can take the release out of the cell first, and then emits inside *its*
                // drop, which began after s*. So: any force-flush guard drop that began while a force-flush guard
                // drop from before s* was still in flight extends the deadline to its own end.
                let force_in_flight_until = m
                    .drop_inv
                    .iter()
                    .filter(|(o, inv)| **inv < s && m.kinds.get(*o).copied() == Some("force"))
                    .filter_map(|(o, _)| m.drop_ret.get(o).copied().filter(|r| *r > s))
                    .max();
                if let Some(until) = force_in_flight_until {
                    for (o, inv) in &m.drop_inv {
                        if m.kinds.get(o).copied() == Some("force") && *inv > s && *inv < until {
                            match m.drop_ret.get(o) {
                                Some(r) => deadline = deadline.max(*r),
                                None => open_ended = true,
                            }
                        }
                    }
                }
                if !open_ended && *a > deadline {
                    return Some(Violation::new("appended_too_late", format!("the closing condition was complete at #{s} (drops in flight until #{deadline}) but the entry was only appended at #{a}")));
                }
            }
            if *field != m.last_set.or(Some(0)) || *other != m.last_set.map(|v| v + 1).or(Some(0)) {
                return Some(Violation::new("stale_entry", format!("the appended entry carries field={field:?}/other={other:?}, the last mutation through the owner was {:?}", m.last_set)));
            }
        }
    }
    None
}

pub fn check_c13(h: &[UEv]) -> Option<Violation> {
    let m = model(h);
    for e in h {
        match &e.k {
            UK::ReopenResult { slot, was_none: false } => {
                return Some(Violation::new("slot_opened_twice", format!("slot {slot} could be opened a second time")));
            }
            UK::WaitData { slot: 3, got } => {
                if got.is_none() {
                    return Some(Violation::new("wait_for_data_wrong", "wait_for_data on the marker slot returned nothing although its guard was dropped normally (a value without fields is still a value)"));
                }
            }
            UK::WaitData { got, .. } => {
                // the generator only waits when the slot-1 guard is dropped normally by another thread
                if let Some(g) = m.kinds.iter().find(|(o, k)| k.starts_with("slot_") && slot_no(h, **o) == 1).map(|(o, _)| *o) {
                    let want = m.slot_last.get(&g).copied().unwrap_or(0);
                    if *got != Some(want) {
                        return Some(Violation::new("wait_for_data_wrong", format!("wait_for_data returned {got:?}, the guard was dropped with value {want}")));
                    }
                }
            }
            _ => {}
        }
    }
    // a second entry that entrusted a flush guard to a slot guard of this one waits for that slot guard
    for e in h {
        if let UK::ForeignEntrusted { slot } = &e.k {
            let appended: Vec<u64> = h.iter().filter(|x| matches!(&x.k, UK::ForeignAppend { slot: s } if s == slot)).map(|x| x.seq).collect();
            let inv = m.drop_inv.get(slot).copied();
            if appended.len() > 1 {
                return Some(Violation::new("appended_twice", format!("the second entry (which entrusted a flush guard to slot guard {slot}) was appended {} times", appended.len())));
            }
            match (appended.first(), inv) {
                (Some(a), Some(i)) if *a > i => {}
                (Some(a), _) => return Some(Violation::new("appended_too_early", format!("a second entry entrusted one of its flush guards to slot guard {slot} through delay_flush (#{}) and its owner was dropped; it was appended at #{a}, before the drop of that slot guard began ({inv:?})", e.seq))),
                (None, Some(_)) if m.drop_ret.contains_key(slot) && !m.forgotten.contains(slot) => return Some(Violation::new("never_appended", format!("the second entry, whose only flush guard was held by slot guard {slot}, was never appended although that guard has been dropped"))),
                _ => {}
            }
        }
    }
    // the entry itself: exactly once, and not "not at all" (whatever happened to the slots)
    if let Some(v) = check_c06(h) {
        if matches!(v.class.as_str(), "never_appended" | "appended_twice") {
            return Some(v);
        }
    }
    let Some((a, atid, field, other, v1, v2)) = m.appends.first().cloned() else { return None };
    // trigger = the drop (by the appending thread) during which the append happened
    let trigger: Option<u64> = m
        .drop_inv
        .iter()
        .filter(|(o, inv)| **inv < a && m.drop_ret.get(*o).map(|r| *r > a).unwrap_or(true) && h.iter().any(|e| e.seq == **inv && e.tid == atid))
        .map(|(o, _)| *o)
        .last();
    let trig_inv = trigger.and_then(|t| m.drop_inv.get(&t).copied()).unwrap_or(a);
    let force_before = m.kinds.iter().filter(|(_, k)| **k == "force").any(|(o, _)| m.drop_inv.get(o).map(|d| *d < a).unwrap_or(false));
    // a slot that nobody ever opened has no value to report
    for (n, present) in [(1u64, v1), (2, v2)] {
        let opened = m.kinds.keys().any(|o| (100..10_000).contains(o) && slot_no(h, *o) == n);
        if !opened && present.is_some() {
            return Some(Violation::new("slot_value_from_nowhere", format!("slot {n} was never opened (no guard was ever handed out), yet the entry reports a value for it: {present:?}")));
        }
    }
    for (g, kind) in m.kinds.iter().filter(|(_, k)| k.starts_with("slot_")) {
        if slot_no(h, *g) == 3 {
            // a marker carries no value: only "the entry waits for the guard" applies
            if matches!(*kind, "slot_wait" | "slot_delay") && !force_before && !m.forgotten.contains(g) && !m.drop_inv.get(g).map(|i| *i < a).unwrap_or(false) {
                return Some(Violation::new("entry_did_not_wait_for_slot", format!("marker slot guard {g} was opened in wait mode and no force-flush guard was dropped, but the entry was appended at #{a} before the guard's drop began")));
            }
            continue;
        }
        let present = if slot_no(h, *g) == 1 { v1 } else { v2 };
        let want = m.slot_last.get(g).copied().unwrap_or(0);
        let inv = m.drop_inv.get(g).copied();
        let ret = m.drop_ret.get(g).copied();
        if m.bombed.contains(g) {
            // its close() panicked: there is no value; everything else must be as usual
            if present.is_some() {
                return Some(Violation::new("slot_value_from_nowhere", format!("the entry contains a value for slot guard {g} although closing that value panicked")));
            }
            if matches!(*kind, "slot_wait" | "slot_delay") && !force_before && !m.forgotten.contains(g) {
                match inv {
                    Some(i) if i < a => {}
                    _ => return Some(Violation::new("entry_did_not_wait_for_slot", format!("slot guard {g} was opened in wait mode and no force-flush guard was dropped, but the entry was appended at #{a} before the guard's drop began"))),
                }
            }
            continue;
        }
        if let Some(p) = present {
            match inv {
                Some(i) if i < a => {}
                _ => return Some(Violation::new("slot_value_from_nowhere", format!("the entry contains a value for slot guard {g} whose drop had not begun"))),
            }
            if p != want {
                return Some(Violation::new("slot_value_stale", format!("the entry contains {p} for slot guard {g}, the last mutation through the guard was {want}")));
            }
        } else {
            if ret.map(|r| r < trig_inv).unwrap_or(false) {
                return Some(Violation::new("slot_value_lost", format!("slot guard {g} ({kind}) was completely dropped (#{}) before the closing drop began (#{trig_inv}), but its value is missing from the entry", ret.unwrap())));
            }
            if trigger == Some(*g) {
                return Some(Violation::new("slot_value_lost", format!("the entry was emitted by the drop of slot guard {g} ({kind}) itself, yet its value is missing")));
            }
        }
        if matches!(*kind, "slot_wait" | "slot_delay") && !force_before && !m.forgotten.contains(g) {
            match inv {
                Some(i) if i < a => {}
                _ => return Some(Violation::new("entry_did_not_wait_for_slot", format!("slot guard {g} was opened in wait mode and no force-flush guard was dropped, but the entry was appended at #{a} before the guard's drop began"))),
            }
            if present.is_none() {
                return Some(Violation::new("slot_value_lost", format!("slot guard {g} (wait mode, no force flush) is missing from the entry")));
            }
        }
    }
    // the rest of the entry is unaffected either way
    if field != m.last_set.or(Some(0)) || other != m.last_set.map(|v| v + 1).or(Some(0)) {
        return Some(Violation::new("entry_rest_affected", format!("field={field:?}/other={other:?} but the owner last wrote {:?}", m.last_set)));
    }
    None
}

fn slot_no(h: &[UEv], g: u64) -> u64 {
    // slot-1 guards have even ids >= 100, slot-2 guards odd ids >= 100 (generator convention)
    let _ = h;
    // (marker-slot guards: ids >= 10 000)
    if (10_000..20_000).contains(&g) { 3 } else if g % 2 == 0 { 1 } else { 2 }
}

// ------------------------------------------------------------------------------------------
// generation
// ------------------------------------------------------------------------------------------

pub fn gen_uow(rng: &mut Rng, slots: bool) -> Value {
    let nd = 1 + rng.below(3);
    let mut main_ops: Vec<Value> = vec![];
    let mut objs: Vec<(u64, bool)> = vec![]; // (id, is_slot)
    let mut next = 1u64;
    let mut val = 10u64;
    let mut pending_main_drops: Vec<u64> = vec![];
    let n_create = rng.below(if slots { 5 } else { 7 });
    let mut slot1_open = false;
    let mut slot2_open = false;
    let mut any_overwrite = false;
    // a fifth of the runs: a force-flush guard goes to a dropper first, then the owner keeps
    // creating guards -- so that the guard's drop lands *inside* a later flush_guard() call
    if rng.chance(0.2) {
        let id = next;
        next += 1;
        main_ops.push(json!({"op":"force_guard","obj":id}));
        objs.push((id, false));
        for _ in 0..(3 + rng.below(5)) {
            let id = next;
            next += 1;
            main_ops.push(json!({"op":"flush_guard","obj":id}));
            objs.push((id, false));
        }
    }
    for _ in 0..n_create {
        if rng.chance(0.5) {
            val += 1 + rng.below(5);
            main_ops.push(json!({"op":"set","v":val}));
        }
        let c = rng.below(if slots { 6 } else { 3 });
        match c {
            0 | 1 => {
                let id = next;
                next += 1;
                main_ops.push(json!({"op":"flush_guard","obj":id}));
                objs.push((id, false));
            }
            2 => {
                let id = next;
                next += 1;
                main_ops.push(json!({"op":"force_guard","obj":id}));
                objs.push((id, false));
                if rng.chance(0.4) {
                    // drop it right away on the owner thread; later guards are created after it
                    pending_main_drops.push(id);
                    objs.pop();
                    main_ops.push(json!({"op":"drop","obj":id}));
                }
            }
            _ => {
                let slot = if rng.chance(0.5) { 1 } else { 2 };
                let already = if slot == 1 { slot1_open } else { slot2_open };
                if already {
                    main_ops.push(json!({"op":"reopen","slot":slot,"wait":rng.chance(0.5)}));
                } else {
                    let id = 100 + 2 * next + if slot == 1 { 0 } else { 1 };
                    next += 1;
                    let mode = *rng.pick(&["wait", "wait", "discard", "delay"]);
                    if slot == 1 && rng.chance(0.12) {
                        // the parent looks at the slot (with a timeout) before anybody has opened it
                        main_ops.push(json!({"op":"wait_data","cancel":true,"linger": rng.below(2)}));
                    }
                    let mut o = json!({"op":"open_slot","slot":slot,"mode":mode,"obj":id});
                    if rng.chance(0.2) {
                        o["redelay"] = json!(1 + rng.below(2));
                    }
                    if slot == 1 && rng.chance(0.15) {
                        // the deprecated way of opening a slot (no mode; delay_flush may follow)
                        o["legacy"] = json!(true);
                    }
                    let overwrite = rng.chance(0.08);
                    if overwrite {
                        o["overwrite"] = json!(true);
                        any_overwrite = true;
                    }
                    main_ops.push(o);
                    objs.push((id, !overwrite));
                    if !overwrite {
                        if slot == 1 { slot1_open = true } else { slot2_open = true }
                    }
                }
            }
        }
    }
    if rng.chance(0.6) {
        val += 1 + rng.below(5);
        main_ops.push(json!({"op":"set","v":val}));
    }
    // owner: release to a dropper / keep for main / convert to handles
    let mut owner_objs: Vec<u64> = vec![];
    let style = rng.below(4);
    if style == 0 {
        let n = 1 + rng.below(3);
        let ids: Vec<u64> = (0..n).map(|i| 50 + i).collect();
        main_ops.push(json!({"op":"to_handle","objs":ids}));
        owner_objs = ids;
    } else {
        main_ops.push(json!({"op":"release_owner"}));
        owner_objs.push(0);
    }
    let owner_pos = main_ops.len() - 1;
    // distribute drops
    let mut droppers: Vec<Vec<Value>> = (0..nd).map(|_| vec![]).collect();
    let mut all: Vec<(u64, bool)> = objs.clone();
    for o in &owner_objs {
        all.push((*o, false));
    }
    rng.shuffle(&mut all);
    let mut sval = 1000u64;
    for (id, is_slot) in all {
        let mut op = json!({"op":"drop","obj":id});
        if is_slot && rng.chance(0.8) {
            sval += 1 + rng.below(9);
            op["v"] = json!(sval);
        }
        if !owner_objs.contains(&id) && rng.chance(0.07) {
            op["forget"] = json!(true);
        }
        if id == 0 && rng.chance(0.45) {
            op["via"] = json!(*rng.pick(&["emit", "emit", "emit", "instr_sync", "instr_split", "instr_async_done", "instr_async_cancel", "instr_async_panic"]));
        } else if rng.chance(0.1) {
            op["in_task"] = json!(true);
        } else if op.get("forget").is_none() && rng.chance(0.1) {
            op["in_panic"] = json!(true);
        } else if is_slot && id % 2 == 0 && op.get("forget").is_none() && rng.chance(0.1) {
            // the slot value's close() panics while the guard is dropped
            op["bomb"] = json!(true);
        }
        let mut who = rng.below(nd + 1);
        let is_slot1 = is_slot && id % 2 == 0;
        if is_slot1 && slots && style != 0 && !any_overwrite && op.get("forget").is_none() && op.get("in_panic").is_none() && op.get("bomb").is_none() && rng.chance(0.35) {
            // the owner waits for this guard's data before it is released: another thread must drop it
            who = rng.below(nd);
            main_ops.insert(owner_pos, json!({"op":"wait_data","cancel": rng.chance(0.35),"linger": *rng.pick(&[0u64, 0, 1, 3, 8]),"linger_ns": *rng.pick(&[0u64, 0, 0, 60_000])}));
            if rng.chance(0.3) {
                // ... and asks again (a completed wait is repeatable)
                main_ops.insert(owner_pos + 1, json!({"op":"wait_data"}));
            }
        }
        if who == nd {
            main_ops.push(op);
        } else {
            if rng.chance(0.2) {
                droppers[who as usize].push(json!({"op":"sleep","ns": 1_000 * (1 + rng.below(50))}));
            }
            droppers[who as usize].push(op);
        }
    }
    // a quarter of the slot plans also open the marker slot (a value without fields), in wait / delay / discard mode,
    // somewhere before the owner is released; its guard is dropped by a dropper like everything else
    let pk = rng.clone().next_u64().rotate_left(17);
    if slots && pk % 4 == 0 {
        if let Some(ow_pos) = main_ops.iter().position(|o| matches!(js(o, "op", ""), "release_owner" | "to_handle")) {
            let id = 10_000 + (pk / 4) % 100;
            let mode = ["wait", "wait", "delay", "discard"][(pk / 400 % 4) as usize];
            let open_at = (pk / 1600) as usize % (ow_pos + 1);
            main_ops.insert(open_at, json!({"op":"open_slot","slot":3,"mode":mode,"obj":id}));
            let op = json!({"op":"drop","obj":id});
            let who = (pk / 6400) as usize % droppers.len().max(1);
            if droppers.is_empty() {
                main_ops.push(op)
            } else {
                let at = (pk / 25600) as usize % (droppers[who].len() + 1);
                droppers[who].insert(at, op);
                // half of the time the owner waits for the marker before it is released (another thread drops the guard;
                // nothing that thread has to do first may depend on the owner's later operations)
                if (pk / 102_400) % 2 == 0 && style != 0 && droppers[who][..at].iter().all(|o| js(o, "op", "") != "drop") {
                    let rel = main_ops.iter().position(|o| js(o, "op", "") == "release_owner").unwrap_or(main_ops.len());
                    main_ops.insert(rel, json!({"op":"wait_marker"}));
                }
            }
        }
    }
    // one plan in 500: the entry has 1 030 - 1 330 flush guards alive at once (created by the owner in one go and
    // dropped one after the other, in creation order, by one dropper operation)
    let pm = rng.clone().next_u64().rotate_left(29);
    if pm % 500 == 0 {
        if let Some(ow_pos) = main_ops.iter().position(|o| matches!(js(o, "op", ""), "release_owner" | "to_handle")) {
            let n = 1_030 + (pm / 500) % 300;
            main_ops.insert(ow_pos, json!({"op":"flush_guard_many","obj":29_999,"first":30_000,"n":n}));
            let op = json!({"op":"drop","obj":29_999});
            if droppers.is_empty() { main_ops.push(op) } else { let who = (pm / 80_000) as usize % droppers.len(); droppers[who].push(op) }
        }
    }
    // A third of the plans with a slot guard: delay_flush is called on it late - after the owner has been released, or
    // right after the slot was opened - with a flush guard that the owner handed out before the slot was opened and
    // that was kept aside (object 90), or with a flush guard of a second entry whose owner is dropped at once.
    // (Decided from a copy of the generator: no draw moves.)
    let peek = rng.clone().next_u64();
    let slot_objs: Vec<u64> = objs.iter().filter(|(_, is_slot)| *is_slot).map(|(id, _)| *id).collect();
    if slots && !any_overwrite && !slot_objs.is_empty() && peek % 3 == 0 {
        let sid = slot_objs[(peek / 3) as usize % slot_objs.len()];
        let foreign = (peek / 64) % 3 == 0;
        let open_pos = main_ops.iter().position(|o| js(o, "op", "") == "open_slot" && ju(o, "obj", 0) == sid);
        let owner_now = main_ops.iter().position(|o| matches!(js(o, "op", ""), "release_owner" | "to_handle"));
        if let (Some(op_pos), Some(ow_pos)) = (open_pos, owner_now) {
            // where the late call goes: right after the owner is released (two thirds), or right after the open
            let at = if (peek / 512) % 3 == 0 { op_pos + 1 } else { ow_pos + 1 };
            if foreign {
                main_ops.insert(at, json!({"op":"late_delay","slot":sid,"foreign":true}));
            } else {
                main_ops.insert(at, json!({"op":"late_delay","slot":sid,"guard":90}));
                main_ops.insert(op_pos, json!({"op":"flush_guard","obj":90}));
            }
        }
    }
    let sched = gen_sched(rng, &SchedOpts { est_choices: 150, threads: nd + 1, jump_max_ns: 0, stall_clock_max_ns: 0, max_steps: 30_000 });
    // a sixth of the plans: the thread has emitted 1 - 3 entries before this one, and still holds a guard of each (a
    // force-flush guard, or a flush guard that delayed that entry); those stale guards are dropped at seeded moments of
    // this entry's life and must mean nothing to it. Decided from the schedule seed: no other draw of the plan moves.
    let hk = mix(ju(&sched, "seed", 0), 0x57a1e);
    let earlier = if hk % 6 == 0 { 1 + (hk / 6) % 3 } else { 0 };
    for i in 0..earlier {
        let at = (mix(hk, i) % (main_ops.len() as u64 + 1)) as usize;
        main_ops.insert(at, json!({"op":"drop_stale"}));
    }
    // an eighth of the plans: the last thing one of the dropper threads does is to park its object in a thread-local
    // instead of dropping it - the drop happens in that thread-local's destructor, while the thread exits
    let hx = mix(ju(&sched, "seed", 0), 0xe817);
    if hx % 8 == 0 && !droppers.is_empty() {
        let d = ((hx / 8) % droppers.len() as u64) as usize;
        if let Some(last) = droppers[d].last_mut() {
            let plain = last.as_object().map(|o| o.keys().all(|k| k == "op" || k == "obj")).unwrap_or(false);
            if plain && js(last, "op", "") == "drop" {
                last["at_exit"] = json!(true);
            }
        }
    }
    json!({
        "sched": sched,
        "main_ops": main_ops,
        "droppers": droppers,
        "earlier_entries": earlier,
    })
}

fn run_uow(plan: &Value) -> (detsim::Outcome, Vec<UEv>) {
    let sched = sched_from_plan(plan);
    let log = ULog::default();
    let l2 = log.clone();
    let p2 = plan.clone();
    let (out, _) = detsim::run(sched, move || uow_main(&p2, l2));
    (out, log.snapshot())
}

fn uow_report(plan: &Value, check: fn(&[UEv]) -> Option<Violation>) -> Report {
    let (out, h) = run_uow(plan);
    let mut r = Report::default();
    r.nontrivial = out.threads >= 2 && out.preemptions >= 1;
    r.case_sig = mix(out.sig, hash_value(&json!([plan.get("main_ops"), plan.get("droppers")])));
    let failure = out.failure.clone();
    let main_panic = out.main_panic.clone();
    absorb_outcome(&mut r, out);
    let m = model(&h);
    r.fault("guard_leaked", m.forgotten.len() as u64);
    let in_task = ja(plan, "main_ops").iter().chain(ja(plan, "droppers").iter().flat_map(|d| d.as_array().map(|a| a.iter()).into_iter().flatten())).filter(|o| jb(o, "in_task", false)).count() as u64;
    r.fault("tokio_budget_exhausted", in_task);
    let in_panic = ja(plan, "main_ops").iter().chain(ja(plan, "droppers").iter().flat_map(|d| d.as_array().map(|a| a.iter()).into_iter().flatten())).filter(|o| jb(o, "in_panic", false)).count() as u64;
    r.fault("drop_during_unwind", in_panic);
    r.fault("future_cancelled", h.iter().filter(|e| matches!(e.k, UK::WaitCancelled { .. })).count() as u64);
    if m.kinds.values().any(|k| k.starts_with("orphan")) {
        r.probe("slot_field_overwritten_after_open", 1);
    }
    if m.kinds.values().any(|k| *k == "force") {
        r.probe("force_guard_used", 1);
    }
    if m.kinds.values().any(|k| *k == "handle") {
        r.probe("handles_used", 1);
    }
    if let Some((a, tid, ..)) = m.appends.first() {
        if *tid != 0 {
            r.probe("appended_on_non_owner_thread", 1);
        }
        // trigger kind
        for (o, inv) in &m.drop_inv {
            if *inv < *a && m.drop_ret.get(o).map(|x| *x > *a).unwrap_or(true) {
                r.probe(&format!("trigger_{}", m.kinds.get(o).copied().unwrap_or("?")), 1);
            }
        }
    } else {
        r.probe("never_appended_expected", 1);
    }
    let mut st = BTreeSet::new();
    let mut dropped = 0u64;
    for e in &h {
        if let UK::DropEnd { .. } = e.k {
            dropped += 1;
        }
        st.insert(mix(detsim::rng::hash_str(&format!("{:?}", std::mem::discriminant(&e.k))), dropped.min(8) << 8 | (m.appends.first().map(|a| a.0 < e.seq).unwrap_or(false) as u64)));
    }
    r.states = st.into_iter().collect();
    if !matches!(failure, Some(detsim::Failure::StepLimit { .. })) {
        r.violation = check(&h);
    }
    r.sample = Some(json!({"main_ops": plan.get("main_ops"), "droppers": plan.get("droppers"), "history": h.iter().take(60).map(|e| format!("#{} t{} {:?}", e.seq, e.tid, e.k)).collect::<Vec<_>>()}));
    if r.violation.is_none() {
        match failure {
            None => {}
            Some(f @ detsim::Failure::Deadlock { .. }) => r.violation = Some(Violation::new("deadlock", format!("{f:?}"))),
            Some(detsim::Failure::StepLimit { .. }) => r.inconclusive = true,
            Some(f) => r.harness_error = Some(format!("simulation failed: {f:?}")),
        }
        if let Some(p) = main_panic {
            if r.violation.is_none() {
                r.violation = Some(Violation::new("panic", format!("owner thread panicked: {p}")));
            }
        }
    }
    r
}

fn uow_components() -> Value {
    json!({
        "real": ["#[metrics] expansion (append_on_drop, close)", "append_and_close / AppendAndCloseOnDrop / AppendAndCloseOnDropHandle", "keep_alive::{Parent, Guard, DropAll}", "FlushGuard / ForceFlushGuard", "Slot / LazySlot / SlotGuard / OnParentDrop / delay_flush / wait_for_data", "tokio oneshot (atomic step)"],
        "simulated_seams": ["Arc / Weak / Mutex inside keep_alive (scheduling point before clone, drop, upgrade, lock)", "thread spawn/join"],
        "harness": ["owner thread, 1-3 dropper threads, object table", "RecSink (EntrySink)"],
        "stub": []
    })
}

pub struct UowClose;
pub struct UowSlots;

impl Scenario for UowClose {
    fn name(&self) -> &'static str {
        "uow_close"
    }
    fn property(&self) -> &'static str {
        "C06"
    }
    fn generate(&self, rng: &mut Rng, _tier: Tier) -> Value {
        let slots = rng.chance(0.3);
        gen_uow(rng, slots)
    }
    fn run(&self, plan: &Value) -> Report {
        uow_report(plan, check_c06)
    }
    fn probes(&self) -> Vec<&'static str> {
        vec!["force_guard_used", "handles_used", "appended_on_non_owner_thread", "trigger_flush", "trigger_force", "trigger_owner", "trigger_handle", "never_appended_expected"]
    }
    fn components(&self) -> Value {
        uow_components()
    }
    fn rule(&self) -> &'static str {
        "each run: the owner thread creates 0-6 flush / force-flush guards (some force guards dropped before later guards are created), optionally slot guards, mutates the entry, then releases the owner or turns it into 1-3 handles; every object is dropped (7%: leaked) by the owner thread or one of 1-3 dropper threads in a shuffled order. non-trivial = >= 2 threads and >= 1 preemption; distinct = distinct (context-switch signature, op lists)"
    }
}

impl Scenario for UowSlots {
    fn name(&self) -> &'static str {
        "uow_slots"
    }
    fn property(&self) -> &'static str {
        "C13"
    }
    fn generate(&self, rng: &mut Rng, _tier: Tier) -> Value {
        gen_uow(rng, true)
    }
    fn run(&self, plan: &Value) -> Report {
        let mut r = uow_report(plan, check_c13);
        let kinds: Vec<String> = ja(plan, "main_ops").iter().filter(|o| js(o, "op", "") == "open_slot").map(|o| js(o, "mode", "").to_string()).collect();
        for k in kinds {
            r.probe(&format!("slot_mode_{k}"), 1);
        }
        r
    }
    fn probes(&self) -> Vec<&'static str> {
        vec!["slot_mode_wait", "slot_mode_discard", "slot_mode_delay", "force_guard_used", "trigger_slot_wait", "trigger_slot_delay", "trigger_owner"]
    }
    fn components(&self) -> Value {
        uow_components()
    }
    fn rule(&self) -> &'static str {
        "as uow_close, always with slots: Slot and LazySlot opened in wait / discard / delay_flush mode, second open attempts, guards mutated (unique values) and dropped on other threads, parent dropped first or last, force-flush guards racing. non-trivial / distinct as above"
    }
}

// ------------------------------------------------------------------------------------------
// C06 — many entries on one thread: nested emission chains and sinks that panic
// ------------------------------------------------------------------------------------------

/// Holds the flush guard of the *next* entry of a chain and releases it when it is closed, i.e.
/// while the entry that owns it is being emitted: emissions nest, one level per link.
#[derive(Default)]
pub struct Holder(pub Option<FlushGuard>);
impl metrique::CloseValue for Holder {
    type Closed = u64;
    fn close(self) -> u64 {
        drop(self.0);
        0
    }
}

/// Holds a force-flush guard of *another* entry and drops it when it is closed (in the middle of its owner's
/// emission): the other entry is emitted there and then, nested.
#[derive(Default)]
pub struct ForceHolder(pub Option<ForceFlushGuard>);
impl metrique::CloseValue for ForceHolder {
    type Closed = u64;
    fn close(self) -> u64 {
        drop(self.0);
        0
    }
}

#[metrics]
#[derive(Default)]
pub struct Link {
    idx: u64,
    next: Holder,
    next_force: ForceHolder,
    /// a force-flush guard of this very entry, kept inside it (released when the entry is closed and dropped, i.e.
    /// in the middle of its own emission)
    #[metrics(ignore)]
    own_guard: Option<ForceFlushGuard>,
}

#[derive(Clone)]
pub struct LinkSink(Arc<Mutex<Vec<u64>>>);
impl EntrySink<RootMetric<Link>> for LinkSink {
    fn append(&self, entry: RootMetric<Link>) {
        let t = to_test_entry(&entry);
        let idx = t.metrics.get("idx").map(|m| m.as_u64()).unwrap_or(u64::MAX);
        self.0.lock().unwrap().push(idx);
        if idx >= 1000 {
            // a sink that rejects this entry loudly (caught by whoever dropped the entry)
            std::panic::panic_any("harness: the sink panics on this entry");
        }
    }
    fn flush_async(&self) -> FlushWait {
        FlushWait::ready()
    }
}

/// an entry without any field: its closed form is zero-sized (a marker event: "this happened")
#[metrics]
#[derive(Default)]
pub struct Marker {}

#[derive(Clone)]
pub struct MarkerSink(Arc<Mutex<Vec<u64>>>, u64);
impl EntrySink<RootMetric<Marker>> for MarkerSink {
    fn append(&self, _entry: RootMetric<Marker>) {
        self.0.lock().unwrap().push(self.1);
    }
    fn flush_async(&self) -> FlushWait {
        FlushWait::ready()
    }
}

fn chain_part(sink: &LinkSink, depth: u64, panics: u64, base: u64) {
    // an entry that holds one of its own force-flush guards (recorded as 900 + base / 100): the owner goes first, a
    // flush guard keeps the entry back, a second force-flush guard releases it - and the emission drops the first
    {
        // (before it: an entry of the same thread that is already emitted, whose force-flush guard is still around -
        // dropping that stale guard later concerns nobody else)
        let earlier = Link { idx: 950 + base / 100, next: Holder(None), next_force: ForceHolder(None), own_guard: None }.append_on_drop(sink.clone());
        let stale = earlier.force_flush_guard();
        drop(earlier);
        let mut m = Link { idx: 900 + base / 100, next: Holder(None), next_force: ForceHolder(None), own_guard: None }.append_on_drop(sink.clone());
        let keep = m.flush_guard();
        m.own_guard = Some(m.force_flush_guard());
        let trigger = m.force_flush_guard();
        drop(m);
        detsim::yield_point();
        drop(stale);
        if sink.0.lock().unwrap().contains(&(900 + base / 100)) {
            // marker: emitted by the drop of a force-flush guard that belongs to another entry
            sink.0.lock().unwrap().push(999_999);
        }
        drop(trigger);
        if !sink.0.lock().unwrap().contains(&(900 + base / 100)) {
            // marker: a force-flush guard was dropped (after the owner) and the entry is still not out
            sink.0.lock().unwrap().push(999_997);
        }
        drop(keep);
    }
    // entry A (960 + ...) holds a force-flush guard of entry B (970 + ...). B's owner is gone, a flush guard keeps it
    // back. A is emitted by one of its own force-flush guards; closing A drops B's guard: B goes out nested inside.
    {
        let b = Link { idx: 970 + base / 100, next: Holder(None), next_force: ForceHolder(None), own_guard: None }.append_on_drop(sink.clone());
        let keep_b = b.flush_guard();
        let force_b = b.force_flush_guard();
        drop(b);
        let mut a = Link { idx: 960 + base / 100, next: Holder(None), next_force: ForceHolder(None), own_guard: None }.append_on_drop(sink.clone());
        a.next_force = ForceHolder(Some(force_b));
        let keep_a = a.flush_guard();
        let trigger_a = a.force_flush_guard();
        drop(a);
        detsim::yield_point();
        drop(trigger_a);
        {
            let got = sink.0.lock().unwrap().clone();
            if !(got.contains(&(960 + base / 100)) && got.contains(&(970 + base / 100))) {
                sink.0.lock().unwrap().push(999_998);
            }
        }
        drop(keep_a);
        drop(keep_b);
    }
    // a field-less marker entry (recorded as 500_000 + base), with a flush guard that outlives the owner
    {
        let m = Marker::default().append_on_drop(MarkerSink(sink.0.clone(), 500_000 + base));
        let g = m.flush_guard();
        drop(m);
        detsim::yield_point();
        drop(g);
    }
    {
        // entries whose append panics, one after the other on this thread
        for k in 0..panics {
            let e = Link { idx: 1000 + base + k, next: Holder(None), next_force: ForceHolder(None), own_guard: None }.append_on_drop(sink.clone());
            if k % 2 == 0 {
                let _ = std::panic::catch_unwind(std::panic::AssertUnwindSafe(move || drop(e)));
            } else {
                // ... or the emission that panics is one triggered by a force-flush guard
                let keep = e.flush_guard();
                let trigger = e.force_flush_guard();
                drop(e);
                let _ = std::panic::catch_unwind(std::panic::AssertUnwindSafe(move || drop(trigger)));
                drop(keep);
            }
        }
        // a chain: entry i holds the flush guard of entry i+1 and releases it while being closed
        let mut owners: Vec<AppendAndCloseOnDrop<Link, LinkSink>> = (0..depth).map(|i| Link { idx: base + i, next: Holder(None), next_force: ForceHolder(None), own_guard: None }.append_on_drop(sink.clone())).collect();
        for i in (0..owners.len().saturating_sub(1)).rev() {
            let g = owners[i + 1].flush_guard();
            owners[i].next = Holder(Some(g));
        }
        // every owner but the head goes first (nothing is emitted: each waits for its predecessor)
        while owners.len() > 1 {
            drop(owners.pop());
            detsim::yield_point();
        }
        drop(owners.pop());
    }
}

fn chain_main(plan: &Value, got: Arc<Mutex<Vec<u64>>>) {
    let sink = LinkSink(got);
    let parts: Vec<Value> = ja(plan, "parts").to_vec();
    let mut hs = vec![];
    for (ti, th) in ja(plan, "threads").iter().enumerate() {
        let parts: Vec<Value> = th.as_array().cloned().unwrap_or_default();
        let sk = sink.clone();
        hs.push(detsim::thread::spawn_named(&format!("c{}", ti + 1), move || {
            for p in &parts {
                chain_part(&sk, ju(p, "depth", 1), ju(p, "panics", 0), ju(p, "base", 0));
            }
        }));
    }
    for p in &parts {
        chain_part(&sink, ju(p, "depth", 1), ju(p, "panics", 0), ju(p, "base", 0));
    }
    for h in hs {
        let _ = h.join();
    }
}

pub struct UowChain;

impl Scenario for UowChain {
    fn name(&self) -> &'static str {
        "uow_chain"
    }
    fn property(&self) -> &'static str {
        "C06"
    }
    fn weight(&self, _tier: Tier) -> u32 {
        1
    }
    fn generate(&self, rng: &mut Rng, _tier: Tier) -> Value {
        let mut base = 0u64;
        let mut mk_parts = |rng: &mut Rng| -> Vec<Value> {
            (0..1 + rng.below(3))
                .map(|_| {
                    let depth = *rng.pick(&[1u64, 2, 3, 5, 9, 12, 17, 40]);
                    let panics = *rng.pick(&[0u64, 0, 1, 3, 8, 9, 20]);
                    let p = json!({"depth": depth, "panics": panics, "base": base});
                    base += 100;
                    p
                })
                .collect()
        };
        let parts = mk_parts(rng);
        let threads: Vec<Vec<Value>> = (0..rng.below(2)).map(|_| mk_parts(rng)).collect();
        let sched = gen_sched(rng, &SchedOpts { est_choices: 100, threads: 2, jump_max_ns: 0, stall_clock_max_ns: 0, max_steps: 60_000 });
        json!({"sched": sched, "parts": parts, "threads": threads})
    }
    fn run(&self, plan: &Value) -> Report {
        let sched = sched_from_plan(plan);
        let got: Arc<Mutex<Vec<u64>>> = Arc::new(Mutex::new(vec![]));
        let (g2, p2) = (got.clone(), plan.clone());
        let (out, _) = detsim::run(sched, move || chain_main(&p2, g2));
        let got = got.lock().unwrap().clone();
        let mut r = Report::default();
        r.nontrivial = true;
        r.case_sig = mix(out.sig, hash_value(&json!([plan.get("parts"), plan.get("threads")])));
        let failure = out.failure.clone();
        let mp = out.main_panic.clone();
        absorb_outcome(&mut r, out);
        let mut all_parts: Vec<Value> = ja(plan, "parts").to_vec();
        for t in ja(plan, "threads") {
            all_parts.extend(t.as_array().cloned().unwrap_or_default());
        }
        let mut max_depth = 0;
        let mut panics = 0;
        if failure.is_none() && mp.is_none() {
            'parts: for p in &all_parts {
                let (depth, base) = (ju(p, "depth", 1), ju(p, "base", 0));
                max_depth = max_depth.max(depth);
                panics += ju(p, "panics", 0);
                if got.contains(&999_997) || got.contains(&999_998) {
                    r.violation = Some(Violation::new(
                        "appended_too_late",
                        if got.contains(&999_997) {
                            "owner dropped, then a force-flush guard of the entry dropped: the entry was still not appended when that drop returned (earlier on this thread an emission triggered the same way had panicked in the sink)".to_string()
                        } else {
                            "entry A, emitted by one of its force-flush guards, drops a force-flush guard of entry B while it is closed: B (owner gone, a flush guard alive) was not appended by that drop".to_string()
                        },
                    ));
                    break 'parts;
                }
                for k in [960u64, 970] {
                    if got.iter().filter(|x| **x == k + base / 100).count() != 1 {
                        r.violation = Some(Violation::new("appended_twice", format!("entry {} of the nested force-flush pair was not appended exactly once", k + base / 100)));
                        break 'parts;
                    }
                }
                if got.contains(&999_999) {
                    r.violation = Some(Violation::new(
                        "appended_too_early",
                        "an entry whose owner was dropped but whose flush guard was alive was appended when a force-flush guard of an *earlier, already emitted* entry of the same thread was dropped".to_string(),
                    ));
                    break 'parts;
                }
                if got.iter().filter(|x| **x == 950 + base / 100).count() != 1 {
                    r.violation = Some(Violation::new("never_appended", "an entry without guards was not appended exactly once at its owner's drop".to_string()));
                    break 'parts;
                }
                let selfg = got.iter().filter(|x| **x == 900 + base / 100).count();
                if selfg != 1 {
                    r.violation = Some(Violation::new(
                        if selfg == 0 { "never_appended" } else { "appended_twice" },
                        format!("an entry holding one of its own force-flush guards was appended {selfg} times after its owner and another force-flush guard were dropped"),
                    ));
                    break 'parts;
                }
                let markers = got.iter().filter(|x| **x == 500_000 + base).count();
                if markers != 1 {
                    r.violation = Some(Violation::new(
                        if markers == 0 { "never_appended" } else { "appended_twice" },
                        format!("a field-less marker entry (zero-sized when closed) was appended {markers} times after its owner and its flush guard were dropped"),
                    ));
                    break 'parts;
                }
                for i in 0..depth {
                    let n = got.iter().filter(|x| **x == base + i).count();
                    if n != 1 {
                        r.violation = Some(Violation::new(
                            if n == 0 { "never_appended" } else { "appended_twice" },
                            format!("entry {} of a chain of {depth} entries (each releasing the next one's flush guard while it is closed; {} appends had panicked on this thread before) was appended {n} times", base + i, ju(p, "panics", 0)),
                        ));
                        break 'parts;
                    }
                }
            }
        }
        r.probe("nested_emission_depth_over_8", (max_depth > 8) as u64);
        r.probe("appends_that_panicked", panics);
        r.fault("sink_panics", panics);
        r.states = vec![mix(max_depth.min(20), panics.min(20))];
        r.sample = Some(json!({"parts": plan.get("parts"), "appended": got.iter().take(40).collect::<Vec<_>>()}));
        if r.violation.is_none() {
            match failure {
                None => {}
                Some(f @ detsim::Failure::Deadlock { .. }) => r.violation = Some(Violation::new("deadlock", format!("{f:?}"))),
                Some(detsim::Failure::StepLimit { .. }) => r.inconclusive = true,
                Some(f) => r.harness_error = Some(format!("simulation failed: {f:?}")),
            }
            if let Some(p) = mp {
                if r.violation.is_none() {
                    r.violation = Some(Violation::new("panic", format!("a thread emitting unit-of-work entries panicked: {p}")));
                }
            }
        }
        r
    }
    fn probes(&self) -> Vec<&'static str> {
        vec!["nested_emission_depth_over_8", "appends_that_panicked"]
    }
    fn components(&self) -> Value {
        uow_components()
    }
    fn rule(&self) -> &'static str {
        "each run: on 1-2 threads, 1-3 parts each: first 0-20 entries whose sink panics in append (caught), then a chain of 1-40 entries where closing entry i releases the flush guard of entry i+1 (emissions nest, one level per link); every chain entry must be appended exactly once. non-trivial = every run; distinct = distinct plans"
    }
}
