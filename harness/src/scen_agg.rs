//! C10 — aggregation conserves inputs. Real code: KeyedAggregator, Aggregate, MutexSink,
//! WorkerSink (thread + channel + timed flush), TeeSink, NonAggregatedSink, CloseAndMergeOnDrop,
//! the #[aggregate] / #[metrics] expansions, Sum / KeepLast / Histogram<SortAndMerge>.
//! Harness: producers, `Logged` wrapper (records merge order / flush brackets / Drop),
//! `CaptureSink` (records every emitted aggregate), reference fold.

#![allow(deprecated)]

use std::collections::{BTreeMap, BTreeSet, HashMap};
use std::sync::atomic::{AtomicU64, Ordering};
use std::sync::{Arc, Mutex};
use detsim::sync::Mutex as SimMutex;
use std::time::Duration;

use detsim::rng::{mix, Rng};
use metrique::unit_of_work::metrics;
use metrique::{CloseValue, RootEntry};
use metrique_aggregation::aggregate;
use metrique_aggregation::aggregator::{Aggregate, KeyedAggregator};
use metrique_aggregation::histogram::{Histogram, SortAndMerge};
use metrique_aggregation::sink::{non_aggregate, MutexSink, TeeSink, WorkerSink};
use metrique_aggregation::traits::{AggregateSink, AggregateSinkRef, AggregateStrategy, FlushableSink, Key};
use metrique_aggregation::value::{Distribution, Flatten, KeepLast, MergeOptions, Sum};
use metrique_writer::test_util::{to_test_entry, TestEntry};
use metrique_writer::{AnyEntrySink, Entry, Observation};
use metrique_writer_core::sink::FlushWait;
use serde_json::{json, Value};

use crate::framework::*;

// ------------------------------------------------------------------------------------------
// entry types (real macro expansions)
// ------------------------------------------------------------------------------------------

#[aggregate(ref)]
#[metrics]
pub struct Call {
    #[aggregate(key)]
    endpoint: String,
    #[aggregate(strategy = Sum)]
    weight: u64,
    #[aggregate(strategy = KeepLast)]
    last: u64,
    #[aggregate(strategy = Histogram<u64, SortAndMerge>)]
    ident: u64,
    /// a non-Copy field merged by clone when the source is merged by reference
    #[aggregate(strategy = KeepLast, clone)]
    tag: String,
    /// keep-last over an optional value: `None` is a value like any other (absent when it came last)
    #[aggregate(strategy = KeepLast)]
    opt_last: Option<u64>,
    /// the sum of the values that are present (absent ones are skipped)
    #[aggregate(strategy = MergeOptions<Sum>)]
    opt_sum: Option<u64>,
    /// the last value that was present (an absent one does not overwrite it)
    #[aggregate(strategy = MergeOptions<KeepLast>)]
    opt_keep: Option<u64>,
    /// every value, equal ones merged
    #[aggregate(strategy = Distribution)]
    dist: u64,
    /// floating-point values, among them both infinities (which are values like any other; only NaN is not)
    #[aggregate(strategy = Distribution)]
    fdist: f64,
    /// small values, zero among them, in the default (bucketed) histogram: conserved by count
    #[aggregate(strategy = Histogram<u64>)]
    small: u64,
}

#[aggregate]
#[metrics]
pub struct Child {
    #[aggregate(strategy = Sum)]
    cw: u64,
    #[aggregate(strategy = KeepLast)]
    cl: u64,
}

/// what an input carries in the fields derived from (weight, last)
fn opt_sum_of(i: &Input) -> Option<u64> {
    if i.last % 2 == 0 { Some(i.weight) } else { None }
}
fn fdist_of(i: &Input) -> f64 {
    // (NaN of either sign is not an observation: sort-and-merge leaves it out, everything else stays)
    match i.last % 11 {
        3 => return -f64::NAN,
        4 => return f64::NAN,
        _ => {}
    }
    match i.weight % 7 {
        0 => f64::INFINITY,
        1 => f64::NEG_INFINITY,
        r => r as f64 + 0.5,
    }
}
fn child_of(i: &Input) -> Child {
    Child { cw: i.weight * 3, cl: i.last + 1 }
}

#[aggregate]
#[metrics]
pub struct Plain {
    #[aggregate(strategy = Sum)]
    weight: u64,
    #[aggregate(strategy = KeepLast)]
    last: u64,
    #[aggregate(strategy = Histogram<u64, SortAndMerge>)]
    ident: u64,
    /// a field that already is a distribution when it is merged: the value `weight % 3`, recorded
    /// `1 + id % 3` times (equal values recur across inputs, with multiplicities)
    #[aggregate(strategy = Histogram<u64, SortAndMerge>)]
    multi: Histogram<u64, SortAndMerge>,
    #[aggregate(strategy = KeepLast)]
    opt_last: Option<u64>,
    /// the sum of the values that are present (absent ones are skipped)
    #[aggregate(strategy = MergeOptions<Sum>)]
    opt_sum: Option<u64>,
    /// the last value that was present (an absent one does not overwrite it)
    #[aggregate(strategy = MergeOptions<KeepLast>)]
    opt_keep: Option<u64>,
    /// every value, equal ones merged
    #[aggregate(strategy = Distribution)]
    dist: u64,
    /// floating-point values, among them both infinities (which are values like any other; only NaN is not)
    #[aggregate(strategy = Distribution)]
    fdist: f64,
    /// small values, zero among them, in the default (bucketed) histogram: conserved by count
    #[aggregate(strategy = Histogram<u64>)]
    small: u64,
    /// an aggregatable child, merged field by field
    #[aggregate(strategy = Flatten)]
    #[metrics(flatten)]
    child: Child,
}

/// the optional companion of `last`: absent for every third value
fn opt_of(last: u64) -> Option<u64> {
    if last % 3 == 0 { None } else { Some(last) }
}

fn mk_plain(i: &Input) -> Plain {
    let mut multi: Histogram<u64, SortAndMerge> = Histogram::default();
    for _ in 0..(1 + i.id % 3) {
        multi.add_value(i.weight % 3);
    }
    Plain { weight: i.weight, last: i.last, ident: i.id, multi, opt_last: opt_of(i.last), opt_sum: opt_sum_of(i), opt_keep: opt_of(i.last), dist: i.weight % 5, fdist: fdist_of(i), small: i.weight % 4, child: child_of(i) }
}

/// an aggregate embedded in a parent unit-of-work entry (closed together with it)
#[metrics]
pub struct ParentE {
    request: u64,
    #[metrics(flatten)]
    calls: Aggregate<Plain>,
}

/// second keying of the same source (tee branch): by parity of the weight
pub struct ByParity;

#[derive(Clone, PartialEq, Eq)]
#[metrics]
pub struct ParityKey {
    odd: bool,
    band: u64,
}

/// Distinct keys with *equal hashes*: only `odd` is hashed, so the three bands of each parity
/// collide completely and the aggregator has to tell them apart by equality.
impl std::hash::Hash for ParityKey {
    fn hash<H: std::hash::Hasher>(&self, state: &mut H) {
        self.odd.hash(state)
    }
}

pub struct ParityKeyExtractor;

impl Key<CallEntry> for ParityKeyExtractor {
    type Key<'a> = ParityKey;
    fn from_source(source: &CallEntry) -> Self::Key<'_> {
        ParityKey { odd: source.weight % 2 == 1, band: (source.weight / 2) % 3 }
    }
    fn static_key<'a>(key: &Self::Key<'a>) -> Self::Key<'static> {
        key.clone()
    }
    fn static_key_matches<'a>(owned: &Self::Key<'static>, borrowed: &Self::Key<'a>) -> bool {
        owned == borrowed
    }
}

impl AggregateStrategy for ByParity {
    type Source = CallEntry;
    type Key = ParityKeyExtractor;
}

// ------------------------------------------------------------------------------------------
// log
// ------------------------------------------------------------------------------------------

#[derive(Clone, Debug)]
pub enum AK {
    SendBegin { id: u64 },
    SendEnd { id: u64 },
    Merge { tag: u32, id: u64 },
    FlushBegin { tag: u32 },
    FlushEnd { tag: u32 },
    Emit { sink: u32, keys: Vec<(String, String)>, weight: Option<u64>, last: Option<u64>, ids: Vec<(u64, u64)>, raw_id: Option<u64>, tag: Option<String>, multi: Vec<(u64, u64)>, opt_last: Option<u64>, extra: BTreeMap<String, u64>, dist: Vec<(u64, u64)>, fdist: Vec<(String, u64)> },
    LoggedDrop { tag: u32 },
    FlushReq { fid: u64 },
    FlushDone { fid: u64 },
    FlushCancelled { fid: u64 },
    CloseBegin,
    CloseEnd,
    /// fault `user_merge_panics`: the wrapped sink's merge panics for this input (inside the MutexSink lock / on the worker thread)
    MergePanic { tag: u32, id: u64 },
    SendPanicked { id: u64 },
    FlushPanicked { fid: u64 },
    ClosePanicked,
    HandleDropped,
    Phase(&'static str),
}

#[derive(Clone, Debug)]
pub struct AEv {
    pub seq: u64,
    pub tid: usize,
    pub clock: u64,
    pub k: AK,
}

#[derive(Clone, Default)]
/// (second part: a lock that stands for a shared output - every capture sink of the run takes it while it writes)
pub struct ALog(Arc<Mutex<Vec<AEv>>>, Arc<SimMutex<()>>);

impl ALog {
    pub fn log(&self, k: AK) -> u64 {
        let seq = detsim::next_seq();
        self.0.lock().unwrap().push(AEv { seq, tid: detsim::current_tid().unwrap_or(0), clock: detsim::run_clock_ns(), k });
        seq
    }
    pub fn snapshot(&self) -> Vec<AEv> {
        self.0.lock().unwrap().clone()
    }
}

thread_local! {
    // `Logged: Default` (needed by MutexSink::close) has no way to receive the log handle
    static CURRENT_LOG: std::cell::RefCell<Option<ALog>> = const { std::cell::RefCell::new(None) };
}
static GLOBAL_LOG: Mutex<Option<ALog>> = Mutex::new(None);
/// inputs whose merge panics (plan key `poison`)
static POISON: Mutex<BTreeSet<u64>> = Mutex::new(BTreeSet::new());

/// the worker falls behind: the first merge of the run takes this long (simulated time)
static FIRST_MERGE_SLEEP_NS: AtomicU64 = AtomicU64::new(0);

fn maybe_poison(log: &ALog, tag: u32, id: u64) {
    let ns = FIRST_MERGE_SLEEP_NS.swap(0, Ordering::SeqCst);
    if ns > 0 {
        detsim::sleep_ns(ns);
    }
    if POISON.lock().unwrap_or_else(|e| e.into_inner()).contains(&id) {
        log.log(AK::MergePanic { tag, id });
        std::panic::panic_any("harness: merging this input panics (user code inside the aggregation sink)");
    }
}

fn global_log() -> ALog {
    GLOBAL_LOG.lock().unwrap().clone().unwrap_or_default()
}

/// Records merge order, flush brackets and its own Drop; forwards everything to `inner`.
pub struct Logged<Inner> {
    inner: Option<Inner>,
    tag: u32,
    log: ALog,
}

impl<Inner> Logged<Inner> {
    pub fn new(inner: Inner, tag: u32, log: ALog) -> Self {
        Logged { inner: Some(inner), tag, log }
    }
}

impl<Inner: Default> Default for Logged<Inner> {
    fn default() -> Self {
        Logged { inner: Some(Inner::default()), tag: 99, log: global_log() }
    }
}

impl<Inner> Drop for Logged<Inner> {
    fn drop(&mut self) {
        self.log.log(AK::LoggedDrop { tag: self.tag });
    }
}

pub trait HasId {
    fn the_id(&self) -> u64;
}
impl HasId for CallEntry {
    fn the_id(&self) -> u64 {
        self.ident
    }
}
impl HasId for PlainEntry {
    fn the_id(&self) -> u64 {
        self.ident
    }
}

impl<T: HasId, Inner: AggregateSink<T>> AggregateSink<T> for Logged<Inner> {
    fn merge(&mut self, entry: T) {
        detsim::yield_point();
        maybe_poison(&self.log, self.tag, entry.the_id());
        self.log.log(AK::Merge { tag: self.tag, id: entry.the_id() });
        self.inner.as_mut().unwrap().merge(entry);
    }
}

impl<T: HasId, Inner: AggregateSinkRef<T>> AggregateSinkRef<T> for Logged<Inner> {
    fn merge_ref(&mut self, entry: &T) {
        detsim::yield_point();
        maybe_poison(&self.log, self.tag, entry.the_id());
        self.log.log(AK::Merge { tag: self.tag, id: entry.the_id() });
        self.inner.as_mut().unwrap().merge_ref(entry);
    }
}

impl<Inner: FlushableSink> FlushableSink for Logged<Inner> {
    fn flush(&mut self) {
        self.log.log(AK::FlushBegin { tag: self.tag });
        detsim::yield_point();
        self.inner.as_mut().unwrap().flush();
        self.log.log(AK::FlushEnd { tag: self.tag });
    }
}

impl<Inner: CloseValue> CloseValue for Logged<Inner> {
    type Closed = Inner::Closed;
    fn close(mut self) -> Self::Closed {
        self.inner.take().unwrap().close()
    }
}

/// Records every entry appended to it.
#[derive(Clone)]
pub struct CaptureSink {
    no: u32,
    log: ALog,
}

fn obs_pairs(d: &[Observation]) -> Vec<(u64, u64)> {
    d.iter()
        .map(|o| match o {
            Observation::Unsigned(v) => (*v, 1),
            Observation::Floating(f) => (*f as u64, 1),
            Observation::Repeated { total, occurrences } => {
                if *occurrences == 0 { (0, 0) } else { ((*total / *occurrences as f64).round() as u64, *occurrences) }
            }
            _ => (u64::MAX, 0),
        })
        .collect()
}

fn emit_from(no: u32, t: &TestEntry, raw: bool) -> AK {
    let mut keys: Vec<(String, String)> = vec![];
    for name in ["endpoint"] {
        if let Some(v) = t.values.get(name) {
            keys.push((name.to_string(), v.clone()));
        }
    }
    if let Some(m) = t.metrics.get("odd") {
        keys.push(("odd".into(), format!("{}", m.as_u64())));
    }
    if let Some(m) = t.metrics.get("band") {
        keys.push(("band".into(), format!("{}", m.as_u64())));
    }
    let weight = t.metrics.get("weight").map(|m| m.as_u64());
    let last = t.metrics.get("last").map(|m| m.as_u64());
    let ids = t.metrics.get("ident").map(|m| obs_pairs(&m.distribution)).unwrap_or_default();
    let raw_id = if raw { ids.first().map(|p| p.0) } else { None };
    let tag = t.values.get("tag").cloned();
    let multi = t.metrics.get("multi").map(|m| obs_pairs(&m.distribution)).unwrap_or_default();
    let opt_last = t.metrics.get("opt_last").map(|m| m.as_u64());
    let mut extra = BTreeMap::new();
    for name in ["opt_sum", "opt_keep", "cw", "cl"] {
        if let Some(m) = t.metrics.get(name) {
            extra.insert(name.to_string(), m.as_u64());
        }
    }
    if let Some(m) = t.metrics.get("small") {
        // (bucketed: only the number of observations is exact)
        let n: u64 = m.distribution.iter().map(|o| match o {
            Observation::Repeated { occurrences, .. } => *occurrences,
            _ => 1,
        }).sum();
        extra.insert("small_n".to_string(), n);
    }
    let dist = t.metrics.get("dist").map(|m| obs_pairs(&m.distribution)).unwrap_or_default();
    // (value as text, occurrences) of the floating-point distribution
    let fdist: Vec<(String, u64)> = t.metrics.get("fdist").map(|m| m.distribution.iter().map(|o| match o {
        Observation::Unsigned(v) => (format!("{:?}", *v as f64), 1),
        Observation::Floating(f) => (format!("{f:?}"), 1),
        Observation::Repeated { total, occurrences } => (format!("{:?}", if *occurrences == 0 { 0.0 } else { *total / *occurrences as f64 }), *occurrences),
        _ => ("?".to_string(), 0),
    }).collect()).unwrap_or_default();
    AK::Emit { sink: no, keys, weight, last, ids, raw_id, tag, multi, opt_last, extra, dist, fdist }
}

impl AnyEntrySink for CaptureSink {
    fn append_any(&self, entry: impl Entry + Send + 'static) {
        let _out = self.log.1.lock().unwrap_or_else(|e| e.into_inner());
        detsim::yield_point();
        let t = to_test_entry(entry);
        let raw = self.no >= 100;
        self.log.log(emit_from(self.no, &t, raw));
    }
    fn flush_async(&self) -> FlushWait {
        FlushWait::ready()
    }
}

// ------------------------------------------------------------------------------------------
// the run
// ------------------------------------------------------------------------------------------

#[derive(Clone, Debug)]
struct Input {
    id: u64,
    key: String,
    weight: u64,
    last: u64,
}

fn inputs_of(plan: &Value) -> HashMap<u64, Input> {
    let mut m = HashMap::new();
    let mut visit = |ops: &[Value]| {
        for op in ops {
            if js(op, "op", "") == "send" {
                let id = ju(op, "id", 0);
                m.insert(id, Input { id, key: js(op, "key", "k0").to_string(), weight: ju(op, "weight", 0), last: ju(op, "last", 0) });
            }
            if js(op, "op", "") == "send_many" {
                // `n` inputs with consecutive ids, spread over `keys` keys
                for j in 0..ju(op, "n", 0) {
                    let id = ju(op, "first_id", 0) + j;
                    m.insert(id, Input { id, key: format!("b{}", j % ju(op, "keys", 1).max(1)), weight: j % 7, last: j });
                }
            }
        }
    };
    visit(ja(plan, "main_ops"));
    for p in ja(plan, "threads") {
        visit(p.as_array().map(|a| a.as_slice()).unwrap_or(&[]));
    }
    m
}

#[derive(Clone, Default)]
pub struct AggRun {
    pub hist: Vec<AEv>,
    pub worker_finished: bool,
    pub worker_existed: bool,
}

fn mk_call(i: &Input) -> Call {
    Call { endpoint: i.key.clone(), weight: i.weight, last: i.last, ident: i.id, tag: format!("t{}", i.last), opt_last: opt_of(i.last), opt_sum: opt_sum_of(i), opt_keep: opt_of(i.last), dist: i.weight % 5, fdist: fdist_of(i), small: i.weight % 4 }
}

enum Target {
    Keyed(SimMutex<Logged<KeyedAggregator<Call, CaptureSink>>>),
    Tee(SimMutex<Logged<TeeSink<KeyedAggregator<Call, CaptureSink>, TeeSink<KeyedAggregator<ByParity, CaptureSink>, metrique_aggregation::sink::NonAggregatedSink<CaptureSink>>>>>),
    Worker(SimMutex<Option<WorkerSink<CallEntry, Logged<KeyedAggregator<Call, CaptureSink>>>>>),
    WorkerTee(SimMutex<Option<WorkerSink<CallEntry, Logged<TeeSink<KeyedAggregator<Call, CaptureSink>, TeeSink<KeyedAggregator<ByParity, CaptureSink>, metrique_aggregation::sink::NonAggregatedSink<CaptureSink>>>>>>>),
    MutexPlain(SimMutex<Option<MutexSink<Logged<Aggregate<Plain>>>>>),
    Embedded(SimMutex<Option<ParentE>>),
}

struct ARun {
    log: ALog,
    target: Target,
    next_fid: AtomicU64,
    inputs: HashMap<u64, Input>,
    use_guard: bool,
    long_lived: bool,
}

/// Drop a merge-on-drop guard, optionally as a local of a scope that unwinds.
fn drop_guard<G>(g: G, unwind: bool) {
    if unwind {
        let _ = std::panic::catch_unwind(std::panic::AssertUnwindSafe(move || {
            let _local = g;
            std::panic::resume_unwind(Box::new("harness: unwinding through the scope that owns the guard"));
        }));
    } else {
        drop(g);
    }
}

fn a_send(r: &ARun, id: u64, unwind: bool) {
    let Some(i) = r.inputs.get(&id) else { return };
    r.log.log(AK::SendBegin { id });
    let res = std::panic::catch_unwind(std::panic::AssertUnwindSafe(|| match &r.target {
        Target::Keyed(m) => m.lock().unwrap().merge(mk_call(i).close()),
        Target::Tee(m) => m.lock().unwrap().merge(mk_call(i).close()),
        Target::Worker(w) if r.long_lived && !r.use_guard => {
            // every thread keeps one handle of its own for as long as it lives and sends through it by reference
            TL_WORKER.with(|c| {
                if c.borrow().is_none() {
                    *c.borrow_mut() = w.lock().unwrap().clone();
                }
                if let Some(h) = c.borrow().as_ref() {
                    h.send(mk_call(i).close());
                }
            });
        }
        Target::Worker(w) => {
            let h = w.lock().unwrap().clone();
            if let Some(h) = h {
                if r.use_guard {
                    let mut g = mk_call(i).close_and_merge(h);
                    detsim::yield_point();
                    g.last = i.last; // mutate through the guard before the drop
                    drop_guard(g, unwind);
                } else {
                    h.send(mk_call(i).close());
                }
            }
        }
        Target::WorkerTee(w) => {
            let h = w.lock().unwrap().clone();
            if let Some(h) = h {
                h.send(mk_call(i).close());
            }
        }
        Target::MutexPlain(m) => {
            let h = m.lock().unwrap().clone();
            if let Some(h) = h {
                let g = mk_plain(i).close_and_merge(h);
                detsim::yield_point();
                drop_guard(g, unwind);
            }
        }
        Target::Embedded(m) => {
            if let Some(p) = m.lock().unwrap().as_mut() {
                r.log.log(AK::Merge { tag: 1, id });
                let e = mk_plain(i);
                if id % 2 == 0 {
                    p.calls.insert(e);
                } else {
                    p.calls.insert_direct(e.close());
                }
            }
        }
    }));
    match res {
        Ok(()) => r.log.log(AK::SendEnd { id }),
        Err(_) => r.log.log(AK::SendPanicked { id }),
    };
}

fn a_flush(r: &ARun, op: &Value) {
    let fid = r.next_fid.fetch_add(1, Ordering::SeqCst);
    match &r.target {
        Target::Keyed(m) => {
            r.log.log(AK::FlushReq { fid });
            m.lock().unwrap().flush();
            r.log.log(AK::FlushDone { fid });
        }
        Target::Tee(m) => {
            r.log.log(AK::FlushReq { fid });
            m.lock().unwrap().flush();
            r.log.log(AK::FlushDone { fid });
        }
        Target::Worker(w) => {
            let h = w.lock().unwrap().clone();
            if let Some(h) = h {
                flush_worker(r, fid, op, h.flush());
            }
        }
        Target::WorkerTee(w) => {
            let h = w.lock().unwrap().clone();
            if let Some(h) = h {
                flush_worker(r, fid, op, h.flush());
            }
        }
        Target::MutexPlain(_) | Target::Embedded(_) => {}
    }
}

fn flush_worker(r: &ARun, fid: u64, op: &Value, fut: impl std::future::Future<Output = ()>) {
    r.log.log(AK::FlushReq { fid });
    let cancel = js(op, "mode", "await") == "cancel";
    let res = std::panic::catch_unwind(std::panic::AssertUnwindSafe(move || {
        if cancel {
            let mut f = std::pin::pin!(fut);
            detsim::future::poll_once(&mut f)
        } else {
            detsim::future::block_on(fut);
            std::task::Poll::Ready(())
        }
    }));
    match res {
        Ok(std::task::Poll::Ready(())) => r.log.log(AK::FlushDone { fid }),
        Ok(std::task::Poll::Pending) => r.log.log(AK::FlushCancelled { fid }),
        // the request failed loudly (the worker is gone): not a completion
        Err(_) => r.log.log(AK::FlushPanicked { fid }),
    };
}

thread_local! {
    /// plan key `long_lived_handles`: the handle of the worker sink this thread keeps for its whole life
    static TL_WORKER: std::cell::RefCell<Option<WorkerSink<CallEntry, Logged<KeyedAggregator<Call, CaptureSink>>>>> = const { std::cell::RefCell::new(None) };
}

fn a_ops(r: &Arc<ARun>, ops: &[Value]) {
    a_ops_inner(r, ops);
    // the thread's own handle goes away with the thread
    let h = TL_WORKER.with(|c| c.borrow_mut().take());
    if h.is_some() {
        detsim::yield_point();
        drop(h);
    }
}

fn a_ops_inner(r: &Arc<ARun>, ops: &[Value]) {
    for op in ops {
        match js(op, "op", "") {
            "send" => a_send(r, ju(op, "id", 0), jb(op, "unwind", false)),
            "send_many" => {
                for j in 0..ju(op, "n", 0) {
                    a_send(r, ju(op, "first_id", 0) + j, false);
                }
            }
            "flush" => a_flush(r, op),
            "close_clone" => {
                // a clone of the shared sink is closed in the middle of the run (the parent entry that embeds it is
                // emitted) while the other handles stay in use: what was merged so far is emitted now, what is merged
                // later belongs to the next close
                if let Target::MutexPlain(m) = &r.target {
                    let h = m.lock().unwrap().clone();
                    if let Some(h) = h {
                        r.log.log(AK::Phase("early_close"));
                        if let Ok(closed) = std::panic::catch_unwind(std::panic::AssertUnwindSafe(move || h.close())) {
                            let t = to_test_entry(RootEntry::new(closed));
                            r.log.log(emit_from(0, &t, false));
                        }
                    }
                }
            }
            "sleep" => detsim::sleep_ns(ju(op, "ns", 0)),
            "yield" => detsim::yield_point(),
            _ => {}
        }
    }
}

fn tee_sink(log: &ALog) -> TeeSink<KeyedAggregator<Call, CaptureSink>, TeeSink<KeyedAggregator<ByParity, CaptureSink>, metrique_aggregation::sink::NonAggregatedSink<CaptureSink>>> {
    TeeSink::new(
        KeyedAggregator::<Call, CaptureSink>::new(CaptureSink { no: 0, log: log.clone() }),
        TeeSink::new(
            KeyedAggregator::<ByParity, CaptureSink>::new(CaptureSink { no: 1, log: log.clone() }),
            non_aggregate(CaptureSink { no: 100, log: log.clone() }),
        ),
    )
}

fn agg_main(plan: &Value, slot: Arc<Mutex<Option<AggRun>>>, log: ALog) {
    *GLOBAL_LOG.lock().unwrap() = Some(log.clone());
    *POISON.lock().unwrap_or_else(|e| e.into_inner()) = ja(plan, "poison").iter().filter_map(|x| x.as_u64()).collect();
    FIRST_MERGE_SLEEP_NS.store(ju(plan, "first_merge_sleep_ns", 0), Ordering::SeqCst);
    let kind = js(plan, "kind", "keyed").to_string();
    // u64::MAX stands for Duration::MAX ("timer off")
    let interval = match ju(plan, "flush_interval_ns", 1_000_000_000) {
        u64::MAX => Duration::MAX,
        ns => Duration::from_nanos(ns.max(1)),
    };
    let before: BTreeSet<usize> = detsim::live_threads().into_iter().map(|t| t.0).collect();
    let target = match kind.as_str() {
        "tee" => Target::Tee(SimMutex::new(Logged::new(tee_sink(&log), 1, log.clone()))),
        "worker" => Target::Worker(SimMutex::new(Some(WorkerSink::new(
            Logged::new(KeyedAggregator::<Call, CaptureSink>::new(CaptureSink { no: 0, log: log.clone() }), 1, log.clone()),
            interval,
        )))),
        "worker_tee" => Target::WorkerTee(SimMutex::new(Some(WorkerSink::new(Logged::new(tee_sink(&log), 1, log.clone()), interval)))),
        "mutex" => Target::MutexPlain(SimMutex::new(Some(MutexSink::new(Logged::new(Aggregate::<Plain>::default(), 1, log.clone()))))),
        "embedded" => Target::Embedded(SimMutex::new(Some(ParentE { request: 7, calls: Aggregate::default() }))),
        _ => Target::Keyed(SimMutex::new(Logged::new(KeyedAggregator::<Call, CaptureSink>::new(CaptureSink { no: 0, log: log.clone() }), 1, log.clone()))),
    };
    let worker_tid: Option<usize> = detsim::live_threads().into_iter().map(|t| t.0).find(|t| !before.contains(t));
    let r = Arc::new(ARun { log: log.clone(), target, next_fid: AtomicU64::new(0), inputs: inputs_of(plan), use_guard: jb(plan, "use_guard", false), long_lived: jb(plan, "long_lived_handles", false) });
    let mut hs = vec![];
    for (i, ops) in ja(plan, "threads").iter().enumerate() {
        let ops: Vec<Value> = ops.as_array().cloned().unwrap_or_default();
        let r2 = r.clone();
        hs.push(detsim::thread::spawn_named(&format!("a{}", i + 1), move || a_ops(&r2, &ops)));
    }
    let main_ops = ja(plan, "main_ops").to_vec();
    a_ops(&r, &main_ops);
    let close_before_join = jb(plan, "close_before_join", false);
    let finish = |r: &ARun| match &r.target {
        Target::Keyed(m) => {
            if jb(plan, "final_flush", true) {
                a_flush(r, &json!({}));
            }
            let _ = m;
        }
        Target::Tee(_) => {
            if jb(plan, "final_flush", true) {
                a_flush(r, &json!({}));
            }
        }
        Target::MutexPlain(m) => {
            let h = m.lock().unwrap().take();
            if let Some(h) = h {
                r.log.log(AK::CloseBegin);
                match std::panic::catch_unwind(std::panic::AssertUnwindSafe(move || h.close())) {
                    Ok(closed) => {
                        let t = to_test_entry(RootEntry::new(closed));
                        r.log.log(emit_from(0, &t, false));
                        r.log.log(AK::CloseEnd);
                    }
                    Err(_) => {
                        r.log.log(AK::ClosePanicked);
                    }
                }
            }
        }
        Target::Embedded(m) => {
            let p = m.lock().unwrap().take();
            if let Some(p) = p {
                r.log.log(AK::CloseBegin);
                let t = to_test_entry(RootEntry::new(p.close()));
                r.log.log(emit_from(0, &t, false));
                r.log.log(AK::CloseEnd);
            }
        }
        _ => {}
    };
    if close_before_join {
        finish(&r);
    }
    for h in hs {
        let _ = h.join();
    }
    if !close_before_join {
        finish(&r);
    }
    // worker: timed flush and termination, once faults stop
    let mut worker_finished = true;
    if matches!(kind.as_str(), "worker" | "worker_tee") {
        detsim::stop_faults();
        log.log(AK::Phase("faults_stopped"));
        // (with the timer effectively off the worker reacts to messages only: a short cycle will do)
        let cycle = (interval.as_nanos().min(2_000_000_000_000) as u64) % 2_000_000_000_000 + 2_000_000 + 1_000_000 * (r.inputs.len() as u64 + 4);
        let settle = |w: usize| {
            detsim::sleep_ns(cycle);
            let mut guard = 0;
            loop {
                let (blocked, finished, _) = detsim::thread_status(w);
                if blocked || finished || guard >= 5_000 {
                    break;
                }
                detsim::sleep_ns(1_000);
                guard += 1;
            }
        };
        if let Some(w) = worker_tid {
            if jb(plan, "check_timed_flush", false) {
                // no explicit flush: everything sent must be out after one interval
                settle(w);
                settle(w);
                log.log(AK::Phase("timed_flush_checked"));
            }
            // drop the last handle - in half of the runs while this thread holds the lock of the shared output, which
            // the worker's final flush is going to need (the drop must not wait for that flush)
            let holding = mix(ju(plan.get("sched").unwrap_or(&Value::Null), "seed", 0), 0x0a7) % 2 == 0;
            let out = log.1.clone();
            let held = if holding { Some(out.lock().unwrap_or_else(|e| e.into_inner())) } else { None };
            match &r.target {
                Target::Worker(m) => drop(m.lock().unwrap().take()),
                Target::WorkerTee(m) => drop(m.lock().unwrap().take()),
                _ => {}
            }
            drop(held);
            log.log(AK::HandleDropped);
            for _ in 0..3 {
                settle(w);
                if detsim::thread_finished(w) {
                    break;
                }
            }
            worker_finished = detsim::thread_finished(w);
        }
    }
    log.log(AK::Phase("end"));
    drop(r);
    *GLOBAL_LOG.lock().unwrap() = None;
    *slot.lock().unwrap() = Some(AggRun { hist: log.snapshot(), worker_finished, worker_existed: worker_tid.is_some() });
    if !worker_finished {
        detsim::abort_run();
    }
}

// ------------------------------------------------------------------------------------------
// oracle
// ------------------------------------------------------------------------------------------

struct Emitted {
    seq: u64,
    sink: u32,
    keys: Vec<(String, String)>,
    weight: Option<u64>,
    last: Option<u64>,
    ids: Vec<(u64, u64)>,
    raw_id: Option<u64>,
    tag: Option<String>,
    multi: Vec<(u64, u64)>,
    opt_last: Option<u64>,
    extra: BTreeMap<String, u64>,
    dist: Vec<(u64, u64)>,
    fdist: Vec<(String, u64)>,
}

pub fn check_c10(plan: &Value, run: &AggRun) -> Option<Violation> {
    let inputs = inputs_of(plan);
    let kind = js(plan, "kind", "keyed");
    let h = &run.hist;
    let mut emitted: Vec<Emitted> = vec![];
    let mut send_ret: HashMap<u64, u64> = HashMap::new();
    let mut send_inv: HashMap<u64, u64> = HashMap::new();
    let mut merge_order: Vec<(u64, u64)> = vec![]; // (seq, id) for tag 1
    let mut close_begin = None;
    let mut handle_dropped = None;
    let mut timed_checked = None;
    let mut logged_drop = None;
    for e in h {
        match &e.k {
            AK::Emit { sink, keys, weight, last, ids, raw_id, tag, multi, opt_last, extra, dist, fdist } => emitted.push(Emitted { fdist: fdist.clone(), seq: e.seq, sink: *sink, keys: keys.clone(), weight: *weight, last: *last, ids: ids.clone(), raw_id: *raw_id, tag: tag.clone(), multi: multi.clone(), opt_last: *opt_last, extra: extra.clone(), dist: dist.clone() }),
            AK::SendBegin { id } => {
                send_inv.insert(*id, e.seq);
            }
            AK::SendEnd { id } => {
                send_ret.insert(*id, e.seq);
            }
            AK::Merge { tag: 1 | 99, id } => merge_order.push((e.seq, *id)),
            AK::CloseBegin => close_begin = Some(e.seq),
            AK::HandleDropped => handle_dropped = Some(e.seq),
            AK::Phase("timed_flush_checked") => timed_checked = Some(e.seq),
            AK::LoggedDrop { tag: 1 } => logged_drop = Some(e.seq),
            _ => {}
        }
    }
    let merge_pos: HashMap<u64, u64> = merge_order.iter().map(|(s, id)| (*id, *s)).collect();
    // "keep-last fields equal the last input": the order in which inputs are merged respects the order in which they were
    // handed in - an input whose send had returned before another send began is merged first (a mutex sink merges inside
    // the send; a worker's channel is first-in first-out). Overlapping sends may be merged either way.
    {
        let mut by_ret: Vec<(u64, u64)> = send_ret.iter().filter(|(id, _)| merge_pos.contains_key(*id)).map(|(id, r)| (*r, *id)).collect();
        by_ret.sort();
        // (largest merge position among the inputs whose send has returned, as the returns go by)
        let mut begins: Vec<(u64, u64)> = send_inv.iter().filter(|(id, _)| merge_pos.contains_key(*id)).map(|(id, b)| (*b, *id)).collect();
        begins.sort();
        let mut i = 0;
        let mut max_prev: Option<(u64, u64)> = None;
        for (b, id) in &begins {
            while i < by_ret.len() && by_ret[i].0 < *b {
                let p = merge_pos[&by_ret[i].1];
                if max_prev.map(|m| p > m.0).unwrap_or(true) {
                    max_prev = Some((p, by_ret[i].1));
                }
                i += 1;
            }
            if let Some((p, earlier)) = max_prev {
                if merge_pos[id] < p {
                    return Some(Violation::new("merged_out_of_order", format!("input {earlier} had been handed to the sink (the call had returned) before input {id} was, but was merged after it: keep-last fields then report the wrong input")));
                }
            }
        }
    }
    let is_worker = matches!(kind, "worker" | "worker_tee");
    // fault `user_merge_panics`: once it fired, the sink has failed *loudly* (poisoned lock / dead worker: later
    // merges, flush requests and the close panic). What returned normally is still held to the property: a
    // flush that completes, a close that returns an aggregate.
    let poison_planned = !ja(plan, "poison").is_empty();
    let poisoned = h.iter().any(|e| matches!(e.k, AK::MergePanic { .. }));
    let close_panicked = h.iter().any(|e| matches!(e.k, AK::ClosePanicked));
    if !poison_planned {
        if let Some(e) = h.iter().find(|e| matches!(e.k, AK::SendPanicked { .. } | AK::FlushPanicked { .. } | AK::ClosePanicked)) {
            return Some(Violation::new("panic", format!("an aggregation call panicked although no user code did: {:?}", e.k)));
        }
    }
    // which sinks carry aggregates keyed how
    let branches: Vec<(u32, &str)> = match kind {
        "tee" | "worker_tee" => vec![(0, "endpoint"), (1, "odd")],
        "mutex" | "embedded" => vec![(0, "none")],
        _ => vec![(0, "endpoint")],
    };
    for (sink, keying) in &branches {
        let mut seen: HashMap<u64, usize> = HashMap::new();
        for (ei, em) in emitted.iter().enumerate().filter(|(_, e)| e.sink == *sink) {
            let mut wsum = 0u64;
            let mut n_inputs = 0u64;
            let mut osum = 0u64; // sum of the optional values that were present
            let mut latest_some: Option<(u64, u64)> = None; // (merge seq, value) of the last *present* optional value
            let mut want_dist: BTreeMap<u64, u64> = BTreeMap::new();
            let mut want_fdist: BTreeMap<String, u64> = BTreeMap::new();
            let mut all_placed = true;
            let mut latest: Option<(u64, u64)> = None; // (merge seq, last value)
            for (id, n) in &em.ids {
                if *n != 1 {
                    return Some(Violation::new("observation_count_wrong", format!("aggregate (sink {sink}) reports input {id} with occurrence count {n}")));
                }
                let Some(inp) = inputs.get(id) else {
                    return Some(Violation::new("foreign_observation", format!("aggregate (sink {sink}) contains observation {id} that was never merged")));
                };
                if seen.insert(*id, ei).is_some() {
                    return Some(Violation::new("input_in_two_aggregates", format!("input {id} contributes to more than one emitted aggregate of sink {sink}")));
                }
                let expect_key = match *keying {
                    "endpoint" => Some(("endpoint".to_string(), inp.key.clone())),
                    "odd" => Some(("odd".to_string(), format!("{}", inp.weight % 2))),
                    _ => None,
                };
                if *keying == "odd" {
                    let k2 = ("band".to_string(), format!("{}", (inp.weight / 2) % 3));
                    if !em.keys.contains(&k2) {
                        return Some(Violation::new("input_in_wrong_aggregate", format!("input {id} (key {:?}, hash-colliding with the other bands) was emitted in the aggregate with key {:?} (sink {sink})", k2, em.keys)));
                    }
                }
                if let Some(k) = expect_key {
                    if !em.keys.contains(&k) {
                        return Some(Violation::new("input_in_wrong_aggregate", format!("input {id} (key {:?}) was emitted in the aggregate with key {:?} (sink {sink})", k, em.keys)));
                    }
                }
                wsum += inp.weight;
                n_inputs += 1;
                // (spelled out here, independently of the constructor: present iff `last` is even)
                osum += if inp.last % 2 == 0 { inp.weight } else { 0 };
                *want_dist.entry(inp.weight % 5).or_insert(0) += 1;
                // (spelled out independently of the constructor)
                let fv = if inp.weight % 7 == 0 { f64::INFINITY } else if inp.weight % 7 == 1 { f64::NEG_INFINITY } else { (inp.weight % 7) as f64 + 0.5 };
                if !matches!(inp.last % 11, 3 | 4) {
                    *want_fdist.entry(format!("{fv:?}")).or_insert(0) += 1;
                }
                if let Some(p) = merge_pos.get(id) {
                    if latest.map(|l| *p > l.0).unwrap_or(true) {
                        latest = Some((*p, inp.last));
                    }
                    if let Some(v) = opt_of(inp.last) {
                        if latest_some.map(|l| *p > l.0).unwrap_or(true) {
                            latest_some = Some((*p, v));
                        }
                    }
                } else {
                    all_placed = false;
                }
            }
            if em.ids.is_empty() && *keying != "none" {
                return Some(Violation::new("empty_aggregate_emitted", format!("an aggregate without any observation was emitted (sink {sink}, key {:?})", em.keys)));
            }
            if !em.ids.is_empty() {
                if em.weight != Some(wsum) {
                    return Some(Violation::new("sum_mismatch", format!("aggregate {:?} (sink {sink}) reports sum {:?}, the inputs it contains sum to {wsum}", em.keys, em.weight)));
                }
                if em.extra.get("opt_sum") != Some(&osum) {
                    return Some(Violation::new("sum_mismatch", format!("aggregate {:?} (sink {sink}) reports opt_sum={:?} (sum over optional values), the present values of the inputs it contains sum to {osum}", em.keys, em.extra.get("opt_sum"))));
                }
                if *keying == "none" && em.extra.get("cw") != Some(&(3 * wsum)) {
                    return Some(Violation::new("sum_mismatch", format!("aggregate {:?} (sink {sink}) reports cw={:?} (summed field of a flattened child), the inputs it contains sum to {}", em.keys, em.extra.get("cw"), 3 * wsum)));
                }
                if let Some(n) = em.extra.get("small_n") {
                    if *n != n_inputs {
                        return Some(Violation::new("distribution_field_miscounted", format!("aggregate {:?} (sink {sink}): the bucketed histogram field counts {n} observations, the aggregate contains {n_inputs} inputs with one (small, possibly zero) value each", em.keys)));
                    }
                }
                let want_dist: Vec<(u64, u64)> = want_dist.into_iter().collect();
                if em.dist != want_dist {
                    return Some(Violation::new("distribution_field_miscounted", format!("aggregate {:?} (sink {sink}): the Distribution-strategy field reports {:?}, the inputs it contains carried {:?} (value, occurrences)", em.keys, em.dist, want_dist)));
                }
                let mut got_fdist: BTreeMap<String, u64> = BTreeMap::new();
                for (v, n) in &em.fdist {
                    *got_fdist.entry(v.clone()).or_insert(0) += n;
                }
                if got_fdist != want_fdist {
                    return Some(Violation::new("distribution_field_miscounted", format!("aggregate {:?} (sink {sink}): the floating-point Distribution field reports {:?}, the inputs it contains carried {:?} (value, occurrences; both infinities are values)", em.keys, got_fdist, want_fdist)));
                }
                if all_placed && latest.is_some() && em.extra.get("opt_keep").copied() != latest_some.map(|l| l.1) {
                    return Some(Violation::new("keep_last_mismatch", format!("aggregate {:?} (sink {sink}) reports opt_keep={:?} (keep-last that skips absent values), the last present value merged was {:?}", em.keys, em.extra.get("opt_keep"), latest_some.map(|l| l.1))));
                }
                if let Some((_, lv)) = latest {
                    if *keying == "none" && em.extra.get("cl") != Some(&(lv + 1)) {
                        return Some(Violation::new("keep_last_mismatch", format!("aggregate {:?} (sink {sink}) reports cl={:?} (keep-last field of a flattened child), the input merged last carried {}", em.keys, em.extra.get("cl"), lv + 1)));
                    }
                    if em.last != Some(lv) {
                        return Some(Violation::new("keep_last_mismatch", format!("aggregate {:?} (sink {sink}) reports last={:?}, the input merged last carried {lv}", em.keys, em.last)));
                    }
                    if em.opt_last != opt_of(lv) {
                        return Some(Violation::new("keep_last_mismatch", format!("aggregate {:?} (sink {sink}) reports opt_last={:?} (keep-last over an optional value), the input merged last carried {:?}", em.keys, em.opt_last, opt_of(lv))));
                    }
                    if *keying != "none" && em.tag != Some(format!("t{lv}")) {
                        return Some(Violation::new("keep_last_mismatch", format!("aggregate {:?} (sink {sink}) reports tag={:?} (a field merged by clone), the input merged last carried \"t{lv}\"", em.keys, em.tag)));
                    }
                }
                if *keying == "none" {
                    // the field that was a distribution already: value weight % 3, 1 + id % 3 times per input
                    let mut want: BTreeMap<u64, u64> = BTreeMap::new();
                    for (id, _) in &em.ids {
                        if let Some(inp) = inputs.get(id) {
                            *want.entry(inp.weight % 3).or_insert(0) += 1 + id % 3;
                        }
                    }
                    let want: Vec<(u64, u64)> = want.into_iter().collect();
                    if em.multi != want {
                        return Some(Violation::new("distribution_field_miscounted", format!("aggregate (sink {sink}): the distribution-valued field reports {:?}, the inputs it contains recorded {:?} (value, occurrences)", em.multi, want)));
                    }
                }
                let mut sorted = em.ids.clone();
                sorted.sort();
                if sorted != em.ids {
                    return Some(Violation::new("distribution_not_sorted", format!("sort-and-merge distribution not ascending: {:?}", em.ids)));
                }
            }
        }
        // every input that had to be emitted by now is there, exactly once
        for (id, inp) in &inputs {
            let Some(ret) = send_ret.get(id) else { continue };
            let must = match kind {
                "mutex" | "embedded" => close_begin.map(|c| *ret < c).unwrap_or(false) && !close_panicked,
                // a dead worker takes what it held with it (and `send` is fire-and-forget)
                _ => !poisoned,
            };
            if must && !seen.contains_key(id) {
                return Some(Violation::new("input_lost", format!("input {id} (key {}) was merged but is in no emitted aggregate of sink {sink}", inp.key)));
            }
        }
    }
    // raw (non-aggregated) branch of the tee: every input exactly once
    if matches!(kind, "tee" | "worker_tee") {
        let mut raw: HashMap<u64, u32> = HashMap::new();
        for em in emitted.iter().filter(|e| e.sink == 100) {
            if let Some(id) = em.raw_id {
                *raw.entry(id).or_insert(0) += 1;
            }
        }
        for id in send_ret.keys() {
            if raw.get(id).copied().unwrap_or(0) != 1 {
                return Some(Violation::new("tee_raw_branch_miscount", format!("input {id} reached the non-aggregated tee branch {} times", raw.get(id).copied().unwrap_or(0))));
            }
        }
    }
    // one aggregate per distinct key per flush; a flush emits everything merged before it
    {
        let mut in_flush: Option<(u32, u64)> = None;
        let mut keys_this_flush: BTreeSet<(u32, Vec<(String, String)>)> = BTreeSet::new();
        let mut merged_since: BTreeSet<u64> = BTreeSet::new();
        let mut emitted_ids: BTreeSet<u64> = BTreeSet::new();
        for e in h {
            match &e.k {
                AK::Merge { tag: 1, id } => {
                    merged_since.insert(*id);
                }
                AK::FlushBegin { tag: 1 } => {
                    in_flush = Some((1, e.seq));
                    keys_this_flush.clear();
                    emitted_ids.clear();
                }
                AK::Emit { sink, keys, ids, .. } if in_flush.is_some() && *sink < 100 => {
                    if !keys_this_flush.insert((*sink, keys.clone())) {
                        return Some(Violation::new("duplicate_key_in_flush", format!("one flush emitted two aggregates for key {:?} (sink {sink})", keys)));
                    }
                    if *sink == 0 {
                        for (id, _) in ids {
                            emitted_ids.insert(*id);
                        }
                    }
                }
                AK::FlushEnd { tag: 1 } => {
                    if kind != "mutex" && kind != "embedded" {
                        for id in &merged_since {
                            if !emitted_ids.contains(id) {
                                return Some(Violation::new("flush_left_input_behind", format!("input {id} was merged before a flush but not emitted by it")));
                            }
                        }
                    }
                    merged_since.clear();
                    in_flush = None;
                }
                _ => {}
            }
        }
    }
    // flush barrier (worker): flush().await returned => everything sent before is emitted
    if is_worker {
        let emit_seq: HashMap<u64, u64> = emitted.iter().filter(|e| e.sink == 0).flat_map(|e| e.ids.iter().map(move |(id, _)| (*id, e.seq))).collect();
        let mut reqs: HashMap<u64, u64> = HashMap::new();
        for e in h {
            match &e.k {
                AK::FlushReq { fid } => {
                    reqs.insert(*fid, e.seq);
                }
                AK::FlushDone { fid } => {
                    let r = reqs[fid];
                    for (id, ret) in &send_ret {
                        if *ret < r {
                            match emit_seq.get(id) {
                                Some(s) if *s < e.seq => {}
                                _ => {
                                    return Some(Violation::new("flush_returned_before_emitted", format!("flush #{fid} returned at #{} but input {id}, sent before the request, had not been emitted", e.seq)));
                                }
                            }
                        }
                    }
                }
                _ => {}
            }
        }
        if let Some(tc) = timed_checked.filter(|_| !poisoned) {
            for (id, ret) in &send_ret {
                if *ret < tc {
                    match emit_seq.get(id) {
                        Some(s) if *s < tc => {}
                        _ => return Some(Violation::new("timed_flush_missing", format!("input {id} was not emitted within two flush intervals although no more faults were injected"))),
                    }
                }
            }
        }
        if run.worker_existed && handle_dropped.is_some() {
            if !run.worker_finished {
                return Some(Violation::new("worker_never_exits", "the last WorkerSink handle was dropped; three flush intervals later (faults stopped) the worker thread is still running"));
            }
            if logged_drop.is_none() {
                return Some(Violation::new("worker_inner_not_dropped", "the worker thread exited but never dropped the sink it owns"));
            }
        }
    }
    let _ = send_inv;
    None
}

// ------------------------------------------------------------------------------------------
// generation
// ------------------------------------------------------------------------------------------

/// The worker thread is busy (its first merge takes a second of simulated time) while one producer sends well over
/// 65 536 entries: the backlog is as long as it gets, and nothing may be dropped from it.
fn gen_c10_backlog(rng: &mut Rng) -> Value {
    let n = 66_000 + rng.below(6_000);
    let sched = gen_sched(rng, &SchedOpts { est_choices: 200, threads: 2, jump_max_ns: 0, stall_clock_max_ns: 0, max_steps: 6_000_000 });
    json!({
        "scenario": "aggregation",
        "sched": sched,
        "kind": "worker",
        "poison": [],
        "first_merge_sleep_ns": 1_000_000_000u64,
        "flush_interval_ns": 3_600_000_000_000u64,
        "threads": [],
        "main_ops": [{"op":"send","id":1,"key":"b0","weight":1,"last":1}, {"op":"sleep","ns":1000}, {"op":"send_many","first_id":10,"n":n,"keys":1 + rng.below(5)}, {"op":"flush","mode":"await"}],
        "use_guard": false,
        "final_flush": true,
        "close_before_join": false,
        "check_timed_flush": false,
        "backlog": true,
    })
}

pub fn gen_c10(rng: &mut Rng, _tier: Tier) -> Value {
    if rng.chance(1.0 / 20_000.0) {
        return gen_c10_backlog(rng);
    }
    let kind = *rng.pick(&["keyed", "tee", "worker", "worker", "worker", "worker_tee", "mutex", "mutex", "embedded"]);
    let threaded = matches!(kind, "worker" | "worker_tee" | "mutex" | "embedded");
    let nkeys = 1 + rng.below(5);
    let nthreads = if threaded { 1 + rng.below(3) } else { 0 };
    let interval = *rng.pick(&[200_000u64, 5_000_000, 100_000_000, 100_000_000, 3_600_000_000_000, u64::MAX]);
    let mut next_id = 1u64;
    let mut gen_ops = |rng: &mut Rng, n: u64, allow_flush: bool| -> Vec<Value> {
        let mut ops = vec![];
        for _ in 0..n {
            let id = next_id;
            next_id += 1;
            ops.push(json!({"op":"send","id":id,"key":format!("k{}", rng.below(nkeys)),"weight":rng.below(1000),"last":rng.below(1_000_000),"unwind":rng.chance(0.1)}));
            match rng.below(10) {
                0 | 1 if allow_flush => ops.push(json!({"op":"flush","mode": if rng.chance(0.8) {"await"} else {"cancel"}})),
                2 => ops.push(json!({"op":"sleep","ns": (interval as f64 * *rng.pick(&[0.1, 0.7, 1.5])) as u64 % 1_000_000_000})),
                _ => {}
            }
        }
        ops
    };
    let mut threads = vec![];
    for _ in 0..nthreads {
        let n = rng.below(9);
        threads.push(Value::Array(gen_ops(rng, n, kind != "mutex" && kind != "embedded")));
    }
    // 1.5% of the runs: a cardinality spike (hundreds to thousands of distinct keys between two
    // flushes), which exercises hash-table growth and any size-dependent path
    let spike = !threaded && rng.chance(0.06) || (kind == "worker" && rng.chance(0.01));
    // (a fifth of the spikes: well over 4 096 keys)
    let nmain = if spike { if rng.chance(0.2) { 4_200 + rng.below(5_000) } else { 600 + rng.below(2400) } } else if threaded { rng.below(5) } else { 1 + rng.below(14) };
    let main_ops = if spike {
        let mut ops = vec![];
        let keys = nmain;
        for i in 0..nmain {
            let id = 1_000_000 + i;
            ops.push(json!({"op":"send","id":id,"key":format!("hk{}", (i * 7919) % keys),"weight":rng.below(1000),"last":rng.below(1_000_000)}));
            if rng.chance(0.0007) {
                ops.push(json!({"op":"flush","mode":"await"}));
            }
        }
        ops
    } else {
        gen_ops(rng, nmain, kind != "mutex" && kind != "embedded")
    };
    let sched = gen_sched(
        rng,
        &SchedOpts { est_choices: 200, threads: nthreads + 2, jump_max_ns: if threaded { 20 * interval.min(1_000_000_000) } else { 0 }, stall_clock_max_ns: interval.min(1_000_000_000) * 3, max_steps: if spike { 400_000 } else { 80_000 } },
    );
    // fault `user_merge_panics` (mutex-shared and worker sinks): merging one of the inputs panics inside the sink
    let mut threads = threads;
    let mut main_ops = main_ops;
    let mut poison: Vec<u64> = vec![];
    if matches!(kind, "mutex" | "worker") && !spike && next_id > 1 && rng.chance(0.1) {
        poison.push(1 + rng.below(next_id - 1));
        // (a guard dropped during unwinding whose merge panics would be a double panic: abort)
        let clear = |ops: &mut Vec<Value>| {
            for o in ops.iter_mut() {
                if o.get("unwind").is_some() {
                    o["unwind"] = json!(false);
                }
            }
        };
        for t in threads.iter_mut() {
            if let Some(a) = t.as_array_mut() {
                clear(a);
            }
        }
        clear(&mut main_ops);
    }
    // the shared mutex sink is closed more than once: after every fourth operation or so a clone of it is closed early
    if kind == "mutex" && mix(ju(&sched, "seed", 0), 0xc105e) % 3 == 0 {
        let mut k = mix(ju(&sched, "seed", 0), 0xc105f);
        for t in threads.iter_mut().chain(std::iter::once(&mut Value::Array(vec![]))) {
            if let Some(a) = t.as_array_mut() {
                let mut i = 0;
                while i < a.len() {
                    k = mix(k, i as u64);
                    if k % 4 == 0 {
                        a.insert(i + 1, json!({"op":"close_clone"}));
                        i += 1;
                    }
                    i += 1;
                }
            }
        }
    }
    // half of the plans: every thread keeps one handle of the worker sink for its whole life (instead of a clone per
    // send); decided from the schedule seed, so that no other draw moves
    let long_lived = mix(ju(&sched, "seed", 0), 0x1019) % 2 == 0;
    json!({
        "scenario": "aggregation",
        "sched": sched,
        "long_lived_handles": long_lived,
        "kind": kind,
        "poison": poison,
        "flush_interval_ns": interval,
        "threads": threads,
        "main_ops": main_ops,
        "use_guard": rng.chance(0.4),
        "final_flush": true,
        "close_before_join": (kind == "mutex" || kind == "embedded") && rng.chance(0.3),
        "check_timed_flush": rng.chance(0.5) && interval < 1_000_000_000_000,
    })
}

pub struct Aggregation;

impl Scenario for Aggregation {
    fn name(&self) -> &'static str {
        "aggregation"
    }
    fn property(&self) -> &'static str {
        "C10"
    }
    fn generate(&self, rng: &mut Rng, tier: Tier) -> Value {
        gen_c10(rng, tier)
    }
    fn run(&self, plan: &Value) -> Report {
        let sched = sched_from_plan(plan);
        let p2 = plan.clone();
        let slot: Arc<Mutex<Option<AggRun>>> = Arc::new(Mutex::new(None));
        let s2 = slot.clone();
        let log = ALog::default();
        let log2 = log.clone();
        let (out, _) = detsim::run(sched, move || agg_main(&p2, s2, log2));
        let run = slot.lock().unwrap().take();
        let mut r = Report::default();
        let threaded = out.threads >= 2;
        r.nontrivial = if threaded { out.preemptions >= 1 } else { inputs_of(plan).len() >= 2 };
        if inputs_of(plan).len() >= 600 {
            r.probe("cardinality_spike", 1);
        }
        if inputs_of(plan).len() >= 4_200 && !jb(plan, "backlog", false) {
            r.probe("over_4096_keys_in_one_flush", 1);
        }
        if jb(plan, "backlog", false) {
            r.probe("worker_backlog_over_65536", 1);
        }
        r.case_sig = mix(out.sig, hash_value(&json!([plan.get("threads"), plan.get("main_ops"), plan.get("kind")])));
        let failure = out.failure.clone();
        let main_panic = out.main_panic.clone();
        absorb_outcome(&mut r, out);
        *r.probes.entry(format!("kind_{}", js(plan, "kind", "keyed"))).or_insert(0) += 1;
        if let Some(run) = &run {
            let mut st: BTreeSet<u64> = BTreeSet::new();
            let mut pending = 0u64;
            for e in &run.hist {
                match &e.k {
                    AK::Merge { .. } => pending += 1,
                    AK::FlushEnd { .. } => pending = 0,
                    AK::FlushCancelled { .. } => r.fault("future_cancelled", 1),
                    AK::MergePanic { .. } => {
                        r.fault("user_merge_panics", 1);
                        r.probe(if js(plan, "kind", "") == "mutex" { "merge_panicked_inside_mutex_sink" } else { "merge_panicked_on_worker_thread" }, 1);
                    }
                    AK::FlushPanicked { .. } => r.probe("flush_request_failed_loudly", 1),
                    _ => {}
                }
                st.insert(mix(detsim::rng::hash_str(&format!("{:?}", std::mem::discriminant(&e.k))), pending.min(6)));
            }
            r.states = st.into_iter().collect();
            if run.hist.iter().any(|e| matches!(e.k, AK::Phase("timed_flush_checked"))) {
                r.probe("timed_flush_checked", 1);
            }
            if run.hist.iter().any(|e| matches!(e.k, AK::HandleDropped)) {
                r.probe("worker_last_handle_dropped", 1);
            }
            r.violation = check_c10(plan, run);
            r.sample = Some(json!({"kind": plan.get("kind"), "history": run.hist.iter().take(50).map(|e| format!("#{} t{} @{}ns {:?}", e.seq, e.tid, e.clock, e.k)).collect::<Vec<_>>()}));
        }
        if r.violation.is_none() {
            match failure {
                Some(detsim::Failure::Aborted { .. }) | None => {
                    if run.is_none() {
                        match main_panic.as_deref().map(crate::driver::classify_uncaught_panic) {
                            Some(Ok(v)) => r.violation = Some(v),
                            Some(Err(e)) => r.harness_error = Some(e),
                            None => r.harness_error = Some("scenario produced no result".into()),
                        }
                    }
                }
                Some(f @ detsim::Failure::Deadlock { .. }) => r.violation = Some(Violation::new("deadlock", format!("{f:?}"))),
                Some(f @ detsim::Failure::StepLimit { .. }) => {
                    // after the last handle is gone the only possible activity is the worker
                    // thread: if the budget ran out in that phase, it is spinning
                    if log.snapshot().iter().any(|e| matches!(e.k, AK::HandleDropped)) {
                        r.violation = Some(Violation::new("worker_never_exits", format!("the last WorkerSink handle was dropped but the worker thread keeps running (step budget exhausted: {f:?})")));
                    } else {
                        r.inconclusive = true;
                    }
                }
                Some(f) => r.harness_error = Some(format!("simulation failed: {f:?}")),
            }
        }
        r
    }
    fn probes(&self) -> Vec<&'static str> {
        vec!["cardinality_spike", "kind_keyed", "kind_tee", "kind_worker", "kind_worker_tee", "kind_mutex", "kind_embedded", "timed_flush_checked", "worker_last_handle_dropped", "merge_panicked_inside_mutex_sink", "merge_panicked_on_worker_thread", "flush_request_failed_loudly", "over_4096_keys_in_one_flush", "worker_backlog_over_65536"]
    }
    fn components(&self) -> Value {
        json!({
            "real": ["#[aggregate]/#[metrics] expansions", "KeyedAggregator", "Aggregate", "MutexSink", "WorkerSink (thread, channel, recv_timeout loop)", "TeeSink", "NonAggregatedSink", "CloseAndMergeOnDrop", "Sum/KeepLast/Histogram<SortAndMerge>", "tokio oneshot (atomic step)"],
            "simulated_seams": ["thread spawn", "mpsc channel (blocking recv_timeout on the simulated clock)", "Instant", "Mutex/Arc in MutexSink", "hashbrown hasher (seeded)"],
            "harness": ["Logged wrapper", "CaptureSink", "producer threads"],
            "stub": []
        })
    }
    fn rule(&self) -> &'static str {
        "each run: sink kind in {keyed, tee(keyed+by-parity+raw), worker, worker+tee, mutex-shared}, 1-5 keys, 0-3 producer threads x 0-8 inputs (unique id as histogram observation, random weight/last), flushes awaited or cancelled, sleeps around the flush interval, close-and-merge guards; worker: timed flush and termination after the last handle; 10 % of the mutex/worker runs: merging one input panics inside the sink (what still returns normally afterwards - a completed flush, a returned aggregate - must conserve). non-trivial = threaded runs with >= 1 preemption, single-threaded runs with >= 2 inputs; distinct = distinct (context-switch signature, op lists)"
    }
}
