//! Worker processes, the orchestrator (`check`), replay, minimisation, evidence.

use std::collections::{BTreeMap, BTreeSet};
use std::io::Write as _;
use std::path::{Path, PathBuf};
use std::process::{Child, Command, Stdio};
use std::time::{Duration, Instant};

use detsim::rng::{derive, hash_str, Rng};
use serde_json::{json, Value};

use crate::common::install_quiet_subscriber;
use crate::framework::*;
use crate::registry;

fn root() -> PathBuf {
    PathBuf::from(std::env::var("VERIF_ROOT").unwrap_or_else(|_| "/verif".into()))
}

fn arg<'a>(args: &'a [String], name: &str) -> Option<&'a str> {
    args.iter().position(|a| a == name).and_then(|i| args.get(i + 1)).map(|s| s.as_str())
}
fn flag(args: &[String], name: &str) -> bool {
    args.iter().any(|a| a == name)
}

pub fn main(args: &[String]) -> i32 {
    match args.get(1).map(|s| s.as_str()) {
        Some("worker") => worker(args),
        Some("check") => check(args),
        Some("replay") => replay(args),
        Some("one") => one(args),
        Some("selftest-determinism") => selftest_determinism(args),
        _ => {
            eprintln!("usage: verif-sim check <PROP> --tier quick|thorough | replay <file> | one <PROP> <index> | selftest-determinism");
            2
        }
    }
}

/// Number of simulated threads that are inside a sink `append` call right now. If the process
/// wedges (no scheduling step for a long time) while this is non-zero, an append is blocked or
/// spinning for real -- which is exactly what "appending never blocks" forbids.
pub static IN_APPEND: std::sync::atomic::AtomicU64 = std::sync::atomic::AtomicU64::new(0);

/// What the watchdog needs to turn such a wedge into a reported violation.
pub struct WedgeReport {
    pub prop: String,
    pub scenario: String,
    pub index: u64,
    pub plan: Value,
    /// worker mode: the result file to write; replay mode: the --emit file, if any
    pub out: Option<PathBuf>,
    pub replay_mode: bool,
    pub base: u64,
}
pub static WEDGE: std::sync::Mutex<Option<WedgeReport>> = std::sync::Mutex::new(None);

fn on_stuck(stuck: u64) -> ! {
    use std::sync::atomic::Ordering;
    if IN_APPEND.load(Ordering::SeqCst) > 0 {
        if let Some(w) = WEDGE.lock().ok().and_then(|mut g| g.take()) {
            let class = "append_blocked_outside_simulator";
            let msg = format!("no scheduling step for {stuck} s of real time while a thread was inside append(): the append is blocked (or spinning) in something the simulator does not own");
            if w.replay_mode {
                if let Some(out) = &w.out {
                    write_json(out, &json!({"class": class, "message": msg, "invalid_plan": false, "harness_error": Value::Null, "decisions": [], "outcome": {"hash": "wedge"}, "history": Value::Null}));
                }
                println!("RESULT class={class} hash=wedge");
                println!("violation: [{class}] {msg}");
                println!("VIOLATION property={} replay=(this file)", w.prop);
                std::process::exit(1);
            }
            let replay_path = root().join("replays").join(format!("{}-{}-{:016x}.json", w.prop, w.scenario, run_seed(w.base, &w.prop, w.index)));
            write_json(&replay_path, &json!({
                "property": w.prop, "scenario": w.scenario, "run_index": w.index,
                "violation": {"class": class, "message": msg},
                "plan": w.plan,
            }));
            if let Some(out) = &w.out {
                write_json(out, &json!({
                    "start": w.index, "count": 1, "next": w.index + 1, "done": 1,
                    "stats": {}, "faults": {}, "probes": {}, "nontrivial": 0, "rechecked": 0, "sigs": [], "states": [],
                    "scenario_runs": {}, "samples": [], "wall_s": 0.0, "harness_error": Value::Null,
                    "violation": {"index": w.index, "scenario": w.scenario, "class": class, "message": msg, "replay": replay_path.to_string_lossy()},
                }));
            }
            std::process::exit(0);
        }
    }
    eprintln!("HARNESS-ERROR watchdog: no scheduling step for {stuck}s of real time (a simulated thread is stuck outside the simulator's seams)");
    std::process::exit(2);
}

fn process_setup(subscriber: bool, cpu: Option<usize>) {
    // Every process that executes runs is confined to exactly one CPU (the given one, or the one it happens to be
    // on): besides keeping the baton-passing threads on one core, this fixes `available_parallelism()` at 1, which
    // some dependencies size themselves by (the metrics-util registry has that many shards, and its visiting order -
    // which cell a readout reads first - follows from the shard count).
    match cpu {
        Some(c) => detsim::pin_to_cpu(c),
        None => detsim::pin_to_cpu(unsafe { libc::sched_getcpu() }.max(0) as usize),
    }
    if subscriber {
        install_quiet_subscriber();
    }
    detsim::time::set_always_simulated(true);
    metrique_writer::__verif_pin_epoch();
    // real-time watchdog: a wedged simulation must never hang a check
    std::thread::spawn(|| {
        // (a replay started by hand gets a generous default so that a wedging replay file ends too)
        let limit: u64 = std::env::var("VERIF_WATCHDOG_S").ok().and_then(|s| s.parse().ok()).unwrap_or(1800);
        if limit > 0 {
            // two ways out: the overall limit, or no scheduling step at all for `stuck` seconds
            // (a simulated thread sits in a real lock held by a descheduled one, or the code under
            // test spins without reaching a seam)
            let stuck: u64 = std::env::var("VERIF_STUCK_S").ok().and_then(|s| s.parse().ok()).unwrap_or(45);
            let t0 = Instant::now();
            let mut last = (detsim::global_steps(), Instant::now());
            loop {
                std::thread::sleep(Duration::from_millis(500));
                let now = detsim::global_steps();
                if now != last.0 || !detsim::run_active() {
                    last = (now, Instant::now());
                } else if last.1.elapsed().as_secs() >= stuck {
                    on_stuck(stuck);
                }
                if t0.elapsed().as_secs() >= limit {
                    eprintln!("HARNESS-ERROR watchdog: process exceeded {limit}s of real time");
                    std::process::exit(2);
                }
            }
        }
    });
}

/// The run seed of (base seed, property, run index).
fn run_seed(base: u64, prop: &str, index: u64) -> u64 {
    derive(base, index, hash_str(prop))
}

fn subscriber_for(index: u64, chunk: u64) -> bool {
    (index / chunk.max(1)) % 2 == 1
}

/// Every fifth chunk of runs executes under the build without debug assertions (if it has been built).
fn nodebug_for(index: u64, chunk: u64) -> bool {
    (index / chunk.max(1)) % 5 == 4
}

/// The harness binary of the given build kind: target/debug/verif-sim or target/nodebug/verif-sim.
fn exe_of(nodebug: bool) -> PathBuf {
    let me = std::env::current_exe().expect("current_exe");
    if nodebug == !cfg!(debug_assertions) {
        return me;
    }
    let other = root().join("target").join(if nodebug { "nodebug" } else { "debug" }).join("verif-sim");
    if other.exists() { other } else { me }
}

/// Generate the plan of run `index`.
fn make_plan(prop: &str, tier: Tier, base: u64, index: u64, chunk: u64) -> Option<(usize, Value)> {
    let scens = registry::scenarios(prop);
    if scens.is_empty() {
        return None;
    }
    let seed = run_seed(base, prop, index);
    let mut rng = Rng::new(seed);
    let total: u64 = scens.iter().map(|s| s.weight(tier) as u64).sum();
    let mut pick = rng.below(total.max(1));
    let mut which = 0;
    for (i, s) in scens.iter().enumerate() {
        let w = s.weight(tier) as u64;
        if pick < w {
            which = i;
            break;
        }
        pick -= w;
    }
    let mut plan = scens[which].generate(&mut rng, tier);
    plan["scenario"] = json!(scens[which].name());
    plan["property"] = json!(prop);
    plan["run_index"] = json!(index);
    plan["run_seed"] = json!(seed);
    plan["base_seed"] = json!(base);
    plan["tier"] = json!(tier.name());
    plan["subscriber"] = json!(subscriber_for(index, chunk));
    // (describes the build that executes the run; which chunks go to which build is the driver's decision)
    plan["no_debug_assertions"] = json!(!cfg!(debug_assertions));
    Some((which, plan))
}

pub static LAST_PANIC: std::sync::Mutex<Option<String>> = std::sync::Mutex::new(None);

/// A simulated thread died from a panic nobody caught. If the panic originated outside the
/// harness and the simulator (i.e. in the code under test or something it called: the queue's
/// writer thread, a `join().unwrap()` in a destructor, ...) it is a violation -- "does not panic"
/// is part of every sink property -- otherwise it is a harness bug.
pub fn classify_uncaught_panic(msg: &str) -> Result<crate::framework::Violation, String> {
    let loc = LAST_PANIC.lock().ok().and_then(|g| g.clone()).unwrap_or_default();
    let ours = loc.starts_with("harness/") || loc.contains("/harness/src/") || loc.contains("detsim/src/") || loc.is_empty();
    if ours {
        Err(format!("harness thread panicked: {msg} [{loc}]"))
    } else {
        Ok(crate::framework::Violation::new("panic", format!("the code under test panicked: {msg} [{loc}]")))
    }
}

/// Run a scenario; a panic that escapes it (single-threaded scenarios run the code under test on
/// this very thread) is a violation, not a harness crash.
fn run_scenario(scen: &dyn Scenario, plan: &Value) -> Report {
    let ev0 = crate::common::SLOW_SUBSCRIBER_EVENTS.load(std::sync::atomic::Ordering::Relaxed);
    match std::panic::catch_unwind(std::panic::AssertUnwindSafe(|| scen.run(plan))) {
        Ok(mut r) => {
            let ev = crate::common::SLOW_SUBSCRIBER_EVENTS.load(std::sync::atomic::Ordering::Relaxed) - ev0;
            if ev > 0 {
                r.fault("descheduled_inside_tracing_error_event", ev);
            }
            r
        }
        Err(e) => {
            let msg = detsim::sched::panic_message(&e);
            let loc = LAST_PANIC.lock().ok().and_then(|g| g.clone()).unwrap_or_default();
            let mut r = Report::default();
            r.case_sig = hash_value(plan);
            r.violation = Some(Violation::new("panic", format!("the code under test panicked: {msg} [{loc}]")));
            r
        }
    }
}

fn find_scenario(prop: &str, name: &str) -> Option<Box<dyn Scenario>> {
    registry::scenarios(prop).into_iter().find(|s| s.name() == name)
}

fn write_json(path: &Path, v: &Value) {
    if let Some(p) = path.parent() {
        let _ = std::fs::create_dir_all(p);
    }
    let tmp = path.with_extension("tmp");
    let mut f = std::fs::File::create(&tmp).expect("create file");
    f.write_all(serde_json::to_string_pretty(v).unwrap().as_bytes()).unwrap();
    f.write_all(b"\n").unwrap();
    drop(f);
    std::fs::rename(&tmp, path).expect("rename");
}

fn read_json(path: &Path) -> Option<Value> {
    let s = std::fs::read_to_string(path).ok()?;
    serde_json::from_str(&s).ok()
}

fn outcome_json(o: &detsim::Outcome) -> Value {
    json!({
        "steps": o.steps, "choices": o.choices, "switches": o.switches, "preemptions": o.preemptions,
        "sim_clock_ns": o.clock_ns, "threads": o.threads, "hash": format!("{:016x}", o.hash),
        "sig": format!("{:016x}", o.sig), "jumps": o.jumps, "timeouts": o.timeouts, "blocks": o.blocks,
        "failure": o.failure.as_ref().map(|f| format!("{f:?}")), "wedged": o.wedged,
        "foreign_blocks": o.foreign_blocks,
    })
}

// ------------------------------------------------------------------------------------------
// worker
// ------------------------------------------------------------------------------------------

fn worker(args: &[String]) -> i32 {
    let prop = arg(args, "--prop").expect("--prop").to_string();
    let tier = Tier::parse(arg(args, "--tier").unwrap_or("quick"));
    let base: u64 = arg(args, "--seed").and_then(|s| s.parse().ok()).unwrap_or(1);
    let start: u64 = arg(args, "--start").and_then(|s| s.parse().ok()).unwrap_or(0);
    let count: u64 = arg(args, "--count").and_then(|s| s.parse().ok()).unwrap_or(1);
    let chunk: u64 = arg(args, "--chunk").and_then(|s| s.parse().ok()).unwrap_or(256);
    let out = PathBuf::from(arg(args, "--out").expect("--out"));
    let cpu = arg(args, "--cpu").and_then(|s| s.parse().ok());
    let recheck: u64 = arg(args, "--recheck").and_then(|s| s.parse().ok()).unwrap_or(97);
    let subscriber = subscriber_for(start, chunk);
    process_setup(subscriber, cpu);
    let scens = registry::scenarios(&prop);
    let t0 = Instant::now();

    let mut done = 0u64;
    let mut stats: BTreeMap<&'static str, u64> = BTreeMap::new();
    let mut faults: BTreeMap<String, u64> = BTreeMap::new();
    let mut probes: BTreeMap<String, u64> = BTreeMap::new();
    let mut sigs: BTreeSet<u64> = BTreeSet::new();
    let mut states: BTreeSet<u64> = BTreeSet::new();
    let mut scen_runs: BTreeMap<String, u64> = BTreeMap::new();
    let mut samples: Vec<Value> = vec![];
    let mut violation: Option<Value> = None;
    let mut harness_error: Option<String> = None;
    let mut nontrivial = 0u64;
    let mut rechecked = 0u64;

    let mut index = start;
    while index < start + count {
        let Some((which, plan)) = make_plan(&prop, tier, base, index, chunk) else {
            harness_error = Some(format!("no scenario registered for {prop}"));
            break;
        };
        debug_assert_eq!(subscriber_for(index, chunk), subscriber);
        let scen = &scens[which];
        if prop == "C09" || prop == "C16" {
            // (only where "append never blocks / never stalls" is the property: the plan is cloned for the watchdog)
            *WEDGE.lock().unwrap() = Some(WedgeReport { prop: prop.clone(), scenario: scen.name().to_string(), index, plan: plan.clone(), out: Some(out.clone()), replay_mode: false, base });
        }
        let rep = run_scenario(scen.as_ref(), &plan);
        done += 1;
        *scen_runs.entry(scen.name().to_string()).or_insert(0) += 1;
        let o = &rep.outcome;
        *stats.entry("steps").or_insert(0) += o.steps;
        *stats.entry("runs_without_debug_assertions").or_insert(0) += (!cfg!(debug_assertions)) as u64;
        *stats.entry("choices").or_insert(0) += o.choices;
        *stats.entry("switches").or_insert(0) += o.switches;
        *stats.entry("preemptions").or_insert(0) += o.preemptions;
        *stats.entry("sim_clock_us").or_insert(0) += o.clock_ns.min(u64::MAX / 1_000_000) / 1000;
        *stats.entry("blocks").or_insert(0) += o.blocks;
        *stats.entry("timeouts").or_insert(0) += o.timeouts;
        *stats.entry("threads").or_insert(0) += o.threads as u64;
        *stats.entry("threads_found_asleep_outside_the_simulator").or_insert(0) += o.foreign_blocks;
        for (k, v) in &rep.faults {
            let d = faults.entry(k.clone()).or_insert(0);
            *d = d.saturating_add(*v);
        }
        for (k, v) in &rep.probes {
            let d = probes.entry(k.clone()).or_insert(0);
            *d = d.saturating_add(*v);
        }
        if rep.inconclusive {
            *stats.entry("inconclusive_runs").or_insert(0) += 1;
        }
        if rep.nontrivial {
            nontrivial += 1;
            sigs.insert(rep.case_sig);
        }
        for s in &rep.states {
            states.insert(*s);
        }
        if samples.len() < 2 && rep.sample.is_some() && (index % 7 == 0 || samples.is_empty()) {
            samples.push(json!({"run_index": index, "scenario": scen.name(), "case": rep.sample.clone()}));
        }
        let wedged = rep.outcome.wedged;
        if let Some(v) = &rep.violation {
            let replay_path = root().join("replays").join(format!("{}-{}-{:016x}.json", prop, scen.name(), run_seed(base, &prop, index)));
            let mut file = json!({
                "property": prop, "scenario": scen.name(), "run_index": index,
                "violation": {"class": v.class, "message": v.message},
                "outcome": outcome_json(&rep.outcome),
                "plan": plan,
            });
            file["history"] = rep.sample.clone().unwrap_or(Value::Null);
            write_json(&replay_path, &file);
            violation = Some(json!({
                "index": index, "scenario": scen.name(), "class": v.class, "message": v.message,
                "replay": replay_path.to_string_lossy(),
            }));
            index += 1;
            break;
        }
        if let Some(e) = &rep.harness_error {
            harness_error = Some(format!("run {index} ({}): {e}", scen.name()));
            index += 1;
            break;
        }
        if wedged || rep.tainting {
            index += 1;
            break;
        }
        // determinism guard: re-execute some runs and compare the full choice hash
        if recheck > 0 && index % recheck == 0 {
            let rep2 = run_scenario(scen.as_ref(), &plan);
            rechecked += 1;
            if rep2.outcome.hash != rep.outcome.hash || rep2.case_sig != rep.case_sig || rep2.outcome.steps != rep.outcome.steps {
                harness_error = Some(format!(
                    "NONDETERMINISM run {index} ({}): hash {:016x} vs {:016x}, steps {} vs {}",
                    scen.name(), rep.outcome.hash, rep2.outcome.hash, rep.outcome.steps, rep2.outcome.steps
                ));
                index += 1;
                break;
            }
            if rep2.outcome.wedged {
                index += 1;
                break;
            }
        }
        index += 1;
    }
    let res = json!({
        "start": start, "count": count, "next": index, "done": done,
        "stats": stats, "faults": faults, "probes": probes,
        "nontrivial": nontrivial, "rechecked": rechecked,
        "sigs": sigs.iter().map(|s| format!("{s:016x}")).collect::<Vec<_>>(),
        "states": states.iter().map(|s| format!("{s:016x}")).collect::<Vec<_>>(),
        "scenario_runs": scen_runs, "samples": samples,
        "violation": violation, "harness_error": harness_error,
        "wall_s": t0.elapsed().as_secs_f64(),
    });
    write_json(&out, &res);
    // exit without joining anything: simulated threads of a wedged run may be parked forever
    0
}

// ------------------------------------------------------------------------------------------
// replay / one
// ------------------------------------------------------------------------------------------

fn run_plan_file(file: &Value, trace: bool) -> Option<(Report, Value)> {
    let mut plan = file.get("plan").cloned().unwrap_or_else(|| file.clone());
    let prop = js(&plan, "property", js(file, "property", "")).to_string();
    let name = js(&plan, "scenario", js(file, "scenario", "")).to_string();
    if trace {
        plan["trace"] = json!(true);
    }
    let scen = find_scenario(&prop, &name)?;
    if let Ok(mut g) = WEDGE.lock() {
        if let Some(w) = g.as_mut() {
            w.prop = prop.clone();
            w.scenario = name.clone();
        }
    }
    let rep = run_scenario(scen.as_ref(), &plan);
    Some((rep, plan))
}

fn replay(args: &[String]) -> i32 {
    let Some(path) = args.get(2) else {
        eprintln!("usage: verif-sim replay <file>");
        return 2;
    };
    let quiet = flag(args, "--quiet");
    let trace = flag(args, "--trace");
    let Some(file) = read_json(Path::new(path)) else {
        eprintln!("cannot read {path}");
        return 2;
    };
    let plan0 = file.get("plan").cloned().unwrap_or_else(|| file.clone());
    // a run recorded under the other build (with / without debug assertions) is replayed by that build
    let want_nodebug = jb(&plan0, "no_debug_assertions", false);
    if want_nodebug != !cfg!(debug_assertions) {
        let other = exe_of(want_nodebug);
        if other != std::env::current_exe().expect("current_exe") {
            use std::os::unix::process::CommandExt;
            let err = Command::new(other).args(&args[1..]).exec();
            eprintln!("cannot start the other build: {err}");
            return 2;
        }
    }
    process_setup(jb(&plan0, "subscriber", false), Some(0));
    *WEDGE.lock().unwrap() = Some(WedgeReport { prop: String::new(), scenario: String::new(), index: 0, plan: Value::Null, out: arg(args, "--emit").map(PathBuf::from), replay_mode: true, base: 0 });
    let Some((rep, _plan)) = run_plan_file(&file, trace) else {
        eprintln!("unknown scenario in {path}");
        return 2;
    };
    let class = rep.violation.as_ref().map(|v| v.class.clone());
    if let Some(out) = arg(args, "--emit") {
        write_json(
            Path::new(out),
            &json!({
                "class": class,
                "message": rep.violation.as_ref().map(|v| v.message.clone()),
                "invalid_plan": rep.invalid_plan,
                "harness_error": rep.harness_error,
                "decisions": decisions_json(&rep.outcome.decisions),
                "outcome": outcome_json(&rep.outcome),
                "history": rep.sample,
            }),
        );
    }
    match (&rep.violation, &rep.harness_error) {
        (Some(v), _) => {
            let prop = js(&plan0, "property", js(&file, "property", "?"));
            println!("RESULT class={} hash={:016x}", v.class, rep.outcome.hash);
            if !quiet {
                println!("violation: [{}] {}", v.class, v.message);
                println!("outcome: {}", outcome_json(&rep.outcome));
                if let Some(s) = &rep.sample {
                    println!("history: {}", serde_json::to_string_pretty(s).unwrap());
                }
                if trace {
                    println!("trace: {}", serde_json::to_string_pretty(&trace_json(&rep.outcome, 2000)).unwrap());
                }
                println!("VIOLATION property={prop} replay={path}");
            }
            1
        }
        (None, Some(e)) => {
            println!("RESULT harness_error");
            if !quiet {
                println!("harness error: {e}");
            }
            2
        }
        (None, None) => {
            println!("RESULT pass hash={:016x}", rep.outcome.hash);
            if !quiet {
                println!("no violation; outcome: {}", outcome_json(&rep.outcome));
                if trace {
                    if let Some(s) = &rep.sample {
                        println!("history: {}", serde_json::to_string_pretty(s).unwrap());
                    }
                    println!("trace: {}", serde_json::to_string_pretty(&trace_json(&rep.outcome, 2000)).unwrap());
                }
            }
            0
        }
    }
}

fn one(args: &[String]) -> i32 {
    let prop = args.get(2).cloned().unwrap_or_default();
    let index: u64 = args.get(3).and_then(|s| s.parse().ok()).unwrap_or(0);
    let tier = Tier::parse(arg(args, "--tier").unwrap_or("quick"));
    let base: u64 = std::env::var("VERIF_SEED").ok().and_then(|s| s.parse().ok()).unwrap_or(1);
    let chunk = registry::budget(&prop, tier).chunk;
    let Some((which, mut plan)) = make_plan(&prop, tier, base, index, chunk) else {
        eprintln!("no scenario for {prop}");
        return 2;
    };
    process_setup(jb(&plan, "subscriber", false), Some(0));
    if flag(args, "--trace") {
        plan["trace"] = json!(true);
    }
    let scens = registry::scenarios(&prop);
    println!("plan: {}", serde_json::to_string_pretty(&plan).unwrap());
    if flag(args, "--plan-only") {
        return 0;
    }
    let _ = std::io::stdout().flush();
    let rep = run_scenario(scens[which].as_ref(), &plan);
    println!("outcome: {}", outcome_json(&rep.outcome));
    println!("faults: {:?} probes: {:?}", rep.faults, rep.probes);
    if let Some(s) = &rep.sample {
        println!("history: {}", serde_json::to_string_pretty(s).unwrap());
    }
    if flag(args, "--trace") {
        println!("trace: {}", serde_json::to_string_pretty(&trace_json(&rep.outcome, 5000)).unwrap());
    }
    match (&rep.violation, &rep.harness_error) {
        (Some(v), _) => {
            println!("violation: [{}] {}", v.class, v.message);
            1
        }
        (None, Some(e)) => {
            println!("harness error: {e}");
            2
        }
        _ => 0,
    }
}

// ------------------------------------------------------------------------------------------
// orchestrator
// ------------------------------------------------------------------------------------------

struct Running {
    child: Child,
    out: PathBuf,
    start: u64,
    count: u64,
    cpu: usize,
}

fn spawn_worker(prop: &str, tier: Tier, base: u64, start: u64, count: u64, chunk: u64, cpu: usize, tmpdir: &Path) -> Running {
    let out = tmpdir.join(format!("w-{start}.json"));
    let _ = std::fs::remove_file(&out);
    let exe = exe_of(nodebug_for(start, chunk));
    let child = Command::new(exe)
        .args([
            "worker", "--prop", prop, "--tier", tier.name(), "--seed", &base.to_string(), "--start", &start.to_string(),
            "--count", &count.to_string(), "--chunk", &chunk.to_string(), "--out", out.to_str().unwrap(), "--cpu", &cpu.to_string(),
        ])
        .env("VERIF_WATCHDOG_S", "240")
        .stdin(Stdio::null())
        .stdout(Stdio::null())
        .stderr(Stdio::inherit())
        .spawn()
        .expect("spawn worker");
    Running { child, out, start, count, cpu }
}

/// A worker was killed by a signal somewhere in [start, start+count): find the run index that
/// does it, by re-running sub-ranges in child processes (runs are independent of each other).
fn locate_crash(prop: &str, tier: Tier, base: u64, start: u64, count: u64, chunk: u64, tmpdir: &Path) -> Option<u64> {
    use std::os::unix::process::ExitStatusExt;
    let crashes = |s: u64, c: u64| -> bool {
        let out = tmpdir.join(format!("crash-{s}-{c}.json"));
        let exe = exe_of(nodebug_for(s, chunk));
        let st = Command::new(exe)
            .args(["worker", "--prop", prop, "--tier", tier.name(), "--seed", &base.to_string(), "--start", &s.to_string(), "--count", &c.to_string(), "--chunk", &chunk.to_string(), "--out", out.to_str().unwrap(), "--recheck", "0"])
            .env("VERIF_WATCHDOG_S", "120")
            .stdin(Stdio::null())
            .stdout(Stdio::null())
            .stderr(Stdio::null())
            .status();
        let _ = std::fs::remove_file(&out);
        matches!(st, Ok(st) if st.signal().is_some())
    };
    let (mut lo, mut n) = (start, count);
    if !crashes(lo, n) {
        return None; // not reproducible in a fresh process
    }
    while n > 1 {
        let half = n / 2;
        if crashes(lo, half) {
            n = half;
        } else {
            lo += half;
            n -= half;
        }
    }
    if crashes(lo, 1) { Some(lo) } else { None }
}

#[derive(Default)]
struct Merged {
    done: u64,
    stats: BTreeMap<String, u64>,
    faults: BTreeMap<String, u64>,
    probes: BTreeMap<String, u64>,
    sigs: BTreeSet<String>,
    states: BTreeSet<String>,
    scen_runs: BTreeMap<String, u64>,
    samples: Vec<Value>,
    nontrivial: u64,
    rechecked: u64,
    violations: Vec<Value>,
    harness_errors: Vec<String>,
    known_hits: BTreeMap<String, u64>,
}

fn merge(m: &mut Merged, r: &Value) {
    m.done += ju(r, "done", 0);
    m.nontrivial += ju(r, "nontrivial", 0);
    m.rechecked += ju(r, "rechecked", 0);
    for (name, dst) in [("stats", &mut m.stats), ("faults", &mut m.faults), ("probes", &mut m.probes), ("scenario_runs", &mut m.scen_runs)] {
        if let Some(o) = r.get(name).and_then(|x| x.as_object()) {
            for (k, v) in o {
                let d = dst.entry(k.clone()).or_insert(0);
                *d = d.saturating_add(v.as_u64().unwrap_or(0));
            }
        }
    }
    for s in ja(r, "sigs") {
        if let Some(s) = s.as_str() {
            m.sigs.insert(s.to_string());
        }
    }
    for s in ja(r, "states") {
        if let Some(s) = s.as_str() {
            m.states.insert(s.to_string());
        }
    }
    for s in ja(r, "samples") {
        if m.samples.len() < 3 {
            m.samples.push(s.clone());
        }
    }
}

fn load_known() -> Value {
    read_json(&root().join("known_findings.json")).unwrap_or(json!({"findings": [], "fixed": []}))
}

/// A violation is a known finding if property, scenario and class match an entry (and the
/// entry's optional `message_contains` occurs in the message).
fn known_match<'a>(known: &'a Value, prop: &str, v: &Value) -> Option<&'a Value> {
    ja(known, "findings").iter().find(|f| {
        js(f, "property", "") == prop
            && js(f, "scenario", "") == js(v, "scenario", "?")
            && js(f, "class", "") == js(v, "class", "?")
            && f.get("message_contains").and_then(|m| m.as_str()).map(|m| js(v, "message", "").contains(m)).unwrap_or(true)
    })
}

fn check(args: &[String]) -> i32 {
    let Some(prop) = args.get(2).cloned() else {
        eprintln!("usage: verif-sim check <PROP> --tier quick|thorough");
        return 2;
    };
    let tier = Tier::parse(&std::env::var("VERIF_TIER").ok().unwrap_or_else(|| arg(args, "--tier").unwrap_or("quick").to_string()));
    let base: u64 = std::env::var("VERIF_SEED").ok().and_then(|s| s.parse().ok()).unwrap_or(1);
    let scens = registry::scenarios(&prop);
    if scens.is_empty() {
        eprintln!("HARNESS-ERROR no scenario registered for {prop}");
        return 2;
    }
    let mut budget = registry::budget(&prop, tier);
    if let Some(r) = arg(args, "--runs").and_then(|s| s.parse().ok()) {
        budget.runs = r;
    }
    if let Some(w) = arg(args, "--wall").and_then(|s| s.parse().ok()) {
        budget.wall_s = w;
    }
    let ncpu = std::thread::available_parallelism().map(|n| n.get()).unwrap_or(4).min(16);
    let workers: usize = arg(args, "--workers").and_then(|s| s.parse().ok()).unwrap_or(ncpu);
    let tmpdir = root().join("target").join("work").join(format!("{}-{}-{}", prop, tier.name(), std::process::id()));
    let _ = std::fs::remove_dir_all(&tmpdir);
    std::fs::create_dir_all(&tmpdir).expect("mkdir work");
    let known = load_known();
    let t0 = Instant::now();
    let deadline = t0 + Duration::from_secs(budget.wall_s);

    let mut m = Merged::default();
    let mut next_start = 0u64;
    let mut pending: Vec<(u64, u64)> = vec![]; // remainder of chunks to re-issue (start, count)
    let mut running: Vec<Running> = vec![];
    let mut free_cpus: Vec<usize> = (0..workers).rev().collect();
    let mut stop_at: Option<u64> = None; // do not start runs at or beyond this index
    let mut timed_out = false;
    loop {
        // launch
        while running.len() < workers {
            let job = if let Some(j) = pending.pop() {
                Some(j)
            } else if next_start < budget.runs && stop_at.map(|s| next_start < s).unwrap_or(true) && Instant::now() < deadline {
                let c = budget.chunk.min(budget.runs - next_start);
                let j = (next_start, c);
                next_start += c;
                Some(j)
            } else {
                None
            };
            let Some((s, c)) = job else { break };
            if stop_at.map(|x| s >= x).unwrap_or(false) {
                continue;
            }
            let cpu = free_cpus.pop().unwrap_or(0);
            running.push(spawn_worker(&prop, tier, base, s, c, budget.chunk, cpu, &tmpdir));
        }
        if running.is_empty() {
            break;
        }
        if Instant::now() >= deadline && next_start < budget.runs {
            timed_out = true;
        }
        // poll
        let mut i = 0;
        let mut progressed = false;
        while i < running.len() {
            match running[i].child.try_wait() {
                Ok(Some(status)) => {
                    progressed = true;
                    let r = running.swap_remove(i);
                    free_cpus.push(r.cpu);
                    match read_json(&r.out) {
                        Some(res) => {
                            merge(&mut m, &res);
                            let next = ju(&res, "next", r.start + r.count);
                            if let Some(e) = res.get("harness_error").and_then(|x| x.as_str()) {
                                m.harness_errors.push(e.to_string());
                                stop_at = Some(0);
                            }
                            if let Some(v) = res.get("violation").filter(|v| v.is_object()) {
                                if let Some(k) = known_match(&known, &prop, v) {
                                    let id = js(k, "id", "?").to_string();
                                    *m.known_hits.entry(id).or_insert(0) += 1;
                                    // the listed finding does not hide anything else: keep going
                                    if next < r.start + r.count {
                                        pending.push((next, r.start + r.count - next));
                                    }
                                } else {
                                    m.violations.push(v.clone());
                                    let idx = ju(v, "index", 0);
                                    stop_at = Some(stop_at.map(|s| s.min(idx)).unwrap_or(idx));
                                }
                            } else if next < r.start + r.count && res.get("harness_error").map(|x| x.is_null()).unwrap_or(true) {
                                // retired early (tainting / wedged run without violation): continue the chunk
                                pending.push((next, r.start + r.count - next));
                            }
                            let _ = std::fs::remove_file(&r.out);
                        }
                        None => {
                            use std::os::unix::process::ExitStatusExt;
                            let located = match status.signal() {
                                // SIGKILL is ours / the environment's; everything else came from inside
                                Some(sig) if sig != 9 => locate_crash(&prop, tier, base, r.start, r.count, budget.chunk, &tmpdir).map(|i| (i, sig)),
                                _ => None,
                            };
                            match located {
                                Some((idx, sig)) => {
                                    if let Some((which, plan)) = make_plan(&prop, tier, base, idx, budget.chunk) {
                                        let scen_name = registry::scenarios(&prop)[which].name();
                                        let replay_path = root().join("replays").join(format!("{}-{}-{:016x}.json", prop, scen_name, run_seed(base, &prop, idx)));
                                        let msg = format!("the worker process was terminated by signal {sig} while executing this run (an abort: typically a panic while already panicking, e.g. in a destructor of the code under test)");
                                        write_json(&replay_path, &json!({
                                            "property": prop, "scenario": scen_name, "run_index": idx,
                                            "violation": {"class": "process_abort", "message": msg},
                                            "plan": plan,
                                        }));
                                        m.violations.push(json!({"index": idx, "scenario": scen_name, "class": "process_abort", "message": msg, "replay": replay_path.to_string_lossy()}));
                                        stop_at = Some(stop_at.map(|s| s.min(idx)).unwrap_or(idx));
                                    }
                                }
                                None => {
                                    m.harness_errors.push(format!("worker for runs {}..{} died without a result ({status})", r.start, r.start + r.count));
                                    stop_at = Some(0);
                                }
                            }
                        }
                    }
                }
                Ok(None) => i += 1,
                Err(e) => {
                    m.harness_errors.push(format!("wait failed: {e}"));
                    i += 1;
                }
            }
        }
        if !progressed {
            std::thread::sleep(Duration::from_millis(5));
        }
    }
    let _ = std::fs::remove_dir_all(&tmpdir);
    let explore_wall = t0.elapsed().as_secs_f64();

    for (id, n) in &m.known_hits {
        let what = ja(&known, "findings").iter().find(|f| js(f, "id", "") == id).map(|f| js(f, "what", "")).unwrap_or("");
        println!("KNOWN-FINDING: property={prop} {id}: {what} (re-observed in {n} runs)");
    }

    // pick the violation with the smallest run index (deterministic) and minimise it
    m.violations.sort_by_key(|v| ju(v, "index", 0));
    let mut final_replay: Option<String> = None;
    let mut min_info = Value::Null;
    if let Some(v) = m.violations.first() {
        let path = js(v, "replay", "").to_string();
        let (p, info) = minimise(Path::new(&path), js(v, "class", ""), 90);
        final_replay = Some(p.to_string_lossy().to_string());
        min_info = info;
    }

    // evidence
    let wall = t0.elapsed().as_secs_f64();
    let mut unreached: Vec<String> = vec![];
    let mut probe_names: BTreeSet<String> = BTreeSet::new();
    let mut components = json!({});
    let mut rules = vec![];
    for s in &scens {
        for p in s.probes() {
            probe_names.insert(p.to_string());
        }
        components[s.name()] = s.components();
        rules.push(format!("[{}] {}", s.name(), s.rule()));
    }
    for p in &probe_names {
        if m.probes.get(p).copied().unwrap_or(0) == 0 {
            unreached.push(p.clone());
        }
    }
    let sim_s = m.stats.get("sim_clock_us").copied().unwrap_or(0) as f64 / 1e6;
    let evidence = json!({
        "property_id": prop,
        "tier": tier.name(),
        "seed": base,
        "level": registry::level(&prop),
        "coverage": {
            "evaluations": m.done,
            "distinct_nontrivial": m.sigs.len(),
            "rule": rules.join(" || "),
            "samples": m.samples,
            "exhaustive": false,
            "nontrivial_runs": m.nontrivial,
            "distinct_abstract_states": m.states.len(),
            "runs_per_hour": if explore_wall > 0.0 { (m.done as f64 / explore_wall * 3600.0) as u64 } else { 0 },
            "simulated_seconds_covered": sim_s,
            "scheduling_points": m.stats.get("steps").copied().unwrap_or(0),
            "choice_points": m.stats.get("choices").copied().unwrap_or(0),
            "context_switches": m.stats.get("switches").copied().unwrap_or(0),
            "preemptions": m.stats.get("preemptions").copied().unwrap_or(0),
            "blocking_operations": m.stats.get("blocks").copied().unwrap_or(0),
            "timeouts_fired": m.stats.get("timeouts").copied().unwrap_or(0),
            "inconclusive_runs_step_budget": m.stats.get("inconclusive_runs").copied().unwrap_or(0),
            "runs_under_the_build_without_debug_assertions": m.stats.get("runs_without_debug_assertions").copied().unwrap_or(0),
            "threads_found_asleep_outside_the_simulator": m.stats.get("threads_found_asleep_outside_the_simulator").copied().unwrap_or(0),
            "faults_fired": m.faults,
            "reach_probes": m.probes,
            "probes_unreached": unreached,
            "runs_per_scenario": m.scen_runs,
            "determinism_rechecks": m.rechecked,
            "components": components,
            "workers": workers,
            "stopped_by_wall_clock": timed_out,
            "known_findings_reobserved": m.known_hits,
            "minimisation": min_info,
        },
        "assumptions": [
            "sequentially consistent executions only (one simulated thread runs at a time)",
            "scheduling points exist only at detsim seams; code between two seams is one atomic step",
            "internals of crossbeam ArrayQueue, tokio oneshot, std mpsc (non-blocking use), histogram and metrics-util run real but atomically",
            "sampling, not proof: a clean batch is evidence only for the schedules, histories and fault scripts drawn",
        ],
        "wall_s": wall,
        "violations": m.violations.len(),
    });
    write_json(&root().join("evidence").join(format!("{prop}.json")), &evidence);

    // A violation that reproduces from its replay file in a fresh process stands on its own: it is reported even
    // if some other worker of the same check wedged or died (which a broken tree can cause as well). Without such
    // a violation any harness error makes the check's answer "exit 2", never "OK".
    let reproduced = final_replay.is_some() && !js(&min_info, "status", "").starts_with("unminimised: did not reproduce") && js(&min_info, "status", "") != "unreadable";
    if !m.harness_errors.is_empty() {
        for e in &m.harness_errors {
            eprintln!("HARNESS-ERROR {e}");
        }
        if !reproduced {
            return 2;
        }
    }
    if let Some(p) = final_replay {
        let v = &m.violations[0];
        println!("violation class={} run_index={} scenario={}: {}", js(v, "class", ""), ju(v, "index", 0), js(v, "scenario", ""), js(v, "message", ""));
        println!("VIOLATION property={prop} replay={p}");
        return 1;
    }
    println!(
        "OK property={prop} tier={} seed={base} runs={} distinct_nontrivial={} states={} wall={:.1}s",
        tier.name(), m.done, m.sigs.len(), m.states.len(), wall
    );
    0
}

// ------------------------------------------------------------------------------------------
// minimisation
// ------------------------------------------------------------------------------------------

struct Tester {
    dir: PathBuf,
    n: u64,
    budget: u64,
    deadline: Instant,
    class: String,
}

impl Tester {
    /// Does this replay file still fail with the same violation class? (fresh process each time)
    fn fails(&mut self, file: &Value) -> Option<Value> {
        if self.n >= self.budget || Instant::now() >= self.deadline {
            return None;
        }
        self.n += 1;
        let p = self.dir.join(format!("cand-{}.json", self.n));
        let e = self.dir.join(format!("cand-{}.out.json", self.n));
        write_json(&p, file);
        let exe = exe_of(jb(file.get("plan").unwrap_or(file), "no_debug_assertions", false));
        let mut child = Command::new(exe)
            .args(["replay", p.to_str().unwrap(), "--quiet", "--emit", e.to_str().unwrap()])
            .env("VERIF_WATCHDOG_S", "30")
            .env("VERIF_STUCK_S", "6")
            .stdin(Stdio::null())
            .stdout(Stdio::null())
            .stderr(Stdio::null())
            .spawn()
            .ok()?;
        let status = child.wait().ok();
        let res = read_json(&e);
        let _ = std::fs::remove_file(&p);
        let _ = std::fs::remove_file(&e);
        if res.is_none() && self.class == "process_abort" {
            use std::os::unix::process::ExitStatusExt;
            if let Some(sig) = status.and_then(|s| s.signal()) {
                // the candidate took the whole process down again: same class
                return Some(json!({"class": "process_abort", "message": format!("the process was terminated by signal {sig} while executing this run"), "outcome": {"hash": "abort"}, "history": Value::Null, "decisions": []}));
            }
        }
        let res = res?;
        if res.get("class").and_then(|c| c.as_str()) == Some(self.class.as_str()) {
            Some(res)
        } else {
            None
        }
    }
}

const SKIP_KEYS: [&str; 10] = ["sched", "scenario", "property", "run_index", "run_seed", "base_seed", "tier", "subscriber", "decisions", "trace"];

const NO_SHRINK_INT_KEYS: [&str; 12] = ["obj", "objs", "id", "slot", "tag", "thread", "victim", "slow", "capacity", "target", "shutdown_timeout_ns", "ns"];

fn collect_paths(v: &Value, path: &mut Vec<String>, arrays: &mut Vec<Vec<String>>, ints: &mut Vec<Vec<String>>, top: bool) {
    match v {
        Value::Object(o) => {
            for (k, x) in o {
                if top && SKIP_KEYS.contains(&k.as_str()) {
                    continue;
                }
                path.push(k.clone());
                collect_paths(x, path, arrays, ints, false);
                path.pop();
            }
        }
        Value::Array(a) => {
            arrays.push(path.clone());
            for (i, x) in a.iter().enumerate() {
                path.push(i.to_string());
                collect_paths(x, path, arrays, ints, false);
                path.pop();
            }
        }
        Value::Number(n) => {
            // identifiers are not magnitudes: shrinking them only creates collisions
            let is_ident = path.iter().rev().find(|p| p.parse::<usize>().is_err()).map(|k| NO_SHRINK_INT_KEYS.contains(&k.as_str())).unwrap_or(false);
            if !is_ident && n.as_u64().map(|x| x > 0).unwrap_or(false) {
                ints.push(path.clone());
            }
        }
        _ => {}
    }
}

fn get_mut<'a>(v: &'a mut Value, path: &[String]) -> Option<&'a mut Value> {
    let mut cur = v;
    for p in path {
        cur = match cur {
            Value::Object(o) => o.get_mut(p)?,
            Value::Array(a) => a.get_mut(p.parse::<usize>().ok()?)?,
            _ => return None,
        };
    }
    Some(cur)
}

fn plan_size(v: &Value) -> usize {
    v.to_string().len()
}

/// Shrink the plan (schedule re-derived from the seed), then delta-debug the decision list.
fn minimise(path: &Path, class: &str, wall_s: u64) -> (PathBuf, Value) {
    let Some(orig) = read_json(path) else { return (path.to_path_buf(), json!({"status": "unreadable"})) };
    let dir = root().join("target").join("work").join(format!("min-{}", std::process::id()));
    let _ = std::fs::create_dir_all(&dir);
    let mut t = Tester { dir: dir.clone(), n: 0, budget: 600, deadline: Instant::now() + Duration::from_secs(wall_s), class: class.to_string() };
    let mut best = orig.clone();
    let size0 = plan_size(&orig["plan"]);
    // the original must reproduce in a fresh process first
    let Some(first) = t.fails(&best) else {
        let _ = std::fs::remove_dir_all(&dir);
        return (path.to_path_buf(), json!({"status": "unminimised: did not reproduce in a fresh process", "tests": t.n}));
    };
    let hash0 = js(&first["outcome"], "hash", "").to_string();
    // phase 1: plan shrinking
    let mut improved = true;
    while improved {
        improved = false;
        let mut arrays = vec![];
        let mut ints = vec![];
        collect_paths(&best["plan"], &mut vec![], &mut arrays, &mut ints, true);
        // remove array elements (last to first so indices stay valid within one array)
        for ap in arrays.iter().rev() {
            let len = get_mut(&mut best["plan"], ap).and_then(|a| a.as_array().map(|a| a.len())).unwrap_or(0);
            let mut i = len;
            while i > 0 {
                i -= 1;
                let mut cand = best.clone();
                if let Some(Value::Array(a)) = get_mut(&mut cand["plan"], ap) {
                    if i < a.len() {
                        a.remove(i);
                    } else {
                        continue;
                    }
                }
                if t.fails(&cand).is_some() {
                    best = cand;
                    improved = true;
                }
            }
        }
        let mut ints2 = vec![];
        collect_paths(&best["plan"], &mut vec![], &mut vec![], &mut ints2, true);
        for ip in &ints2 {
            let cur = get_mut(&mut best["plan"], ip).and_then(|x| x.as_u64()).unwrap_or(0);
            for candv in [0, 1, cur / 2, cur.saturating_sub(1)] {
                if candv >= cur {
                    continue;
                }
                let mut cand = best.clone();
                if let Some(x) = get_mut(&mut cand["plan"], ip) {
                    *x = json!(candv);
                }
                if t.fails(&cand).is_some() {
                    best = cand;
                    improved = true;
                    break;
                }
            }
        }
        if t.n >= t.budget || Instant::now() >= t.deadline {
            break;
        }
    }
    // phase 2: freeze the plan, record its decision list, delta-debug it
    let mut dec_before = 0;
    let mut dec_after = 0;
    if let Some(res) = t.fails(&best) {
        let decisions: Vec<Value> = ja(&res, "decisions").to_vec();
        dec_before = decisions.len();
        let mut with = best.clone();
        with["plan"]["decisions"] = Value::Array(decisions.clone());
        if t.fails(&with).is_some() {
            let mut cur = decisions;
            let mut n = 2usize;
            while cur.len() >= 1 && t.n < t.budget && Instant::now() < t.deadline {
                let chunk = cur.len().div_ceil(n);
                let mut reduced = false;
                let mut k = 0;
                while k * chunk < cur.len() {
                    let lo = k * chunk;
                    let hi = (lo + chunk).min(cur.len());
                    let cand_list: Vec<Value> = cur[..lo].iter().chain(cur[hi..].iter()).cloned().collect();
                    let mut cand = best.clone();
                    cand["plan"]["decisions"] = Value::Array(cand_list.clone());
                    if t.fails(&cand).is_some() {
                        cur = cand_list;
                        n = (n - 1).max(2);
                        reduced = true;
                        break;
                    }
                    k += 1;
                }
                if !reduced {
                    if n >= cur.len() {
                        break;
                    }
                    n = (n * 2).min(cur.len());
                }
            }
            dec_after = cur.len();
            best["plan"]["decisions"] = Value::Array(cur);
        }
    }
    // final verification: twice, fresh processes, same class and same choice hash
    t.budget += 4;
    t.deadline = Instant::now() + Duration::from_secs(60);
    let a = t.fails(&best);
    let b = t.fails(&best);
    let ok = match (&a, &b) {
        (Some(a), Some(b)) => js(&a["outcome"], "hash", "x") == js(&b["outcome"], "hash", "y"),
        _ => false,
    };
    let _ = std::fs::remove_dir_all(&dir);
    if !ok {
        return (path.to_path_buf(), json!({"status": "unminimised: minimised candidate did not replay identically twice", "tests": t.n, "original_hash": hash0}));
    }
    let a = a.unwrap();
    best["violation"] = json!({"class": a["class"], "message": a["message"]});
    best["outcome"] = a["outcome"].clone();
    best["history"] = a["history"].clone();
    best["minimised_from"] = json!(path.to_string_lossy());
    let out = path.with_extension("min.json");
    write_json(&out, &best);
    let info = json!({
        "status": "minimised", "tests": t.n, "plan_bytes_before": size0, "plan_bytes_after": plan_size(&best["plan"]),
        "decisions_before": dec_before, "decisions_after": dec_after, "replay": out.to_string_lossy(),
    });
    (out, info)
}

// ------------------------------------------------------------------------------------------
// determinism self-test
// ------------------------------------------------------------------------------------------

/// For every claimed property: run N indices (a) twice in this process at different positions,
/// (b) and compare with a fresh process per chunk under a different CPU pinning.
fn selftest_determinism(args: &[String]) -> i32 {
    let n: u64 = arg(args, "--runs").and_then(|s| s.parse().ok()).unwrap_or(300);
    let base: u64 = std::env::var("VERIF_SEED").ok().and_then(|s| s.parse().ok()).unwrap_or(1);
    if let Some(prop) = arg(args, "--emit-hashes") {
        // child mode: print "index hash sig steps" lines for the given property
        let tier = Tier::Quick;
        let chunk = registry::budget(prop, tier).chunk;
        let start: u64 = arg(args, "--start").and_then(|s| s.parse().ok()).unwrap_or(0);
        let sub = subscriber_for(start, chunk);
        process_setup(sub, arg(args, "--cpu").and_then(|s| s.parse().ok()));
        let order_rev = flag(args, "--reverse");
        let scens = registry::scenarios(prop);
        let mut idxs: Vec<u64> = (start..start + n).filter(|i| subscriber_for(*i, chunk) == sub).collect();
        if order_rev {
            idxs.reverse();
        }
        // resume after a tainting run (which retires its process, exactly as in a check)
        if let Some(after) = arg(args, "--after").and_then(|s| s.parse::<u64>().ok()) {
            if let Some(pos) = idxs.iter().position(|i| *i == after) {
                idxs.drain(..=pos);
            }
        }
        for i in idxs {
            let (which, plan) = make_plan(prop, tier, base, i, chunk).unwrap();
            let rep = run_scenario(scens[which].as_ref(), &plan);
            // also what the run *observed* (the recorded history sample, abstract states, probes and fault counts):
            // two executions can take the same schedule and still see different data if some source of
            // nondeterminism sits outside the scheduler (an unseeded hash map, OS randomness, a real clock)
            let mut states = rep.states.clone();
            states.sort_unstable(); // (a set: its order carries no information)
            let observed = hash_value(&json!([rep.sample, states, rep.probes, rep.faults, rep.violation.as_ref().map(|v| (v.class.clone(), v.message.clone()))]));
            if std::env::var("VERIF_SELFTEST_DUMP").ok().and_then(|s| s.parse::<u64>().ok()) == Some(i) {
                eprintln!("{}", serde_json::to_string_pretty(&json!([rep.sample, rep.states, rep.probes, rep.faults])).unwrap());
            }
            println!("{i} {:016x} {:016x} {} {} {observed:016x}", rep.outcome.hash, rep.case_sig, rep.outcome.steps, rep.violation.is_some());
            if rep.outcome.wedged || rep.tainting {
                // this process must not run another simulation; the parent resumes in a fresh one
                println!("TAINTED {i}");
                break;
            }
        }
        return 0;
    }
    let mut bad = 0;
    let only = arg(args, "--only").map(|s| s.to_string());
    for prop in registry::CLAIMED {
        if only.as_deref().map(|o| o != prop.to_string()).unwrap_or(false) {
            continue;
        }
        let chunk = registry::budget(prop, Tier::Quick).chunk;
        let mut outs: Vec<BTreeMap<u64, String>> = vec![];
        for (cpu, rev, start) in [("0", false, 0u64), ("3", true, 0), ("none", false, 0), ("5", false, chunk), ("7", true, chunk)] {
            let exe = std::env::current_exe().unwrap();
            let mut mp = BTreeMap::new();
            let mut after: Option<u64> = None;
            loop {
                let mut c = Command::new(&exe);
                c.args(["selftest-determinism", "--emit-hashes", prop, "--runs", &n.to_string(), "--start", &start.to_string()]);
                if cpu != "none" {
                    c.args(["--cpu", cpu]);
                }
                if rev {
                    c.arg("--reverse");
                }
                if let Some(a) = after {
                    c.args(["--after", &a.to_string()]);
                }
                c.env("VERIF_WATCHDOG_S", "300");
                let o = c.output().expect("child");
                let mut tainted = None;
                for l in String::from_utf8_lossy(&o.stdout).lines() {
                    if let Some((i, rest)) = l.split_once(' ') {
                        if i == "TAINTED" {
                            tainted = rest.trim().parse::<u64>().ok();
                        } else if let Ok(i) = i.parse::<u64>() {
                            mp.insert(i, rest.to_string());
                        }
                    }
                }
                match tainted {
                    Some(t) => after = Some(t),
                    None => break,
                }
            }
            outs.push(mp);
        }
        let mut compared = 0;
        for group in [&outs[0..3], &outs[3..5]] {
            let first = &group[0];
            for other in &group[1..] {
                for (i, h) in first {
                    if let Some(h2) = other.get(i) {
                        compared += 1;
                        if h != h2 {
                            bad += 1;
                            println!("NONDETERMINISM property={prop} run_index={i}: '{h}' vs '{h2}'");
                        }
                    }
                }
            }
        }
        println!("selftest-determinism {prop}: {compared} comparisons across processes / orders / cpu pinning, {bad} mismatches so far");
    }
    if bad > 0 { 2 } else { 0 }
}
