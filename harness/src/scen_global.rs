//! C17 — global sinks route each entry to exactly one destination by fixed precedence
//! (thread-local test sink > runtime test sink > attached sink), panics do not damage the
//! global, detach flushes. Also the C05 clause about the attach handle of a queue-backed global.
//! Real code: two `global_entry_sink!` expansions (RwLock seam), AttachHandle, the thread-local
//! and tokio-runtime test sinks, BackgroundQueue as attached destination.

use std::collections::{BTreeMap, BTreeSet};
use std::sync::{Arc, Mutex};
use std::time::Duration;

use detsim::rng::{mix, Rng};
use metrique_writer::sink::{global_entry_sink, BackgroundQueueBuilder};
use metrique_writer::{AnyEntrySink, AttachGlobalEntrySink, AttachGlobalEntrySinkExt, BoxEntrySink, Entry, GlobalEntrySink};
use metrique_writer_core::global::{AttachHandle, ThreadLocalTestSinkGuard, TokioRuntimeTestSinkGuard};
use metrique_writer_core::sink::FlushWait;
use serde_json::{json, Value};

use crate::common::*;
use crate::framework::*;

global_entry_sink! { GlobalA }
// the second global is the one the library itself ships (metrique-service-metrics): the same macro, expanded in
// that crate
use metrique_service_metrics::ServiceMetrics as GlobalB;

#[derive(Clone, Debug)]
pub enum GK {
    OpBegin { op: String },
    OpEnd { op: String, outcome: String },
    Deliver { dest: u64, id: u64 },
    /// threads still alive after every attach handle was dropped
    Leak { threads: Vec<String> },
}

#[derive(Clone, Debug)]
pub struct GEv {
    pub seq: u64,
    pub tid: usize,
    pub k: GK,
}

#[derive(Clone, Default)]
pub struct GLog(Arc<Mutex<Vec<GEv>>>);
impl GLog {
    fn log(&self, k: GK) -> u64 {
        let seq = detsim::next_seq();
        self.0.lock().unwrap().push(GEv { seq, tid: detsim::current_tid().unwrap_or(0), k });
        seq
    }
    fn snapshot(&self) -> Vec<GEv> {
        self.0.lock().unwrap().clone()
    }
}

/// a direct destination: records (dest, entry id)
#[derive(Clone)]
struct Dest {
    no: u64,
    log: GLog,
    /// a test sink that panics on entries it considers invalid (ids divisible by 5), as the
    /// documentation encourages test sinks to do
    strict: bool,
    /// no scheduling point inside append
    atomic: bool,
    /// tearing this sink down takes a while (scheduling points inside its Drop): a runtime test sink is dropped by
    /// its guard while the registry of runtime test sinks is locked
    slow_drop: bool,
}

impl Drop for Dest {
    fn drop(&mut self) {
        if self.slow_drop {
            for _ in 0..3 {
                detsim::yield_point();
            }
        }
    }
}

pub const STRICT_PANIC: &str = "harness: strict test sink rejects this entry";

impl AnyEntrySink for Dest {
    fn append_any(&self, entry: impl Entry + Send + 'static) {
        if !self.atomic {
            detsim::yield_point();
        }
        let mut seen = Seen::default();
        entry.write(&mut seen);
        let id = seen.id.unwrap_or(u64::MAX);
        self.log.log(GK::Deliver { dest: self.no, id });
        if self.strict && id % 5 == 0 {
            std::panic::panic_any(STRICT_PANIC);
        }
    }
    fn flush_async(&self) -> FlushWait {
        FlushWait::ready()
    }
}

macro_rules! with_global {
    ($g:expr, $G:ident => $body:expr) => {
        if $g == 0 {
            type $G = GlobalA;
            $body
        } else {
            type $G = GlobalB;
            $body
        }
    };
}

/// a sink handle whose destructor reports through the global it was meant for (with an id no strict sink rejects:
/// the destructor runs while the refused attach unwinds)
struct EmitOnDrop {
    g: u64,
    id: u64,
}

impl Drop for EmitOnDrop {
    fn drop(&mut self) {
        let (g, id) = (self.g, self.id);
        let _ = with_global!(g, G => G::try_append(IdEntry(id)));
    }
}


/// plan key `stream_echo` of an attach: the queue's output stream itself reports through the global it serves (a
/// writer that counts its bytes as a metric, say) - on the queue's *writer thread*, for its first two entries
/// (ids 7 000 000 + ...: no operation of the plan owns them, so the routing oracle leaves them alone).
fn stream_echo(s: &mut RecStream, op: &Value, g: u64, dest: u64) {
    // plan key `stream_panics_at`: the queue's output stream panics for its n-th entry - the writer thread dies, what
    // is queued behind stays unwritten, and dropping the attach handle cannot claim otherwise (it panics)
    s.panic_at_entry = op.get("stream_panics_at").and_then(|x| x.as_u64());
    if jb(op, "stream_echo", false) {
        s.on_entry_next.set(move |n: u64| {
            if n < 2 {
                let _ = with_global!(g, G => G::try_append(IdEntry(7_000_000 + 10 * dest + n)));
            }
        });
    }
}

/// a handle whose destructor panics (a join handle whose thread died, say): the detach propagates the panic, but the
/// global must be detached and usable afterwards
struct PanicOnDrop;
pub const HANDLE_PANIC: &str = "harness: the destructor of the handle that came with the sink panics";
impl Drop for PanicOnDrop {
    fn drop(&mut self) {
        if !std::thread::panicking() {
            std::panic::panic_any(HANDLE_PANIC);
        }
    }
}

/// a handle whose destructor takes as long as the harness says (a final flush that blocks): it reports that it has
/// begun and then waits for the gate
struct SlowHandle {
    begun: Arc<std::sync::atomic::AtomicBool>,
    key: u64,
    gate: Arc<std::sync::atomic::AtomicBool>,
}
impl Drop for SlowHandle {
    fn drop(&mut self) {
        self.begun.store(true, std::sync::atomic::Ordering::SeqCst);
        detsim::unblock(self.key);
        let mut n = 0;
        while !self.gate.load(std::sync::atomic::Ordering::SeqCst) && n < 10_000 {
            detsim::sleep_ns(1_000_000);
            n += 1;
        }
    }
}

/// A hand-written (sink, handle) pair: the sink hands the entries it buffered to its writer when it is dropped, the
/// handle - dropped after the sink, as the pair says - is what waits for that writer. Here: the sink's destructor
/// delivers what it buffered unless the handle is already gone (then nobody is left to take it).
struct BufferedDest {
    no: u64,
    log: GLog,
    buf: Mutex<Vec<u64>>,
    handle_gone: Arc<std::sync::atomic::AtomicBool>,
}
impl AnyEntrySink for BufferedDest {
    fn append_any(&self, entry: impl Entry + Send + 'static) {
        detsim::yield_point();
        let mut seen = Seen::default();
        entry.write(&mut seen);
        self.buf.lock().unwrap().push(seen.id.unwrap_or(u64::MAX));
    }
    fn flush_async(&self) -> FlushWait {
        FlushWait::ready()
    }
}
impl Drop for BufferedDest {
    fn drop(&mut self) {
        if !self.handle_gone.load(std::sync::atomic::Ordering::SeqCst) {
            for id in self.buf.lock().unwrap().drain(..) {
                self.log.log(GK::Deliver { dest: self.no, id });
            }
        }
    }
}
struct BufferedHandle(Arc<std::sync::atomic::AtomicBool>);
impl Drop for BufferedHandle {
    fn drop(&mut self) {
        detsim::yield_point();
        self.0.store(true, std::sync::atomic::Ordering::SeqCst);
    }
}

struct ThreadState {
    slow_helpers: Vec<detsim::thread::JoinHandle<()>>,
    /// how many of them are attach helpers (control operations in flight)
    attach_helpers: u32,
    tl_guard: [Option<ThreadLocalTestSinkGuard>; 2],
    /// a clone of the thread-local test sink that is installed right now
    tl_sink: [Option<BoxEntrySink>; 2],
    rt_enter: Option<(u64, tokio::runtime::EnterGuard<'static>)>,
}

struct Ctl {
    /// (begun, key, gate) of the slow handle that came with the currently attached sink, if it has one
    slow: [Option<(Arc<std::sync::atomic::AtomicBool>, u64, Arc<std::sync::atomic::AtomicBool>)>; 2],
    /// the attached sink is a queue whose output stream is going to panic (its writer thread dies): dropping its
    /// attach handle panics, so that handle is never dropped *during* an unwinding (two panics at once abort)
    panicky: [bool; 2],
    /// gates of slow destructors that are running (on helper threads) and have not been let go yet
    pending_gates: Vec<Arc<std::sync::atomic::AtomicBool>>,
    attach: [Option<AttachHandle>; 2],
    rt_guard: BTreeMap<(u64, u64), TokioRuntimeTestSinkGuard>,
}

fn catch<R>(f: impl FnOnce() -> R) -> Result<R, String> {
    std::panic::catch_unwind(std::panic::AssertUnwindSafe(f)).map_err(|e| detsim::sched::panic_message(&e))
}

fn g_ops(plan: &Value, tno: u64, ops: &[Value], log: &GLog, hist: &History, rts: &'static [tokio::runtime::Runtime], ctl: &Arc<detsim::sync::Mutex<Ctl>>) {
    let mut ts = ThreadState { slow_helpers: vec![], attach_helpers: 0, tl_guard: [None, None], tl_sink: [None, None], rt_enter: None };
    let _ = plan;
    for op in ops {
        let name = js(op, "op", "").to_string();
        let g = ju(op, "g", 0).min(1);
        let gi = g as usize;
        // control operations on one global never overlap: before the control thread attaches / detaches / forgets while
        // a helper of its own is still attaching, the pending slow destructors are let go and the helpers joined
        if tno == 0 && ts.attach_helpers > 0 && matches!(name.as_str(), "attach" | "detach" | "forget") && !jb(op, "on_helper", false) {
            let d = format!("slow_finish t0 {}", json!({"op":"slow_finish","g":g,"implicit":true}));
            log.log(GK::OpBegin { op: d.clone() });
            for gate in ctl.lock().unwrap().pending_gates.drain(..) {
                gate.store(true, std::sync::atomic::Ordering::SeqCst);
            }
            for h in ts.slow_helpers.drain(..) {
                let _ = h.join();
            }
            ts.attach_helpers = 0;
            log.log(GK::OpEnd { op: d, outcome: "ok".into() });
        }
        let desc = format!("{} t{} {}", name, tno, op);
        log.log(GK::OpBegin { op: desc.clone() });
        let outcome: String = match name.as_str() {
            "attach" if jb(op, "on_helper", false) || (tno == 0 && !jb(op, "inline", false) && !ctl.lock().unwrap().pending_gates.is_empty()) => {
                // the attach is made by a helper thread (an implementation may make it wait for a detach that is still
                // in progress); the control thread carries on and joins the helper at `slow_finish` / at its end
                let mut op2 = op.clone();
                op2["on_helper"] = json!(false);
                op2["inline"] = json!(true);
                let (p2, l2, h2, c2) = (plan.clone(), log.clone(), hist.clone(), ctl.clone());
                ts.slow_helpers.push(detsim::thread::spawn_named("attach-helper", move || g_ops(&p2, 1_000, &[op2], &l2, &h2, rts, &c2)));
                ts.attach_helpers += 1;
                "spawned".into()
            }
            "attach" => {
                let dest = ju(op, "dest", 0);
                let queue = jb(op, "queue", false);
                let r = catch(|| {
                    if queue && jb(op, "stream", false) {
                        // the convenience form: attach_to_stream builds the queue itself
                        let (mut s, _ctl) = RecStream::new(dest as u32, hist.clone(), -1);
                        // (plan key `next_cost_ns`: a slow device - with the convenience form the queue keeps its documented
                        // default shutdown timeout of 30 s, which a backlog of 6 - 20 s must fit into)
                        s.next_cost_ns = ju(op, "next_cost_ns", 1_000);
                        stream_echo(&mut s, op, g, dest);
                        with_global!(g, G => G::attach_to_stream(s))
                    } else if queue {
                        let (mut s, _ctl) = RecStream::new(dest as u32, hist.clone(), -1);
                        s.next_cost_ns = 1_000;
                        stream_echo(&mut s, op, g, dest);
                        let (sink, handle) = BackgroundQueueBuilder::new()
                            .capacity(256)
                            .thread_name(format!("gq{dest}"))
                            .flush_interval(Duration::from_millis(50))
                            .shutdown_timeout(Duration::from_secs(1_000_000))
                            .build_boxed(s);
                        with_global!(g, G => G::attach((sink, handle)))
                    } else {
                        let sink = BoxEntrySink::new(Dest { no: dest, log: log.clone(), strict: jb(op, "strict", false), atomic: false, slow_drop: false });
                        // The handle that comes with the sink may emit a last entry through this very global when it is
                        // dropped: at once when the attach is refused, at the detach when it was accepted (plan key
                        // `emitting_handle_accepted`; until fix: commit of 12.3 #7 the detach dropped it under the
                        // global's write lock).
                        let refused = ctl.lock().unwrap().attach[gi].is_some();
                        // (a buffering pair only where no thread takes a clone of the sink out of the global - `sink()` -
                        // in this run: a clone that outlives the detach keeps the sink alive past its handle whatever
                        // the global does)
                        let clones_taken = ja(plan, "threads").iter().flat_map(|t| t.as_array().map(|a| a.iter()).into_iter().flatten()).any(|o| js(o, "op", "") == "append" && js(o, "how", "") == "sink" && ju(o, "g", 0).min(1) == g);
                        if !refused && js(op, "handle", "") == "buffered" && !clones_taken {
                            let gone = Arc::new(std::sync::atomic::AtomicBool::new(false));
                            let sink = BoxEntrySink::new(BufferedDest { no: dest, log: log.clone(), buf: Mutex::new(vec![]), handle_gone: gone.clone() });
                            with_global!(g, G => G::attach((sink, BufferedHandle(gone))))
                        } else if !refused && js(op, "handle", "") == "panic" {
                            with_global!(g, G => G::attach((sink, PanicOnDrop)))
                        } else if !refused && js(op, "handle", "") == "slow" {
                            let (begun, key, gate) = (Arc::new(std::sync::atomic::AtomicBool::new(false)), detsim::fresh_key(), Arc::new(std::sync::atomic::AtomicBool::new(false)));
                            ctl.lock().unwrap().slow[gi] = Some((begun.clone(), key, gate.clone()));
                            with_global!(g, G => G::attach((sink, SlowHandle { begun, key, gate })))
                        } else if jb(op, "emitting_handle", false) && (refused || jb(op, "emitting_handle_accepted", false)) {
                            with_global!(g, G => G::attach((sink, EmitOnDrop { g, id: 9_000_001 + 5 * dest })))
                        } else {
                            with_global!(g, G => G::attach((sink, ())))
                        }
                    }
                });
                match r {
                    Ok(h) => {
                        let mut c = ctl.lock().unwrap();
                        c.attach[gi] = Some(h);
                        c.panicky[gi] = queue && op.get("stream_panics_at").map(|x| x.is_u64()).unwrap_or(false);
                        "ok".into()
                    }
                    Err(p) => format!("panic:{p}"),
                }
            }
            "detach" if ctl.lock().unwrap().slow[gi].is_some() && ctl.lock().unwrap().attach[gi].is_some() => {
                // the handle that came with the sink has a slow destructor: the attach handle is dropped on a helper
                // thread, and this operation ends when that destructor has *begun* (the sink is out of the global by
                // then, routing has moved on); `slow_finish` lets the destructor return and joins the helper
                let (h, (begun, key, _gate)) = {
                    let mut c = ctl.lock().unwrap();
                    let s = c.slow[gi].take().unwrap();
                    c.pending_gates.push(s.2.clone());
                    (c.attach[gi].take().unwrap(), s)
                };
                let helper = detsim::thread::spawn_named("slow-detach", move || drop(h));
                let mut n = 0;
                while !begun.load(std::sync::atomic::Ordering::SeqCst) && n < 1_000 {
                    let _ = detsim::block_on_key(key, Some(detsim::clock_ns() + 1_000_000), detsim::site());
                    n += 1;
                }
                ts.slow_helpers.push(helper);
                if begun.load(std::sync::atomic::Ordering::SeqCst) { "ok".into() } else { "stuck".into() }
            }
            "slow_finish" => {
                for gate in ctl.lock().unwrap().pending_gates.drain(..) {
                    gate.store(true, std::sync::atomic::Ordering::SeqCst);
                }
                for h in ts.slow_helpers.drain(..) {
                    let _ = h.join();
                }
                ts.attach_helpers = 0;
                "ok".into()
            }
            "detach" => {
                let h = ctl.lock().unwrap().attach[gi].take();
                match h {
                    Some(h) if jb(op, "in_panic", false) && !ctl.lock().unwrap().panicky[gi] => {
                        // the attach handle is a local of a scope that unwinds
                        let _ = std::panic::catch_unwind(std::panic::AssertUnwindSafe(move || {
                            let _local = h;
                            std::panic::resume_unwind(Box::new("harness: unwinding through the scope that owns the attach handle"));
                        }));
                        "ok".into()
                    }
                    Some(h) => match catch(|| drop(h)) {
                        Ok(()) => "ok".into(),
                        Err(p) => format!("panic:{p}"),
                    },
                    None => "none".into(),
                }
            }
            "forget" => {
                let h = ctl.lock().unwrap().attach[gi].take();
                match h {
                    Some(h) => {
                        h.forget();
                        ctl.lock().unwrap().slow[gi] = None;
                        "ok".into()
                    }
                    None => "none".into(),
                }
            }
            "tl_set" => {
                let dest = ju(op, "dest", 0);
                let fresh = BoxEntrySink::new(Dest { no: dest, log: log.clone(), strict: jb(op, "strict", false), atomic: false, slow_drop: false });
                // a second install while one is in place is refused whatever is installed - also the very sink that is
                // installed already (every other time: a clone of it)
                let sink = match &ts.tl_sink[gi] {
                    Some(cur) if ts.tl_guard[gi].is_some() && detsim::choices() % 2 == 0 => cur.clone(),
                    _ => fresh,
                };
                let keep = sink.clone();
                match catch(|| with_global!(g, G => G::set_test_sink(sink))) {
                    Ok(guard) => {
                        ts.tl_guard[gi] = Some(guard);
                        ts.tl_sink[gi] = Some(keep);
                        "ok".into()
                    }
                    Err(p) => format!("panic:{p}"),
                }
            }
            "tl_drop" => {
                ts.tl_sink[gi] = None;
                if ts.tl_guard[gi].take().is_some() { "ok".into() } else { "none".into() }
            }
            "with_tl" => {
                let dest = ju(op, "dest", 0);
                let id = ju(op, "id", 0);
                let sink = BoxEntrySink::new(Dest { no: dest, log: log.clone(), strict: false, atomic: false, slow_drop: false });
                let panic_after = jb(op, "panic_after", false);
                match catch(|| with_global!(g, G => G::with_test_sink(sink, || {
                    G::append(IdEntry(id));
                    if panic_after {
                        std::panic::panic_any("harness: the closure given to with_test_sink panics");
                    }
                }))) {
                    Ok(()) => "ok".into(),
                    Err(p) => format!("panic:{p}"),
                }
            }
            "rt_set" => {
                let dest = ju(op, "dest", 0);
                let r = ju(op, "rt", 0) as usize % rts.len().max(1);
                let sink = BoxEntrySink::new(Dest { no: dest, log: log.clone(), strict: jb(op, "strict", false), atomic: !jb(op, "yields", false), slow_drop: jb(op, "slow_drop", false) });
                let handle = rts[r].handle().clone();
                // inside that very runtime's context the "current runtime" form is equivalent
                let on_current = ts.rt_enter.as_ref().map(|(cur, _)| *cur == r as u64).unwrap_or(false);
                match catch(|| with_global!(g, G => if on_current { G::set_test_sink_on_current_tokio_runtime(sink) } else { G::set_test_sink_for_tokio_runtime(&handle, sink) })) {
                    Ok(guard) => {
                        ctl.lock().unwrap().rt_guard.insert((g, r as u64), guard);
                        "ok".into()
                    }
                    Err(p) => format!("panic:{p}"),
                }
            }
            "rt_drop" => {
                let r = ju(op, "rt", 0) % rts.len().max(1) as u64;
                let gd = ctl.lock().unwrap().rt_guard.remove(&(g, r));
                if gd.is_some() { "ok".into() } else { "none".into() }
            }
            "rt_drop_both" => {
                // the guards of both runtimes (same global) go away at the same time on two threads: each drop
                // takes the registry lock, and a slow sink is torn down while it is held
                let (g0, g1) = {
                    let mut c = ctl.lock().unwrap();
                    (c.rt_guard.remove(&(g, 0)), c.rt_guard.remove(&(g, 1)))
                };
                let out = format!("{}{}", if g0.is_some() { "a" } else { "-" }, if g1.is_some() { "b" } else { "-" });
                let helper = detsim::thread::spawn_named("guard-dropper", move || drop(g1));
                drop(g0);
                let _ = helper.join();
                out
            }
            "enter" => {
                let r = ju(op, "rt", 0) as usize % rts.len().max(1);
                if ts.rt_enter.is_none() && !rts.is_empty() {
                    ts.rt_enter = Some((r as u64, rts[r].enter()));
                    "ok".into()
                } else {
                    "none".into()
                }
            }
            "leave" => {
                if ts.rt_enter.take().is_some() { "ok".into() } else { "none".into() }
            }
            "append" => {
                let id = ju(op, "id", 0);
                match js(op, "how", "append") {
                    "try" => match catch(|| with_global!(g, G => G::try_append(IdEntry(id)))) {
                        Ok(Ok(())) => "ok".into(),
                        Ok(Err(e)) => format!("returned:{}", e.0),
                        Err(p) => format!("panic:{p}"),
                    },
                    "sink" => match catch(|| with_global!(g, G => G::sink().append_any(IdEntry(id)))) {
                        Ok(()) => "ok".into(),
                        Err(p) => format!("panic:{p}"),
                    },
                    _ => match catch(|| with_global!(g, G => G::append(IdEntry(id)))) {
                        Ok(()) => "ok".into(),
                        Err(p) => format!("panic:{p}"),
                    },
                }
            }
            "is_attached" => match catch(|| with_global!(g, G => G::is_attached())) {
                Ok(b) => format!("{b}"),
                Err(p) => format!("panic:{p}"),
            },
            "sleep" => {
                detsim::sleep_ns(ju(op, "ns", 0));
                "ok".into()
            }
            _ => "skip".into(),
        };
        log.log(GK::OpEnd { op: desc, outcome });
    }
    // leave the thread clean (slow handles belong to the control thread)
    if tno == 0 {
        for gate in ctl.lock().unwrap().pending_gates.drain(..) {
            gate.store(true, std::sync::atomic::Ordering::SeqCst);
        }
    }
    for h in ts.slow_helpers.drain(..) {
        let _ = h.join();
    }
    ts.tl_guard = [None, None];
    ts.tl_sink = [None, None];
    ts.rt_enter = None;
}

fn runtimes() -> &'static [tokio::runtime::Runtime] {
    static RTS: std::sync::OnceLock<Vec<tokio::runtime::Runtime>> = std::sync::OnceLock::new();
    RTS.get_or_init(|| (0..2).map(|_| tokio::runtime::Builder::new_current_thread().build().expect("rt")).collect())
}

fn global_main(plan: &Value, log: GLog, hist: History) {
    // (process-global state: a run must find both globals unattached; a forgotten handle retires the worker)
    if GlobalA::is_attached() || GlobalB::is_attached() {
        log.log(GK::Leak { threads: vec!["a global sink was still attached when this run began (left behind by the previous run of this process)".into()] });
        return;
    }
    let rts = runtimes();
    let ctl = Arc::new(detsim::sync::Mutex::new(Ctl { slow: [None, None], panicky: [false, false], pending_gates: vec![], attach: [None, None], rt_guard: BTreeMap::new() }));
    let mut hs = vec![];
    for (i, ops) in ja(plan, "threads").iter().enumerate().skip(1) {
        let ops: Vec<Value> = ops.as_array().cloned().unwrap_or_default();
        let (l, h, c, p) = (log.clone(), hist.clone(), ctl.clone(), plan.clone());
        hs.push(detsim::thread::spawn_named(&format!("g{i}"), move || g_ops(&p, i as u64, &ops, &l, &h, rts, &c)));
    }
    let ops0: Vec<Value> = ja(plan, "threads").first().and_then(|o| o.as_array().cloned()).unwrap_or_default();
    g_ops(plan, 0, &ops0, &log, &hist, rts, &ctl);
    for h in hs {
        let _ = h.join();
    }
    // restore the process-global state (forgotten handles cannot be restored: tainting)
    let mut c = ctl.lock().unwrap();
    c.rt_guard.clear();
    let hs: Vec<AttachHandle> = c.attach.iter_mut().filter_map(|h| h.take()).collect();
    for s in c.slow.iter_mut() {
        if let Some((_, _, gate)) = s.take() {
            gate.store(true, std::sync::atomic::Ordering::SeqCst);
        }
    }
    drop(c);
    for h in hs {
        log.log(GK::OpBegin { op: "final_detach".into() });
        // (a handle whose destructor panics: expected, caught)
        let _ = catch(|| drop(h));
        log.log(GK::OpEnd { op: "final_detach".into(), outcome: "ok".into() });
    }
    // Every attach handle has been dropped (unless the plan forgets one): no writer thread of a queue that was
    // attached may still be alive. One that is would keep the run going to the step budget, unjudged: say so and end
    // the run here.
    if !jb(plan, "tainting", false) {
        let live: Vec<String> = detsim::live_threads().into_iter().filter(|(t, _)| Some(*t) != detsim::current_tid()).map(|(_, n)| n).collect();
        if !live.is_empty() {
            log.log(GK::Leak { threads: live });
            detsim::abort_run();
        }
    }
}

// ------------------------------------------------------------------------------------------
// oracle: reference model with linearisation windows
// ------------------------------------------------------------------------------------------

#[derive(Clone, Debug)]
struct Op {
    inv: u64,
    ret: u64,
    tno: u64,
    name: String,
    spec: Value,
    outcome: String,
}

fn parse_ops(h: &[GEv]) -> Vec<Op> {
    let mut open: BTreeMap<usize, (u64, String)> = BTreeMap::new();
    let mut ops = vec![];
    for e in h {
        match &e.k {
            GK::OpBegin { op } => {
                open.insert(e.tid, (e.seq, op.clone()));
            }
            GK::OpEnd { op, outcome } => {
                if let Some((inv, d)) = open.remove(&e.tid) {
                    if &d == op {
                        let mut parts = op.splitn(3, ' ');
                        let name = parts.next().unwrap_or("").to_string();
                        let tno = parts.next().unwrap_or("t0").trim_start_matches('t').parse().unwrap_or(0);
                        let spec: Value = parts.next().and_then(|s| serde_json::from_str(s).ok()).unwrap_or(Value::Null);
                        ops.push(Op { inv, ret: e.seq, tno, name, spec, outcome: outcome.clone() });
                    }
                }
            }
            _ => {}
        }
    }
    ops
}

/// Values a sequentially controlled variable may have at some instant of the window [inv, ret]:
/// the value established by the last control op that returned before `inv`, plus the value
/// before/after every control op overlapping the window.
fn candidates(changes: &[(u64, u64, Option<u64>)], inv: u64, ret: u64) -> BTreeSet<Option<u64>> {
    // changes: (inv, ret, new value) of successful control ops, in program order of the one control thread
    let mut cur: Option<u64> = None;
    let mut out = BTreeSet::new();
    let mut settled = false;
    for (ci, cr, v) in changes {
        if *cr < inv {
            cur = *v;
        } else if *ci > ret {
            break;
        } else {
            // overlaps: both the old and the new value are possible
            if !settled {
                out.insert(cur);
                settled = true;
            }
            out.insert(*v);
            cur = *v;
        }
    }
    if !settled {
        out.insert(cur);
    }
    out
}

pub fn check_c17(plan: &Value, h: &[GEv], hist: &[Ev]) -> Option<Violation> {
    let _ = plan;
    let ops = parse_ops(h);
    // destinations created as strict test sinks (they panic on ids divisible by 5 after recording the delivery)
    let strict_dests: BTreeSet<u64> = ops.iter().filter(|o| matches!(o.name.as_str(), "tl_set" | "rt_set" | "attach") && jb(&o.spec, "strict", false) && !(o.name == "attach" && jb(&o.spec, "queue", false))).map(|o| ju(&o.spec, "dest", 0)).collect();
    // deliveries per entry id: direct destinations and queue-backed ones (stream no = dest)
    let mut delivered: BTreeMap<u64, Vec<(u64, u64)>> = BTreeMap::new();
    for e in h {
        if let GK::Deliver { dest, id } = &e.k {
            delivered.entry(*id).or_default().push((*dest, e.seq));
        }
    }
    for e in hist {
        if let K::NextBegin { stream, id: Some(id), report: false } = &e.k {
            delivered.entry(*id).or_default().push((*stream as u64, e.seq));
        }
    }
    for g in 0..2u64 {
        // model of the sequentially controlled parts (all on thread 0)
        let mut attached_changes: Vec<(u64, u64, Option<u64>)> = vec![];
        let mut rt_changes: BTreeMap<u64, Vec<(u64, u64, Option<u64>)>> = BTreeMap::new();
        let mut attached_now: Option<u64> = None;
        // the handle that came with the attached sink panics in its destructor
        let mut attached_panics = false;
        // ... has a slow destructor; and: the destructor of a detached sink's handle is still running
        let mut attached_slow = false;
        let mut slow_in_flight = false;
        let mut rt_now: BTreeMap<u64, Option<u64>> = BTreeMap::new();
        let mut forgotten = false;
        for op in ops.iter().filter(|o| ju(&o.spec, "g", 0).min(1) == g || o.name == "final_detach") {
            match op.name.as_str() {
                "attach" if op.outcome == "spawned" => {}
                "slow_finish" => slow_in_flight = false,
                "attach" => {
                    let expect_panic = attached_now.is_some();
                    let panicked = op.outcome.starts_with("panic:");
                    if panicked && !expect_panic && slow_in_flight && op.outcome.contains("Already installed") {
                        // the previous sink's handle is still being dropped (its destructor has not returned): an
                        // implementation may regard the global as attached until then - refused, nothing changes
                        continue;
                    }
                    if expect_panic != panicked {
                        return Some(Violation::new("attach_panic_mismatch", format!("attach (global {g}) while attached={attached_now:?}: outcome {}", op.outcome)));
                    }
                    if panicked && !op.outcome.contains("Already installed") {
                        return Some(Violation::new("global_damaged", format!("attach (global {g}) failed with an unexpected panic: {}", op.outcome)));
                    }
                    if !panicked {
                        attached_now = Some(ju(&op.spec, "dest", 0));
                        attached_changes.push((op.inv, op.ret, attached_now));
                        attached_panics = js(&op.spec, "handle", "") == "panic" && !jb(&op.spec, "queue", false);
                        attached_slow = js(&op.spec, "handle", "") == "slow" && !jb(&op.spec, "queue", false);
                    }
                }
                "detach" => {
                    // (a queue whose stream panicked has lost its writer thread: the detach panics in join().unwrap())
                    let stream_died = attached_now.map(|d| hist.iter().any(|e| e.seq < op.ret && matches!(&e.k, K::Note(n) if *n == format!("stream_panicked:{d}")))).unwrap_or(false);
                    let expected_panic = (op.outcome.starts_with(&format!("panic:{HANDLE_PANIC}")) && attached_panics) || (op.outcome.starts_with("panic:") && stream_died);
                    if op.outcome.starts_with("panic:") && !expected_panic {
                        return Some(Violation::new("global_damaged", format!("dropping the attach handle (global {g}) panicked: {}", op.outcome)));
                    }
                    if op.outcome == "stuck" {
                        return Some(Violation::new("detach_never_reached_the_handle", format!("the attach handle (global {g}) was dropped on a helper thread, but the destructor of the handle that came with the sink had not begun after 1 s")));
                    }
                    if op.outcome == "ok" || expected_panic {
                        slow_in_flight = attached_slow;
                        attached_slow = false;
                        attached_panics = false;
                        attached_now = None;
                        attached_changes.push((op.inv, op.ret, None));
                    }
                }
                "forget" => {
                    if op.outcome == "ok" {
                        forgotten = true;
                    }
                }
                "rt_set" => {
                    let r = ju(&op.spec, "rt", 0) % 2;
                    let cur = rt_now.get(&r).cloned().flatten();
                    let expect_panic = cur.is_some();
                    let panicked = op.outcome.starts_with("panic:");
                    if expect_panic != panicked {
                        return Some(Violation::new("runtime_sink_panic_mismatch", format!("set_test_sink_for_tokio_runtime (global {g}, runtime {r}) while installed={cur:?}: outcome {}", op.outcome)));
                    }
                    if !panicked {
                        rt_now.insert(r, Some(ju(&op.spec, "dest", 0)));
                        rt_changes.entry(r).or_default().push((op.inv, op.ret, Some(ju(&op.spec, "dest", 0))));
                    }
                }
                "rt_drop" => {
                    let r = ju(&op.spec, "rt", 0) % 2;
                    if op.outcome == "ok" {
                        rt_now.insert(r, None);
                        rt_changes.entry(r).or_default().push((op.inv, op.ret, None));
                    }
                }
                "rt_drop_both" => {
                    for (r, c) in [(0u64, 'a'), (1, 'b')] {
                        if op.outcome.contains(c) {
                            rt_now.insert(r, None);
                            rt_changes.entry(r).or_default().push((op.inv, op.ret, None));
                        }
                    }
                }
                _ => {}
            }
        }
        let _ = forgotten;
        // per-thread state: thread-local sink and entered runtime (program order per thread)
        let mut tl: BTreeMap<u64, Option<u64>> = BTreeMap::new();
        let mut entered: BTreeMap<u64, Option<u64>> = BTreeMap::new();
        let mut by_thread: BTreeMap<u64, Vec<&Op>> = BTreeMap::new();
        for op in &ops {
            by_thread.entry(op.tno).or_default().push(op);
        }
        for (t, tops) in by_thread {
            for op in tops {
                let og = ju(&op.spec, "g", 0).min(1);
                match op.name.as_str() {
                    "enter" if op.outcome == "ok" => {
                        entered.insert(t, Some(ju(&op.spec, "rt", 0) % 2));
                    }
                    "leave" if op.outcome == "ok" => {
                        entered.insert(t, None);
                    }
                    "tl_set" if og == g => {
                        let cur = tl.get(&t).cloned().flatten();
                        let panicked = op.outcome.starts_with("panic:");
                        if cur.is_some() != panicked {
                            return Some(Violation::new("test_sink_panic_mismatch", format!("set_test_sink (global {g}, thread {t}) while installed={cur:?}: outcome {}", op.outcome)));
                        }
                        if !panicked {
                            tl.insert(t, Some(ju(&op.spec, "dest", 0)));
                        }
                    }
                    "tl_drop" if og == g && op.outcome == "ok" => {
                        tl.insert(t, None);
                    }
                    "is_attached" if og == g => {
                        let tlv = tl.get(&t).cloned().flatten();
                        if tlv.is_none() && entered.get(&t).cloned().flatten().is_none() {
                            let c = candidates(&attached_changes, op.inv, op.ret);
                            let ok = (op.outcome == "true" && c.iter().any(|v| v.is_some())) || (op.outcome == "false" && c.contains(&None));
                            if !ok {
                                return Some(Violation::new("is_attached_wrong", format!("is_attached (global {g}) returned {} but the attached sink could only be {c:?}", op.outcome)));
                            }
                        }
                    }
                    "append" | "with_tl" if og == g => {
                        let id = ju(&op.spec, "id", 0);
                        // allowed destinations
                        let mut allowed: BTreeSet<u64> = BTreeSet::new();
                        let mut none_possible = false;
                        let tlv = if op.name == "with_tl" {
                            // with_test_sink installs (or panics if one is installed already)
                            if tl.get(&t).cloned().flatten().is_some() { None } else { Some(ju(&op.spec, "dest", 0)) }
                        } else {
                            tl.get(&t).cloned().flatten()
                        };
                        if op.name == "with_tl" && tl.get(&t).cloned().flatten().is_some() {
                            if !op.outcome.starts_with("panic:") {
                                return Some(Violation::new("test_sink_panic_mismatch", format!("with_test_sink (global {g}) with a test sink already installed did not panic")));
                            }
                            if delivered.contains_key(&id) {
                                return Some(Violation::new("delivered_despite_panic", format!("entry {id} was delivered although with_test_sink panicked before appending")));
                            }
                            continue;
                        }
                        if let Some(d) = tlv {
                            allowed.insert(d);
                        } else {
                            let mut fall = true;
                            if let Some(r) = entered.get(&t).cloned().flatten() {
                                let c = candidates(rt_changes.get(&r).map(|v| v.as_slice()).unwrap_or(&[]), op.inv, op.ret);
                                fall = c.contains(&None);
                                for v in c.into_iter().flatten() {
                                    allowed.insert(v);
                                }
                            }
                            if fall {
                                let c = candidates(&attached_changes, op.inv, op.ret);
                                none_possible = c.contains(&None);
                                for v in c.into_iter().flatten() {
                                    allowed.insert(v);
                                }
                            }
                        }
                        let got = delivered.get(&id).cloned().unwrap_or_default();
                        if got.len() > 1 {
                            return Some(Violation::new("delivered_twice", format!("entry {id} (global {g}) reached {} destinations: {:?}", got.len(), got.iter().map(|x| x.0).collect::<Vec<_>>())));
                        }
                        let how = js(&op.spec, "how", "append");
                        match got.first() {
                            Some((d, _)) => {
                                if !allowed.contains(d) {
                                    return Some(Violation::new(
                                        "wrong_destination",
                                        format!("entry {id} (global {g}, thread {t}, thread-local sink {tlv:?}, runtime {:?}) reached destination {d}; allowed by precedence: {allowed:?}", entered.get(&t).cloned().flatten()),
                                    ));
                                }
                                let expected_panic = (jb(&op.spec, "panic_after", false) && op.outcome.starts_with("panic:harness: the closure")) || (strict_dests.contains(d) && id % 5 == 0 && op.outcome.starts_with(&format!("panic:{STRICT_PANIC}")));
                                if op.outcome != "ok" && !expected_panic {
                                    return Some(Violation::new("delivered_but_reported_failure", format!("entry {id} was delivered to {d} but the append reported {}", op.outcome)));
                                }
                            }
                            None => {
                                // queue-backed destinations deliver later; only complain if no
                                // destination was possible to have accepted it
                                let accepted_by_queue = op.outcome == "ok";
                                // a queue whose output stream panicked has lost its writer: what it accepts from then on
                                // (and what was queued behind the fatal entry) goes nowhere - loudly, the detach panics
                                if accepted_by_queue && allowed.iter().any(|d| hist.iter().any(|e| matches!(&e.k, K::Note(n) if *n == format!("stream_panicked:{d}")))) {
                                    continue;
                                }
                                // `sink()` hands out a clone and appends after the lock is released: an
                                // append racing with a detach may land in an already shut-down queue and is
                                // then silently discarded (C05) -- legal when a control change overlapped
                                let sink_race = how == "sink" && candidates(&attached_changes, op.inv, op.ret).len() > 1;
                                if accepted_by_queue && sink_race {
                                    continue;
                                }
                                // a buffering sink delivers when it is dropped; one whose attach handle was forgotten is
                                // never dropped
                                let buffered_forever = ops.iter().any(|o| o.name == "forget" && o.outcome == "ok" && ju(&o.spec, "g", 0).min(1) == g)
                                    && allowed.iter().any(|d| ops.iter().any(|o| o.name == "attach" && ju(&o.spec, "dest", 0) == *d && js(&o.spec, "handle", "") == "buffered" && !jb(&o.spec, "queue", false)));
                                if accepted_by_queue && buffered_forever {
                                    continue;
                                }
                                if accepted_by_queue {
                                    // a queue-backed sink accepted it: it must show up by the end
                                    return Some(Violation::new("accepted_entry_lost", format!("append of entry {id} (global {g}) succeeded but the entry never reached any destination")));
                                }
                                if !none_possible {
                                    return Some(Violation::new(
                                        "spurious_unattached",
                                        format!("entry {id} (global {g}) was refused ({}) although a destination was installed throughout: {allowed:?}", op.outcome),
                                    ));
                                }
                                if how == "try" && op.outcome != format!("returned:{id}") {
                                    return Some(Violation::new("try_append_did_not_return_entry", format!("try_append without destination must hand the same entry back, got {}", op.outcome)));
                                }
                                if how != "try" && !op.outcome.starts_with("panic:") {
                                    return Some(Violation::new("append_without_sink_did_not_panic", format!("append/sink() without destination: {}", op.outcome)));
                                }
                            }
                        }
                    }
                    _ => {}
                }
            }
        }
    }
    // detach of a queue-backed global: drained, flushed, closed when the drop returns (C05)
    for op in ops.iter().filter(|o| o.name == "detach" && o.outcome == "ok") {
        // which destination was attached? the latest successful attach on this global before it
        let g = ju(&op.spec, "g", 0).min(1);
        let att = ops.iter().filter(|a| a.name == "attach" && a.outcome == "ok" && ju(&a.spec, "g", 0).min(1) == g && a.ret < op.inv).last();
        if let Some(a) = att {
            if jb(&a.spec, "queue", false) {
                let d = ju(&a.spec, "dest", 0) as u32;
                let closed = hist.iter().any(|e| matches!(e.k, K::StreamDrop { stream } if stream == d) && e.seq < op.ret && e.seq > a.inv);
                if !closed {
                    return Some(Violation::new("detach_did_not_shut_down", format!("the attach handle of queue-backed global {g} was dropped, but the queue's stream {d} had not been closed when the drop returned")));
                }
                // everything the queue accepted before the detach began is written and flushed
                let mut last_next = 0;
                for aop in ops.iter().filter(|o| (o.name == "append") && o.outcome == "ok" && o.ret < op.inv && o.inv > a.ret) {
                    let id = ju(&aop.spec, "id", 0);
                    if let Some(v) = delivered.get(&id) {
                        if v.iter().any(|(dd, _)| *dd == d as u64) {
                            let ne = hist.iter().find(|e| matches!(&e.k, K::NextEnd { stream, id: Some(i), .. } if *stream == d && *i == id)).map(|e| e.seq);
                            match ne {
                                Some(s) if s < op.ret => last_next = last_next.max(s),
                                _ => return Some(Violation::new("detach_lost_entry", format!("entry {id} was accepted by the queue-backed global {g} before its attach handle was dropped but was not written when the drop returned"))),
                            }
                        }
                    }
                }
                let flushed = hist.iter().any(|e| matches!(e.k, K::FlushBegin { stream } if stream == d) && e.seq > last_next && e.seq < op.ret);
                if !flushed {
                    return Some(Violation::new("detach_without_flush", format!("queue-backed global {g}: no flush of stream {d} after its last entry before the detach returned")));
                }
            }
        }
    }
    None
}

// ------------------------------------------------------------------------------------------
// generation
// ------------------------------------------------------------------------------------------

pub fn gen_c17(rng: &mut Rng) -> Value {
    let nt = 2 + rng.below(3);
    let mut next_id = 1u64;
    let mut next_dest = 10u64;
    let mut threads: Vec<Vec<Value>> = vec![];
    let forget_run = rng.chance(0.02);
    for t in 0..nt {
        let mut ops = vec![];
        let n = 3 + rng.below(10);
        let mut pending_finish: Vec<(usize, u64)> = vec![];
        // One run in six opens with a hand-over: a sink whose handle has a slow destructor is detached, and while that
        // destructor is still running the next sink is attached and used; then the destructor is let go, and the new
        // sink must still be the destination. (Peeked from a copy of the generator: no draw moves.)
        let peek = rng.clone().next_u64();
        if t == 0 && peek % 6 == 0 {
            let g = (peek / 6) % 2;
            let (d1, d2) = (next_dest + 1, next_dest + 2);
            next_dest += 2;
            ops.push(json!({"op":"attach","g":g,"dest":d1,"queue":false,"stream":false,"strict":false,"emitting_handle":false,"handle":"slow"}));
            ops.push(json!({"op":"append","g":g,"id":next_id,"how":"try"}));
            ops.push(json!({"op":"detach","g":g,"in_panic":false}));
            ops.push(json!({"op":"attach","g":g,"dest":d2,"queue": (peek / 12) % 3 == 0,"stream":false,"strict":false,"emitting_handle":false,"handle":"plain","on_helper": (peek / 108) % 2 == 0,"inline": (peek / 108) % 2 == 1}));
            ops.push(json!({"op":"append","g":g,"id":next_id + 1,"how":"try"}));
            ops.push(json!({"op":"slow_finish","g":g}));
            ops.push(json!({"op":"append","g":g,"id":next_id + 2,"how": *["try", "append", "sink"].get((peek / 36 % 3) as usize).unwrap()}));
            next_id += 3;
        }
        for _ in 0..n {
            if let Some(i) = pending_finish.iter().position(|(at, _)| *at <= ops.len()) {
                let (_, g) = pending_finish.remove(i);
                ops.push(json!({"op":"slow_finish","g":g}));
            }
            let g = rng.below(2);
            let c = rng.below(if t == 0 { 14 } else { 9 });
            match c {
                0 | 1 | 2 | 3 => {
                    let id = next_id;
                    next_id += 1;
                    ops.push(json!({"op":"append","g":g,"id":id,"how": *rng.pick(&["append", "try", "try", "sink"])}));
                }
                4 => {
                    next_dest += 1;
                    ops.push(json!({"op":"tl_set","g":g,"dest":next_dest,"strict": rng.chance(0.2)}));
                }
                5 => ops.push(json!({"op":"tl_drop","g":g})),
                6 => {
                    let id = next_id;
                    next_id += 1;
                    next_dest += 1;
                    ops.push(json!({"op":"with_tl","g":g,"dest":next_dest,"id":id,"panic_after": rng.chance(0.3)}));
                }
                7 => ops.push(if rng.chance(0.6) { json!({"op":"enter","rt":rng.below(2)}) } else { json!({"op":"leave"}) }),
                8 => ops.push(if rng.chance(0.5) { json!({"op":"is_attached","g":g}) } else { json!({"op":"sleep","ns": 1_000 * (1 + rng.below(100_000))}) }),
                9 | 10 => {
                    next_dest += 1;
                    ops.push(json!({"op":"attach","g":g,"dest":next_dest,"queue": rng.chance(0.4),"stream": rng.chance(0.5),"strict": rng.chance(0.2),"emitting_handle": rng.chance(0.5)}));
                    // (decided from what is already drawn, so that the other draws of the plan stay where they were)
                    if let Some(last) = ops.last_mut() {
                        let h = mix(next_dest, next_id);
                        last["emitting_handle_accepted"] = json!(h % 3 == 0);
                        last["stream_echo"] = json!(h % 5 < 2);
                        if h % 12 == 7 {
                            last["stream_panics_at"] = json!((h / 12) % 3);
                        }
                        // the handle that comes with a direct sink: plain, one whose destructor panics, one whose
                        // destructor blocks until the harness lets it go
                        last["handle"] = json!(["plain", "plain", "buffered", "panic", "slow", "slow", "buffered"][(h / 15 % 7) as usize]);
                    }
                }
                11 => {
                    ops.push(json!({"op":"detach","g":g,"in_panic": rng.chance(0.2)}));
                    // (if the handle that came with the sink has a slow destructor it is let go now, or two operations
                    // later - a new attach may come in between - or at the end of the thread)
                    match mix(next_dest, next_id + 3) % 3 {
                        0 => ops.push(json!({"op":"slow_finish","g":g})),
                        1 => pending_finish.push((ops.len() + 2, g)),
                        _ => {}
                    }
                }
                12 => {
                    next_dest += 1;
                    ops.push(json!({"op":"rt_set","g":g,"rt":rng.below(2),"dest":next_dest,"strict": rng.chance(0.3),"yields": rng.chance(0.4),"slow_drop": rng.chance(0.4)}));
                }
                _ => {
                    if rng.chance(0.3) {
                        // both runtimes get a test sink (unless they have one), then both guards go at once
                        if rng.chance(0.7) {
                            for rt in 0..2u64 {
                                next_dest += 1;
                                ops.push(json!({"op":"rt_set","g":g,"rt":rt,"dest":next_dest,"strict":false,"yields": rng.chance(0.4),"slow_drop": rng.chance(0.7)}));
                            }
                        }
                        ops.push(json!({"op":"rt_drop_both","g":g}));
                        // ... and routing must be back to the next destination, a new install must work
                        let id = next_id;
                        next_id += 1;
                        ops.push(json!({"op":"enter","rt":rng.below(2)}));
                        ops.push(json!({"op":"append","g":g,"id":id,"how":"try"}));
                        ops.push(json!({"op":"leave"}));
                    } else {
                        ops.push(json!({"op":"rt_drop","g":g,"rt":rng.below(2)}));
                    }
                }
            }
        }
        if t == 0 && forget_run {
            next_dest += 1;
            ops.push(json!({"op":"attach","g":1,"dest":next_dest,"queue":false}));
            ops.push(json!({"op":"forget","g":1}));
            // the forgotten sink stays: a later attach is refused like any attach on an attached global (twice: the
            // refusal must not depend on how often it was tried), and entries keep going where they went
            for k in 0..2 {
                next_dest += 1;
                ops.push(json!({"op":"attach","g":1,"dest":next_dest,"queue":false}));
                ops.push(json!({"op":"append","g":1,"id":9_000 + k,"how":"try"}));
            }
        }
        threads.push(ops);
    }
    let sched = gen_sched(rng, &SchedOpts { est_choices: 300, threads: nt + 1, jump_max_ns: 2_000_000_000, stall_clock_max_ns: 500_000_000, max_steps: 60_000 });
    json!({"sched": sched, "threads": threads, "tainting": forget_run})
}

pub struct GlobalRouting;

impl Scenario for GlobalRouting {
    fn name(&self) -> &'static str {
        "global_routing"
    }
    fn property(&self) -> &'static str {
        "C17"
    }
    fn generate(&self, rng: &mut Rng, _tier: Tier) -> Value {
        gen_c17(rng)
    }
    fn run(&self, plan: &Value) -> Report {
        let sched = sched_from_plan(plan);
        let log = GLog::default();
        let hist = History::new();
        let (l2, h2, p2) = (log.clone(), hist.clone(), plan.clone());
        let (out, _) = detsim::run(sched, move || global_main(&p2, l2, h2));
        let h = log.snapshot();
        let hs = hist.snapshot();
        let mut r = Report::default();
        r.nontrivial = out.threads >= 2 && out.preemptions >= 1;
        r.case_sig = mix(out.sig, hash_value(plan.get("threads").unwrap_or(&Value::Null)));
        r.tainting = jb(plan, "tainting", false) || h.iter().any(|e| matches!(&e.k, GK::OpEnd { op, outcome } if op.starts_with("forget") && outcome == "ok"));
        let failure = out.failure.clone();
        let mp = out.main_panic.clone();
        absorb_outcome(&mut r, out);
        let ops = parse_ops(&h);
        let mut st = BTreeSet::new();
        for o in &ops {
            let class = if o.outcome.starts_with("panic") { "panic" } else if o.outcome.starts_with("returned") { "returned" } else { o.outcome.as_str() };
            r.probe(&format!("{}_{}", o.name, class), 1);
            st.insert(mix(detsim::rng::hash_str(&o.name), detsim::rng::hash_str(class)));
        }
        if r.tainting {
            r.fault("handle_forgotten", 1);
        }
        r.states = st.into_iter().collect();
        // (a run that stopped half-way - step budget, deadlock - is not judged by the history oracle: the deadlock
        // itself is the finding)
        if !matches!(failure, Some(detsim::Failure::StepLimit { .. }) | Some(detsim::Failure::Deadlock { .. })) {
            r.violation = check_c17(plan, &h, &hs);
        }
        if r.violation.is_none() {
            if let Some(GK::Leak { threads }) = h.iter().map(|e| &e.k).find(|k| matches!(k, GK::Leak { .. })) {
                r.violation = Some(Violation::new("detach_did_not_shut_down", format!("every attach handle has been dropped, but these threads are still running: {threads:?} (the writer thread of a queue-backed global sink was never told to shut down, or never exits)")));
            }
        }
        r.sample = Some(json!({"threads": plan.get("threads"), "ops": ops.iter().take(40).map(|o| format!("[{}..{}] t{} {} {} -> {}", o.inv, o.ret, o.tno, o.name, o.spec, o.outcome)).collect::<Vec<_>>()}));
        if r.violation.is_none() {
            match failure {
                None => {}
                Some(f @ detsim::Failure::Deadlock { .. }) => r.violation = Some(Violation::new("deadlock", format!("{f:?}"))),
                Some(detsim::Failure::StepLimit { .. }) => r.inconclusive = true,
                Some(f) => r.harness_error = Some(format!("simulation failed: {f:?}")),
            }
            if let Some(p) = mp {
                if r.violation.is_none() {
                    r.violation = Some(Violation::new("global_damaged", format!("an operation outside the documented panics panicked: {p}")));
                }
            }
        }
        r
    }
    fn probes(&self) -> Vec<&'static str> {
        vec!["attach_ok", "attach_panic", "detach_ok", "tl_set_ok", "tl_set_panic", "rt_set_ok", "rt_set_panic", "append_ok", "append_returned", "append_panic", "with_tl_ok", "is_attached_true", "is_attached_false"]
    }
    fn components(&self) -> Value {
        json!({
            "real": ["global_entry_sink! expansion x2, one of them metrique_service_metrics::ServiceMetrics (attach / try_sink / try_append / test sinks)", "AttachHandle", "ThreadLocalTestSinkGuard / TokioRuntimeTestSinkGuard", "BackgroundQueue as attached destination", "tokio runtime context (Handle::try_current)"],
            "simulated_seams": ["RwLock of the global (blocking in the simulator)", "thread / Parker / Instant of the queue"],
            "harness": ["2-4 threads, two current-thread tokio runtimes whose context a thread may enter", "recording destinations"],
            "stub": ["tokio runtimes only provide a context id; nothing is spawned on them"]
        })
    }
    fn rule(&self) -> &'static str {
        "each run: 2-4 threads x 3-12 operations over two globals: attach (direct or queue-backed) / drop or forget the attach handle / runtime test sinks (control operations on thread 0), thread-local test sinks, with_test_sink, entering / leaving a runtime context, append / try_append / sink().append, is_attached; panics caught per operation. Oracle: reference model with linearisation windows. non-trivial = >= 2 threads and >= 1 preemption; distinct = distinct (context-switch signature, op lists)"
    }
}

/// The C05 clause "dropping the attach handle of a global sink backed by a queue returns only after
/// drain, flush and close": same system, generator biased to queue-backed attaches with appends
/// racing the detach, only the shutdown classes are reported here (routing belongs to C17).
pub struct GlobalDetach;

impl Scenario for GlobalDetach {
    fn name(&self) -> &'static str {
        "global_detach"
    }
    fn property(&self) -> &'static str {
        "C05"
    }
    fn weight(&self, _t: Tier) -> u32 {
        1
    }
    fn generate(&self, rng: &mut Rng, _tier: Tier) -> Value {
        let nt = 2 + rng.below(2);
        let mut next_id = 1u64;
        let mut threads: Vec<Vec<Value>> = vec![];
        for t in 0..nt {
            let mut ops = vec![];
            // one plan in twelve: the convenience form (`attach_to_stream`, the queue keeps its documented defaults) on a
            // slow device, and a backlog of 6 - 15 s of writing when the attach handle is dropped: well inside the
            // default shutdown timeout of 30 s, so all of it is written
            let slow = rng.clone().next_u64();
            if t == 0 && slow % 12 == 0 {
                ops.push(json!({"op":"attach","g":0,"dest":20,"queue":true,"stream":true,"next_cost_ns":100_000_000u64}));
                for _ in 0..(60 + (slow / 12) % 90) {
                    let id = next_id;
                    next_id += 1;
                    ops.push(json!({"op":"append","g":0,"id":id,"how":"try"}));
                }
                ops.push(json!({"op":"detach","g":0,"in_panic":false}));
            } else if t == 0 {
                for round in 0..(1 + rng.below(3)) {
                    ops.push(json!({"op":"attach","g":0,"dest":20 + round,"queue":true,"stream": rng.chance(0.3)}));
                    if let Some(last) = ops.last_mut() {
                        last["stream_echo"] = json!(mix(next_id, 20 + round) % 3 == 0);
                        if mix(next_id, 90 + round) % 10 == 0 {
                            last["stream_panics_at"] = json!(mix(next_id, 91 + round) % 3);
                        }
                    }
                    if rng.chance(0.3) {
                        // a second attach while attached: documented to panic, and the first sink
                        // must still be detachable (drained, flushed, closed) afterwards
                        ops.push(json!({"op":"attach","g":0,"dest":40 + round,"queue":false}));
                    }
                    for _ in 0..rng.below(4) {
                        let id = next_id;
                        next_id += 1;
                        ops.push(json!({"op":"append","g":0,"id":id,"how": *rng.pick(&["append", "try", "sink"])}));
                    }
                    if rng.chance(0.5) {
                        ops.push(json!({"op":"sleep","ns": 1_000 * (1 + rng.below(60_000))}));
                    }
                    // a quarter of the detaches: the detaching thread has a thread-local test sink installed (its own
                    // appends are shadowed by it; the detach is as final as ever)
                    let shadowed = mix(next_id, 77 + round) % 4 == 0;
                    if shadowed {
                        ops.push(json!({"op":"tl_set","g":0,"dest":60 + round,"strict":false}));
                    }
                    ops.push(json!({"op":"detach","g":0,"in_panic": rng.chance(0.2)}));
                    if shadowed {
                        ops.push(json!({"op":"tl_drop","g":0}));
                    }
                }
            } else {
                for _ in 0..(2 + rng.below(10)) {
                    let id = next_id;
                    next_id += 1;
                    ops.push(json!({"op":"append","g":0,"id":id,"how": *rng.pick(&["try", "try", "sink"])}));
                    if rng.chance(0.2) {
                        ops.push(json!({"op":"sleep","ns": 1_000 * (1 + rng.below(30_000))}));
                    }
                }
            }
            threads.push(ops);
        }
        let sched = gen_sched(rng, &SchedOpts { est_choices: 300, threads: nt + 1, jump_max_ns: 2_000_000_000, stall_clock_max_ns: 500_000_000, max_steps: 60_000 });
        json!({"sched": sched, "threads": threads, "tainting": false})
    }
    fn run(&self, plan: &Value) -> Report {
        let mut r = GlobalRouting.run(plan);
        if let Some(v) = &r.violation {
            let shutdown_class = matches!(v.class.as_str(), "detach_did_not_shut_down" | "detach_lost_entry" | "detach_without_flush" | "deadlock" | "accepted_entry_lost" | "attach_panic_mismatch" | "global_damaged");
            if !shutdown_class {
                r.violation = None;
            }
        }
        r
    }
    fn probes(&self) -> Vec<&'static str> {
        vec!["detach_ok", "append_ok", "append_returned"]
    }
    fn components(&self) -> Value {
        GlobalRouting.components()
    }
    fn rule(&self) -> &'static str {
        "each run: thread 0 attaches a BackgroundQueue-backed sink to a global, appends, drops the attach handle (1-3 rounds) while 1-2 other threads keep appending through try_append / sink(); oracle at the return of the drop: stream closed, everything accepted before the drop began written and flushed; a later attach must succeed. non-trivial = >= 2 threads and >= 1 preemption"
    }
}
