//! Which scenarios decide which property, and with what budget.

use crate::framework::{Scenario, Tier};
use crate::{scen_agg, scen_bridge, scen_hist, scen_emf, scen_global, scen_queue, scen_sample, scen_time, scen_uow};

pub fn scenarios(prop: &str) -> Vec<Box<dyn Scenario>> {
    match prop {
        "C01" => vec![Box::new(scen_queue::QueueFifo), Box::new(scen_queue::QueueFifoSustained), Box::new(scen_queue::QueueChain)],
        "C04" => vec![Box::new(scen_queue::QueueFlushBarrier), Box::new(scen_queue::QueueFlushLiveness)],
        "C05" => vec![Box::new(scen_queue::QueueShutdown), Box::new(scen_global::GlobalDetach)],
        "C06" => vec![Box::new(scen_uow::UowClose), Box::new(scen_uow::UowChain)],
        "C13" => vec![Box::new(scen_uow::UowSlots)],
        "C14" => vec![Box::new(scen_emf::EmfHistory)],
        "C18" => vec![Box::new(scen_time::Timers), Box::new(scen_time::FakeClock), Box::new(scen_time::TokioClock)],
        "C12" => vec![Box::new(scen_sample::FixedFraction), Box::new(scen_sample::Congress)],
        "C17" => vec![Box::new(scen_global::GlobalRouting)],
        "C16" => vec![Box::new(scen_emf::EmfWriterFaults), Box::new(scen_emf::SinkFaults), Box::new(scen_emf::Pipeline)],
        "C09" => vec![Box::new(scen_queue::QueueOverflow)],
        "C10" => vec![Box::new(scen_agg::Aggregation)],
        "C11" => vec![Box::new(scen_hist::Histograms)],
        "C20" => vec![Box::new(scen_bridge::Bridge), Box::new(scen_bridge::BridgeReporter)],
        _ => vec![],
    }
}

pub const CLAIMED: [&str; 14] = ["C01", "C04", "C05", "C06", "C09", "C10", "C11", "C12", "C13", "C14", "C16", "C17", "C18", "C20"];

pub struct Budget {
    /// number of runs (quick: exactly this many; thorough: upper bound)
    pub runs: u64,
    /// wall-clock cap in seconds for the exploration phase
    pub wall_s: u64,
    /// runs per worker process
    pub chunk: u64,
}

pub fn budget(prop: &str, tier: Tier) -> Budget {
    let (q, t) = match prop {
        "C01" => (120_000, 600),
        "C04" => (60_000, 720),
        "C05" => (120_000, 600),
        "C09" => (150_000, 480),
        "C06" => (400_000, 480),
        "C13" => (600_000, 480),
        "C14" => (20_000, 480),
        "C17" => (100_000, 600),
        "C18" => (150_000, 480),
        "C12" => (20_000, 480),
        "C16" => (12_000, 600),
        "C10" => (100_000, 600),
        "C20" => (300_000, 600),
        "C11" => (200_000, 600),
        _ => (20_000, 600),
    };
    match tier {
        Tier::Quick => Budget { runs: q, wall_s: 150, chunk: 256 },
        Tier::Thorough => Budget { runs: 50_000_000, wall_s: t, chunk: 256 },
    }
}

pub fn level(prop: &str) -> &'static str {
    match prop {
        "C16" => "fault_enumeration",
        _ => "exploration",
    }
}
