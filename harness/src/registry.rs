//! Which scenarios decide which property, and with what budget.

use crate::framework::{Scenario, Tier};
use crate::scen_queue;

pub fn scenarios(prop: &str) -> Vec<Box<dyn Scenario>> {
    match prop {
        "C01" => vec![Box::new(scen_queue::QueueFifo)],
        _ => vec![],
    }
}

pub const CLAIMED: [&str; 1] = ["C01"];

pub struct Budget {
    /// number of runs (quick: exactly this many; thorough: upper bound)
    pub runs: u64,
    /// wall-clock cap in seconds for the exploration phase
    pub wall_s: u64,
    /// runs per worker process
    pub chunk: u64,
}

pub fn budget(prop: &str, tier: Tier) -> Budget {
    let (q, t) = match prop {
        "C01" => (40_000, 600),
        _ => (20_000, 600),
    };
    match tier {
        Tier::Quick => Budget { runs: q, wall_s: 150, chunk: 256 },
        Tier::Thorough => Budget { runs: 50_000_000, wall_s: t, chunk: 256 },
    }
}

pub fn level(prop: &str) -> &'static str {
    match prop {
        "C16" => "fault_enumeration",
        _ => "exploration",
    }
}
